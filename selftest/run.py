#!/usr/bin/env python3
"""Self-test of the checker in both directions (not a registered check).

For every entry of selftest/mutants.py a scratch copy of /repo/pymoto is made under a temporary directory (outside
/repo and /verif, removed afterwards), the edit is applied, the copy is byte-compiled, and the property's check is run
against it with VERIF_REPO pointing at the copy:
  kind 'break': the check must exit 1 and the expected rule must name the mutated function;
  kind 'twin' : a behaviour-preserving refactoring, the check must exit 0.
"""
import concurrent.futures as cf
import os
import py_compile
import shutil
import subprocess
import sys
import tempfile

HERE = os.path.dirname(os.path.abspath(__file__))
VERIF = os.path.dirname(HERE)
sys.path.insert(0, HERE)
from mutants import MUTANTS  # noqa: E402

REPO = os.environ.get("VERIF_REPO", "/repo")
PY = "/venv/bin/python"


def run_one(mu):
    tmp = tempfile.mkdtemp(prefix="pmlint_selftest_", dir="/var/tmp")
    try:
        shutil.copytree(os.path.join(REPO, "pymoto"), os.path.join(tmp, "pymoto"),
                        ignore=shutil.ignore_patterns("__pycache__"))
        for (rel, old, new) in mu["edits"]:
            path = os.path.join(tmp, rel)
            src = open(path).read()
            if src.count(old) != 1:
                return mu, "SETUP", f"edit anchor occurs {src.count(old)} times in {rel}: {old[:60]!r}"
            open(path, "w").write(src.replace(old, new))
            try:
                py_compile.compile(path, doraise=True, cfile=os.path.join(tmp, "x.pyc"))
            except py_compile.PyCompileError as e:
                return mu, "SETUP", f"mutant does not compile: {e}"
        env = dict(os.environ, VERIF_REPO=tmp, PMLINT_EVIDENCE_DIR=os.path.join(tmp, "evidence"))
        outs = []
        verdicts = []
        for prop in mu["props"]:
            r = subprocess.run([PY, "-m", "pmlint", "check", prop, "--tier", mu.get("tier", "thorough")], cwd=VERIF, env=env,
                               capture_output=True, text=True)
            outs.append(r.stdout + r.stderr)
            verdicts.append(r.returncode)
        out = "\n".join(outs)
        if mu["kind"] == "break":
            ok = all(v == 1 for v in verdicts) and all(r in out for r in mu.get("rules", []))
            if mu.get("where") and mu["where"] not in out:
                ok = False
        else:
            ok = all(v == 0 for v in verdicts)
        return mu, "PASS" if ok else "FAIL", f"exit={verdicts}\n" + ("" if ok else out[-3000:])
    finally:
        shutil.rmtree(tmp, ignore_errors=True)


def main():
    sel = sys.argv[1:]
    todo = [m for m in MUTANTS if not sel or any(s in m["id"] for s in sel)]
    n_fail = 0
    with cf.ThreadPoolExecutor(max_workers=16) as ex:
        for mu, status, info in ex.map(run_one, todo):
            print(f"{status:<5} {mu['kind']:<5} {mu['id']:<40} {','.join(mu['props'])} {','.join(mu.get('rules', []))}")
            if status != "PASS":
                n_fail += 1
                print("      " + info.replace("\n", "\n      "))
    print(f"{len(todo) - n_fail}/{len(todo)} self-test cases behave as expected")
    return 1 if n_fail else 0


if __name__ == "__main__":
    sys.exit(main())
