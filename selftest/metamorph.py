#!/usr/bin/env python3
"""Metamorphic self-test of the checker: whole-package behaviour-preserving rewrites on which every check must stay
silent (exit 0, same KNOWN-FINDING lines modulo renamed text).

  rename   every non-parameter local variable of every function gets the suffix `_rn`
  swapif   every `if c: A else: B` (with a non-empty else that is not an elif chain) becomes `if not (c): B else: A`
  ifexp    every `x = a if c else b` assignment becomes an if/else statement

The rewritten package is written to a scratch directory under /var/tmp (removed afterwards), byte-compiled, and all
checks are run against it with VERIF_REPO.  Not a registered check.
"""
import ast
import concurrent.futures as cf
import json
import os
import shutil
import subprocess
import sys
import tempfile

VERIF = os.path.dirname(os.path.dirname(os.path.abspath(__file__)))
REPO = os.environ.get("VERIF_REPO", "/repo")
PY = "/venv/bin/python"


class Rename(ast.NodeTransformer):
    def visit_FunctionDef(self, node):
        # locals = names bound in this function body (not in nested functions), excluding parameters / globals
        params = {a.arg for a in node.args.posonlyargs + node.args.args + node.args.kwonlyargs}
        if node.args.vararg:
            params.add(node.args.vararg.arg)
        if node.args.kwarg:
            params.add(node.args.kwarg.arg)
        bound, banned = set(), set()

        def targets(t):
            if isinstance(t, ast.Name):
                bound.add(t.id)
            elif isinstance(t, (ast.Tuple, ast.List)):
                for e in t.elts:
                    targets(e)
            elif isinstance(t, ast.Starred):
                targets(t.value)

        def walk(n, top=True):
            for ch in ast.iter_child_nodes(n):
                if isinstance(ch, (ast.FunctionDef, ast.Lambda, ast.ClassDef)):
                    # names used inside nested scopes must keep their spelling
                    for x in ast.walk(ch):
                        if isinstance(x, ast.Name):
                            banned.add(x.id)
                    if isinstance(ch, (ast.FunctionDef, ast.ClassDef)):
                        banned.add(ch.name)
                    continue
                if isinstance(ch, ast.Assign):
                    for t in ch.targets:
                        targets(t)
                elif isinstance(ch, (ast.AugAssign, ast.AnnAssign)):
                    targets(ch.target)
                elif isinstance(ch, ast.For):
                    targets(ch.target)
                elif isinstance(ch, ast.With):
                    for it in ch.items:
                        if it.optional_vars is not None:
                            targets(it.optional_vars)
                elif isinstance(ch, (ast.Global, ast.Nonlocal)):
                    banned.update(ch.names)
                elif isinstance(ch, ast.ExceptHandler) and ch.name:
                    banned.add(ch.name)
                elif isinstance(ch, (ast.Import, ast.ImportFrom)):
                    for a in ch.names:
                        banned.add((a.asname or a.name).split(".")[0])
                elif isinstance(ch, ast.comprehension):
                    for x in ast.walk(ch.target):
                        if isinstance(x, ast.Name):
                            banned.add(x.id)     # comprehension variables live in their own scope
                walk(ch, False)
        walk(node)
        ren = {n: n + "_rn" for n in bound - params - banned if not n.startswith("__")}
        # keyword argument names are attribute-like, not Name nodes: safe

        class R(ast.NodeTransformer):
            def visit_Name(self, n):
                if n.id in ren:
                    return ast.copy_location(ast.Name(id=ren[n.id], ctx=n.ctx), n)
                return n

            def visit_FunctionDef(self, n):
                return n

            def visit_Lambda(self, n):
                return n

            def visit_ClassDef(self, n):
                return n
        new_body = [R().visit(st) for st in node.body]
        node.body = new_body
        # nested functions are handled on their own
        for st in ast.walk(node):
            if isinstance(st, ast.FunctionDef) and st is not node:
                pass
        return node

    def generic_visit(self, node):
        return super().generic_visit(node)


class RenameAll(ast.NodeTransformer):
    def visit_ClassDef(self, node):
        node.body = [self.visit(b) for b in node.body]
        return node

    def visit_FunctionDef(self, node):
        return Rename().visit_FunctionDef(node)


class SwapIf(ast.NodeTransformer):
    def visit_If(self, node):
        self.generic_visit(node)
        if node.orelse and not (len(node.orelse) == 1 and isinstance(node.orelse[0], ast.If)):
            return ast.copy_location(ast.If(test=ast.UnaryOp(op=ast.Not(), operand=node.test), body=node.orelse, orelse=node.body), node)
        return node


class IfExpToStmt(ast.NodeTransformer):
    def visit_Assign(self, node):
        if isinstance(node.value, ast.IfExp) and len(node.targets) == 1 and isinstance(node.targets[0], (ast.Name, ast.Attribute)):
            import copy
            a = ast.Assign(targets=[copy.deepcopy(node.targets[0])], value=node.value.body)
            b = ast.Assign(targets=[copy.deepcopy(node.targets[0])], value=node.value.orelse)
            return ast.copy_location(ast.If(test=node.value.test, body=[a], orelse=[b]), node)
        return node


TRANSFORMS = {"rename": RenameAll, "swapif": SwapIf, "ifexp": IfExpToStmt}


def build(kind: str, dst: str):
    shutil.copytree(os.path.join(REPO, "pymoto"), os.path.join(dst, "pymoto"), ignore=shutil.ignore_patterns("__pycache__"))
    n = 0
    for dirpath, _, files in os.walk(os.path.join(dst, "pymoto")):
        for fn in files:
            if not fn.endswith(".py"):
                continue
            p = os.path.join(dirpath, fn)
            src = open(p, encoding="utf-8").read()
            tree = ast.parse(src)
            tree = TRANSFORMS[kind]().visit(tree)
            ast.fix_missing_locations(tree)
            out = ast.unparse(tree)
            compile(out, p, "exec")
            open(p, "w", encoding="utf-8").write(out + "\n")
            n += 1
    return n


def run(kind: str):
    tmp = tempfile.mkdtemp(prefix=f"pmlint_meta_{kind}_", dir="/var/tmp")
    try:
        build(kind, tmp)
        checks = [c["property_id"] for c in json.load(open(os.path.join(VERIF, "MANIFEST.json")))["checks"]]
        env = dict(os.environ, VERIF_REPO=tmp, PMLINT_EVIDENCE_DIR=os.path.join(tmp, "ev"))
        res = []

        def one(p):
            r = subprocess.run([PY, "-m", "pmlint", "check", p, "--tier", "thorough"], cwd=VERIF, env=env, capture_output=True, text=True)
            return p, r.returncode, r.stdout
        with cf.ThreadPoolExecutor(max_workers=16) as ex:
            res = list(ex.map(one, checks))
        bad = [(p, rc, out) for p, rc, out in res if rc != 0]
        print(f"{kind}: {len(res) - len(bad)}/{len(res)} checks silent")
        for p, rc, out in bad:
            print(f"  {p} exit={rc}")
            for ln in out.split("\n"):
                if ln.startswith("pymoto/") or ln.startswith("ANALYSIS"):
                    print("     ", ln[:260])
        if os.environ.get("KEEP"):
            print("kept", tmp)
        return len(bad)
    finally:
        if not os.environ.get("KEEP"):
            shutil.rmtree(tmp, ignore_errors=True)


if __name__ == "__main__":
    kinds = sys.argv[1:] or list(TRANSFORMS)
    sys.exit(1 if sum(run(k) for k in kinds) else 0)
