"""Self-test cases: (file, old, new) edits of a scratch copy.  'break' = must be reported by the named rule;
'twin' = behaviour-preserving refactoring, must stay silent."""

CORE = "pymoto/core_objects.py"
FILT = "pymoto/modules/filter.py"
LINA = "pymoto/modules/linalg.py"
ASSE = "pymoto/modules/assembly.py"
AGGR = "pymoto/modules/aggregation.py"
GENE = "pymoto/modules/generic.py"
SOLV = "pymoto/solvers/solvers.py"
ITER = "pymoto/solvers/iterative.py"
DENS = "pymoto/solvers/dense.py"
DYAD = "pymoto/common/dyadcarrier.py"
ROUT = "pymoto/routines.py"
MMA = "pymoto/common/mma.py"
DOMA = "pymoto/common/domain.py"
IO = "pymoto/modules/io.py"
SCAL = "pymoto/modules/scaling.py"
CPLX = "pymoto/modules/complex.py"


def B(id, props, rules, edits, where=None, tier="thorough"):
    return {"id": id, "kind": "break", "props": props, "rules": rules, "edits": edits, "where": where, "tier": tier}


def T(id, props, edits, tier="thorough"):
    return {"id": id, "kind": "twin", "props": props, "edits": edits, "tier": tier}


MUTANTS = [
    # ------------------------------------------------------------------------------------------- C04 effects
    B("overhang-seed-nocopy", ["C04"], ["R-EFF-SEED"],
      [(FILT, "        dxprint = dxprint.copy()  # Do not modify the incoming sensitivity\n", "")], "OverhangFilter._sensitivity"),
    B("scaling-inplace-seed", ["C04"], ["R-EFF-SEED"],
      [(SCAL, "        dg = dy * self.sf\n", "        dg = dy\n        dg *= self.sf\n")], "Scaling._sensitivity"),
    B("filterconv-seed-view", ["C04"], ["R-EFF-SEED"],
      [(FILT, "        dx3d = correlate(dfdv[self.el3d_orig], self.weights, mode='full')\n",
        "        w = dfdv.reshape(-1)\n        w[0] += 0.0\n        dx3d = correlate(dfdv[self.el3d_orig], self.weights, mode='full')\n")],
      "FilterConv._sensitivity"),
    B("inner-linsolve-shared-signal", ["C04"], ["R-EFF-RESP"],
      [(LINA, "    def _prepare(self, main, free, **kwargs):\n        self.module_LinSolve = LinSolve([Signal(), Signal()], **kwargs)",
        "    def _prepare(self, main, free, **kwargs):\n        self.module_LinSolve = LinSolve([self.sig_in[0], Signal()], **kwargs)")],
      "StaticCondensation._response"),
    B("overhang-xprint-alias", ["C04"], ["R-EFF-RESP"],
      [(FILT, "        xprint = x.copy()\n        self.smax = x.copy()\n", "        xprint = x\n        self.smax = x.copy()\n")],
      "OverhangFilter._response"),
    B("mathgeneral-state-mut", ["C04"], ["R-EFF-STATE"],
      [(GENE, "        dg_df = self.df(*self.x)  # This could be moved", "        self.x[0][...] = 0.0\n        dg_df = self.df(*self.x)  # This could be moved")],
      "MathGeneral._sensitivity"),
    B("linsolve-sens-carried-state", ["C04"], ["R-EFF-SELF"],
      [(LINA, "        db = np.real(lam) if np.isrealobj(rhs) else lam\n", "        db = np.real(lam) if np.isrealobj(rhs) else lam\n        self.last_lam = lam\n")],
      "LinSolve._sensitivity"),
    B("assemble-state-write", ["C04"], ["R-STATE-WRITERS"],
      [(ASSE, "        if self.add_constant is not None:\n            mat += self.add_constant\n        return mat\n",
        "        if self.add_constant is not None:\n            mat += self.add_constant\n        self.sig_out[0].state = mat\n        return mat\n")],
      "AssembleGeneral._response"),
    T("twin-overhang-nparray-copy", ["C04"],
      [(FILT, "        dxprint = dxprint.copy()  # Do not modify the incoming sensitivity\n", "        dxprint = np.array(dxprint)\n")]),
    T("twin-scaling-fresh-then-inplace", ["C04"],
      [(SCAL, "        dg = dy * self.sf\n", "        dg = dy * 1.0\n        dg *= self.sf\n")]),
    T("twin-aggregation-rename", ["C04"],
      [(AGGR, "        dx = np.zeros_like(x)\n        dx[self.select] += self.sf * dfdy * dydx\n        return dx\n",
        "        out = np.zeros_like(x)\n        out[self.select] = out[self.select] + self.sf * dfdy * dydx\n        return out\n")]),
    # --------------------------------------------------------------------------------------- C02 / C18 skeleton
    B("net-sens-forward-plain", ["C02"], ["R-NET-ORDER"],
      [(CORE, "            [m.sensitivity() for m in reversed(self.mods)]\n", "            [m.sensitivity() for m in self.mods]\n")], "Network.sensitivity"),
    B("net-sens-forward-timed", ["C02"], ["R-NET-ORDER"],
      [(CORE, "\"{type(m).__name__}\\\"\") for m in reversed(self.mods)]", "\"{type(m).__name__}\\\"\") for m in self.mods]")], "Network.sensitivity"),
    B("net-resp-skip-first", ["C02"], ["R-NET-ORDER"],
      [(CORE, "            [m.response() for m in self.mods]\n", "            [m.response() for m in self.mods[1:]]\n")], "Network.response"),
    B("addsens-overwrite", ["C02", "C18"], ["R-ACCUMULATE"],
      [(CORE, "            else:\n                self.sensitivity += ds\n            return self\n        except TypeError:\n            if isinstance(ds, type(self.sensitivity)):\n                raise TypeError(f\"Cannot add to the sensitivity with type '{type(self.sensitivity).__name__}'\"+self._err_str())",
        "            else:\n                self.sensitivity = self.sensitivity + ds\n            return self\n        except TypeError:\n            if isinstance(ds, type(self.sensitivity)):\n                raise TypeError(f\"Cannot add to the sensitivity with type '{type(self.sensitivity).__name__}'\"+self._err_str())")],
      "Signal.add_sensitivity"),
    B("addsens-no-deepcopy", ["C02", "C18"], ["R-COPY-FIRST"],
      [(CORE, "                self.sensitivity = copy.deepcopy(ds)\n            elif", "                self.sensitivity = ds\n            elif")], "Signal.add_sensitivity"),
    B("addsens-shallow-copy", ["C18"], ["R-COPY-FIRST"],
      [(CORE, "                self.sensitivity = copy.deepcopy(ds)\n            elif", "                self.sensitivity = copy.copy(ds)\n            elif")], "Signal.add_sensitivity"),
    B("module-sens-no-skip", ["C02"], ["R-SKIP-UNSEEDED"],
      [(CORE, "            if len(self.sig_out) > 0 and all([s is None for s in sens_in]):\n                return  # If none of the adjoint variables is set\n", "")],
      "Module.sensitivity"),
    B("module-sens-wrong-pairing", ["C02"], ["R-ACCUMULATE"],
      [(CORE, "                self.sig_in[i].add_sensitivity(ds)\n", "                self.sig_in[-1 - i].add_sensitivity(ds)\n")], "Module.sensitivity"),
    B("module-sens-reversed-seeds", ["C02"], ["R-SEED-ORDER"],
      [(CORE, "            sens_in = [s.sensitivity for s in self.sig_out]\n", "            sens_in = [s.sensitivity for s in reversed(self.sig_out)]\n")], "Module.sensitivity"),
    B("module-direct-sens-write", ["C02"], ["R-ACCUMULATE"],
      [(SCAL, "        dg = dy * self.sf\n", "        dg = dy * self.sf\n        self.sig_in[0].sensitivity = dg\n")], "Scaling._sensitivity"),
    B("signal-reset-keepalloc-leaves-data", ["C18"], ["R-RESET"],
      [(CORE, "                try:\n                    self.sensitivity[...] = 0\n                except TypeError:\n                    self.sensitivity *= 0\n",
        "                try:\n                    self.sensitivity[0] = 0\n                except TypeError:\n                    self.sensitivity *= 0\n")], "Signal.reset"),
    B("module-reset-skips-inputs", ["C18"], ["R-RESET"],
      [(CORE, "            [s.reset() for s in self.sig_in]\n", "")], "Module.reset"),
    B("slice-reset-clears-base", ["C18"], ["R-RESET"],
      [(CORE, "        if self.sensitivity is not None:\n            self.sensitivity = None\n        return self\n",
        "        if self.sensitivity is not None:\n            self.base.sensitivity = None\n        return self\n")], "SignalSlice.reset"),
    B("slice-sens-getter-noslice", ["C18"], ["R-SLICE-SIB"],
      [(CORE, "return None if self.base.sensitivity is None else self.base.sensitivity[self.slice]", "return None if self.base.sensitivity is None else self.base.sensitivity[...]")],
      "SignalSlice.sensitivity"),
    B("slice-sens-init-from-value", ["C18"], ["R-SLICE-SIB"],
      [(CORE, "                try:\n                    self.base.sensitivity = self.base.state * 0  # Make a new copy with 0 values",
        "                try:\n                    self.base.sensitivity = new_sens * 0  # Make a new copy with 0 values")], "SignalSlice.sensitivity"),
    T("twin-net-sens-slice-reverse", ["C02"],
      [(CORE, "            [m.sensitivity() for m in reversed(self.mods)]\n", "            [m.sensitivity() for m in self.mods[::-1]]\n")]),
    T("twin-net-resp-forloop", ["C02"],
      [(CORE, "            [m.response() for m in self.mods]\n", "            for m in self.mods:\n                m.response()\n")]),
    T("twin-addsens-rename", ["C02", "C18"],
      [(CORE, "    def add_sensitivity(self, ds: Any):\n        \"\"\" Add a new term to internal sensitivity \"\"\"\n        try:\n            if ds is None:\n                return\n            if self.sensitivity is None:\n                self.sensitivity = copy.deepcopy(ds)",
        "    def add_sensitivity(self, term: Any):\n        \"\"\" Add a new term to internal sensitivity \"\"\"\n        ds = term\n        try:\n            if term is None:\n                return\n            if self.sensitivity is None:\n                self.sensitivity = copy.deepcopy(term)")]),
]

MUTANTS += [
    # ------------------------------------------------------------------------------------------ C03 caches
    B("overhang-smax-lazy", ["C03"], ["R-LATCH"],
      [(FILT, "        xprint = x.copy()\n        self.smax = x.copy()\n", "        xprint = x.copy()\n        if self.smax is None:\n            self.smax = x.copy()\n")],
      "OverhangFilter"),
    B("linsolve-u-conditional", ["C03"], ["R-FRESH"],
      [(LINA, "        self.u = self.solver.solve(rhs, x0=self.u)\n\n        return self.u\n",
        "        u = self.solver.solve(rhs, x0=self.u)\n        if rhs.ndim == 1:\n            self.u = u\n\n        return u\n")], "LinSolve"),
    B("linsolve-update-only-when-changed", ["C03"], ["R-UPDATE-BEFORE-SOLVE"],
      [(LINA, "        # Update solver with new matrix\n        self.solver.update(mat)\n",
        "        # Update solver with new matrix\n        if self.u is None:\n            self.solver.update(mat)\n")], "LinSolve._response"),
    B("eigensolve-flag-reset", ["C03"], ["R-UPDATE-BEFORE-SOLVE"],
      [(LINA, "        if self.do_solve:\n            self.Ainv.update(mat_shifted)\n", "        if self.do_solve:\n            self.Ainv.update(mat_shifted)\n            self.do_solve = False\n")],
      "EigenSolve._sparse_eigs"),
    B("eigensolve-adjoint-flag-reset", ["C03"], ["R-UPDATE-BEFORE-SOLVE"],
      [(LINA, "            vp = self.solvers[i].solve(r, trans='T')\n", "            vp = self.solvers[i].solve(r, trans='T')\n            self.adjoint_solvers_need_update = False\n")],
      "EigenSolve._sparse_eigvec_sens"),
    B("aggregation-select-only-with-set", ["C03"], ["R-FRESH"],
      [(AGGR, "        if self.active_set is not None:\n            self.select = self.active_set(x)\n        else:\n            self.select = Ellipsis\n",
        "        if x.size > 1:\n            self.select = self.active_set(x) if self.active_set is not None else Ellipsis\n")], "Aggregation"),
    B("lda-latch-reintroduced", ["C03"], ["R-LATCH-LDA"],
      [(SOLV, "        if self._detect_symmetric:\n            self.symmetric = matrix_is_symmetric(A)\n", "        if self.symmetric is None:\n            self.symmetric = matrix_is_symmetric(A)\n")],
      "LDAWrapper"),
    B("syseq-inner-matrix-once", ["C03"], ["R-UPDATE-BEFORE-SOLVE"],
      [(LINA, "        self.module_LinSolve.sig_in[0].state = Aff\n", "        if self.module_LinSolve.sig_in[0].state is None:\n            self.module_LinSolve.sig_in[0].state = Aff\n")],
      "SystemOfEquations._response"),
    T("twin-linsolve-local-then-attr", ["C03"],
      [(LINA, "        self.u = self.solver.solve(rhs, x0=self.u)\n\n        return self.u\n", "        sol = self.solver.solve(rhs, x0=self.u)\n        self.u = sol\n\n        return sol\n")]),
    T("twin-overhang-params-in-prepare-style", ["C03"],
      [(FILT, "        if self.q is None:  # Set parameters according to data type of x\n            self.set_parameters(x.dtype)\n",
        "        if self.q is None or self.shift is None:  # Set parameters according to data type of x\n            self.set_parameters(x.dtype)\n")]),
]

MUTANTS += [
    # ------------------------------------------------------------------------------------------- C19 finite_difference
    B("fd-no-final-reset", ["C19"], ["R-PROTOCOL"],
      [(ROUT, "        # Reset the sensitivities for next output\n        blk.reset()\n", "        # Reset the sensitivities for next output\n")], "finite_difference"),
    B("fd-no-initial-reset", ["C19"], ["R-PROTOCOL"],
      [(ROUT, "    # Initial reset in case some memory is still left\n    blk.reset()\n", "")], "finite_difference"),
    B("fd-restore-missing-imag", ["C19"], ["R-RESTORE"],
      [(ROUT, "                # Restore original state\n                if is_iterable:\n                    it[0] = x0\n                    Sin.state = x\n                else:\n                    Sin.state = x0\n\n            # Go to the next",
        "                # Restore original state\n                if is_iterable:\n                    it[0] = x0\n                    Sin.state = x\n\n            # Go to the next")], "finite_difference"),
    B("fd-x0-view", ["C19"], ["R-RESTORE"],
      [(ROUT, "                x0 = it[0].copy()\n", "                x0 = it[0]\n")], "finite_difference"),
    B("fd-f0-nocopy", ["C19"], ["R-RESTORE"],
      [(ROUT, "        f0[Iout] = (output.copy() if hasattr(output, \"copy\") else output)\n", "        f0[Iout] = output\n")], "finite_difference"),
    B("fd-dxan-nocopy", ["C19"], ["R-RESTORE"],
      [(ROUT, "            dx_an[Iout][Iin] = (sens.copy() if hasattr(sens, \"copy\") else sens)\n", "            dx_an[Iout][Iin] = sens\n")], "finite_difference"),
    B("fd-writeback-dropped-imag", ["C19"], ["R-FD-WRITEBACK"],
      [(ROUT, "                    it[0] += dx*1j*sf\n                    Sin.state = x\n", "                    it[0] += dx*1j*sf\n")], "finite_difference"),
    B("fd-sibling-exc-drift", ["C19"], ["R-SIBLING-EXC"],
      [(ROUT, "                        except (IndexError, TypeError):\n                            dgdx_an = np.imag(", "                        except IndexError:\n                            dgdx_an = np.imag(")], "finite_difference"),
    B("fd-reads-before-sens", ["C19"], ["R-PROTOCOL"],
      [(ROUT, "        # Perform the analytical sensitivity calculation\n        blk.sensitivity()\n\n        # Store all input sensitivities for this output\n        for Iin, Sin in enumerate(inps):\n            sens = Sin.sensitivity\n            dx_an[Iout][Iin] = (sens.copy() if hasattr(sens, \"copy\") else sens)\n",
        "        # Store all input sensitivities for this output\n        for Iin, Sin in enumerate(inps):\n            sens = Sin.sensitivity\n            dx_an[Iout][Iin] = (sens.copy() if hasattr(sens, \"copy\") else sens)\n\n        # Perform the analytical sensitivity calculation\n        blk.sensitivity()\n")], "finite_difference"),
    T("twin-fd-restore-order", ["C19"],
      [(ROUT, "            # Restore original state\n            if is_iterable:\n                it[0] = x0\n                Sin.state = x\n            else:\n                Sin.state = x0\n\n            # If the input state is complex",
        "            # Restore original state\n            if not is_iterable:\n                Sin.state = x0\n            else:\n                it[0] = x0\n                Sin.state = x\n\n            # If the input state is complex")]),
    T("twin-fd-x0-nparray", ["C19"],
      [(ROUT, "                x0 = it[0].copy()\n", "                x0 = np.array(it[0])\n")]),
]

SPAR = "pymoto/solvers/sparse.py"
AUTO = "pymoto/solvers/auto_determine.py"

MUTANTS += [
    # --------------------------------------------------------------------------------------------- C05 solvers
    B("cg-x0-nocopy", ["C05"], ["R-EFF-SOLVE"],
      [(ITER, "if x0 is None else x0.copy()", "if x0 is None else x0")], "CG.solve"),
    B("precond-returns-rhs", ["C05"], ["R-EFF-SOLVE"],
      [(ITER, "    def solve(self, rhs, x0=None, trans='N'):\n        return rhs.copy()\n", "    def solve(self, rhs, x0=None, trans='N'):\n        return rhs\n")],
      "Preconditioner.solve"),
    B("sor-inplace-rhs", ["C05"], ["R-EFF-SOLVE"],
      [(ITER, "            u1 = self.L.solve(rhs)\n            u1 *= self.Dw[:, None]\n", "            u1 = rhs\n            u1 *= self.Dw[:, None]\n            u1 = self.L.solve(u1)\n")],
      "SOR.solve"),
    B("lu-T-falls-to-raise", ["C05"], ["R-TRANS-EXH"],
      [(DENS, "        elif trans == 'T':\n            return self.p @ spla.solve_triangular(self.l, spla.solve_triangular(self.u, rhs, trans='T'),\n                                                  lower=True, trans='T')\n        elif trans == 'H':",
        "        elif trans == 'H':")], "SolverDenseLU"),
    B("sparse-lu-rejects-H", ["C05"], ["R-TRANS-EXH"],
      [(SPAR, "    def solve(self, rhs, x0=None, trans='N'):\n        r\"\"\" Solves the linear system of equations :math:`\\mathbf{A} \\mathbf{x} = \\mathbf{b}` by forward and backward\n        substitution of :math:`\\mathbf{x} = \\mathbf{U}^{-1}\\mathbf{L}^{-1}\\mathbf{b}`.\n\n        Adjoint system solves the linear system of equations :math:`\\mathbf{A}^\\text{H}\\mathbf{x} = \\mathbf{b}` by\n        forward and backward substitution of :math:`\\mathbf{x} = \\mathbf{L}^{-\\text{H}}\\mathbf{U}^{-\\text{H}}\\mathbf{b}`\n        \"\"\"\n        if trans not in ['N', 'T', 'H']:",
        "    def solve(self, rhs, x0=None, trans='N'):\n        r\"\"\" Solves the linear system of equations :math:`\\mathbf{A} \\mathbf{x} = \\mathbf{b}` by forward and backward\n        substitution of :math:`\\mathbf{x} = \\mathbf{U}^{-1}\\mathbf{L}^{-1}\\mathbf{b}`.\n\n        Adjoint system solves the linear system of equations :math:`\\mathbf{A}^\\text{H}\\mathbf{x} = \\mathbf{b}` by\n        forward and backward substitution of :math:`\\mathbf{x} = \\mathbf{L}^{-\\text{H}}\\mathbf{U}^{-\\text{H}}\\mathbf{b}`\n        \"\"\"\n        if trans not in ['N', 'T']:")],
      "SolverSparseLU"),
    B("ilu-ignores-trans", ["C05"], ["R-TRANS-EXH"],
      [(ITER, "        return self.ilu.solve(rhs, trans=trans)\n", "        return self.ilu.solve(rhs)\n")], "ILU"),
    B("jacobi-sig-order", ["C05"], ["R-SOLVER-SIG"],
      [(ITER, "    def solve(self, rhs, x0=None, trans='N'):\n        if trans == 'N' or trans == 'T':\n            return self.w * (rhs.T/self.D).T",
        "    def solve(self, rhs, trans='N', x0=None):\n        if trans == 'N' or trans == 'T':\n            return self.w * (rhs.T/self.D).T")], "DampedJacobi"),
    B("auto-cholesky-without-diag-test", ["C05"], ["R-AUTO-GUARD"],
      [(AUTO, "            if np.all(A.diagonal() > 0) or np.all(A.diagonal() < 0):\n                return SolverDenseCholesky()\n            else:\n                return SolverDenseLDL(hermitian=ishermitian)\n",
        "            return SolverDenseCholesky()\n")], "auto_determine_solver"),
    B("auto-ldl-for-general", ["C05"], ["R-AUTO-GUARD"],
      [(AUTO, "            # TODO: Detect if the matrix is Hessenberg\n            return SolverDenseLU()\n", "            # TODO: Detect if the matrix is Hessenberg\n            return SolverDenseLDL(hermitian=False)\n")],
      "auto_determine_solver"),
    B("auto-diag-check-skipped", ["C05"], ["R-AUTO-GUARD"],
      [(AUTO, "    if isdiagonal:\n        return SolverDiagonal()\n", "    if isdiagonal or issparse:\n        return SolverDiagonal()\n")], "auto_determine_solver"),
    T("twin-cg-x0-nparray", ["C05"],
      [(ITER, "if x0 is None else x0.copy()", "if x0 is None else np.array(x0)")]),
    T("twin-lu-else-branch", ["C05"],
      [(DENS, "        elif trans == 'H':\n            return self.p @ spla.solve_triangular(self.l, spla.solve_triangular(self.u, rhs, trans='C'),\n                                                  lower=True, trans='C')\n        else:\n            raise TypeError(\"Only N, T, and H transposition is possible\")\n",
        "        elif trans != 'H':\n            raise TypeError(\"Only N, T, and H transposition is possible\")\n        return self.p @ spla.solve_triangular(self.l, spla.solve_triangular(self.u, rhs, trans='C'),\n                                              lower=True, trans='C')\n")]),
    # ------------------------------------------------------------------------------------------ C06 LDAWrapper
    B("lda-diag-rows-only", ["C06"], ["R-DIAG-DEP"],
      [(SOLV, "    return np.logical_and.reduce([has_diag, nnz_rows <= 1, nnz_cols <= 1])\n", "    return np.logical_and(has_diag, nnz_rows <= 1)\n")], "get_diagonal_indices"),
    B("lda-diag-out-slot", ["C06"], ["R-UFUNC-ARITY", "R-DIAG-DEP"],
      [(SOLV, "    return np.logical_and.reduce([has_diag, nnz_rows <= 1, nnz_cols <= 1])\n", "    return np.logical_and(has_diag, nnz_rows <= 1, nnz_cols <= 1)\n")], "get_diagonal_indices"),
    B("lda-adjoint-db-not-cleared", ["C06"], ["R-DB-CLEAR"],
      [(SOLV, "        self.xadj_stored.clear()\n        self.badj_stored.clear()\n", "        self.xadj_stored.clear()\n")], "LDAWrapper.update"),
    B("lda-clear-only-if-shape-changed", ["C06"], ["R-DB-CLEAR"],
      [(SOLV, "        self.x_stored.clear()\n        self.b_stored.clear()\n", "        if self.A is None or A.shape != self.A.shape:\n            self.x_stored.clear()\n            self.b_stored.clear()\n"),
       (SOLV, "        self.A = A\n        diags = get_diagonal_indices(A)\n", "        diags = get_diagonal_indices(A)\n"),
       (SOLV, "        self.solver.update(A)\n\n    def _do_solve_1rhs", "        self.A = A\n        self.solver.update(A)\n\n    def _do_solve_1rhs")], "LDAWrapper.update"),
    B("lda-crossed-db-pairs", ["C06"], ["R-DB-PAIR"],
      [(SOLV, "                                      self.xadj_stored, self.badj_stored,\n", "                                      self.xadj_stored, self.b_stored,\n")], "LDAWrapper.solve"),
    B("lda-adjoint-inner-mode-T", ["C06"], ["R-DB-PAIR"],
      [(SOLV, "lambda b, x_init: self.solver.solve(b, trans='H', x0=x_init)", "lambda b, x_init: self.solver.solve(b, trans='T', x0=x_init)")], "LDAWrapper.solve"),
    B("lda-always-inner-solve", ["C06"], ["R-INNER-GUARD"],
      [(SOLV, "        if np.any(self._did_solve):\n", "        if True:\n")], "_do_solve_1rhs"),
    B("lda-default-off", ["C06"], ["R-LDA-DEFAULT"],
      [(LINA, "    use_lda_solver = True\n", "    use_lda_solver = False\n")], "LinSolve"),
    T("twin-lda-recreate-lists", ["C06"],
      [(SOLV, "        self.x_stored.clear()\n        self.b_stored.clear()\n", "        self.x_stored = []\n        self.b_stored = []\n")]),
    T("twin-diag-mask-and-chain", ["C06"],
      [(SOLV, "    return np.logical_and.reduce([has_diag, nnz_rows <= 1, nnz_cols <= 1])\n", "    return np.logical_and(np.logical_and(has_diag, nnz_rows <= 1), nnz_cols <= 1)\n")]),
    # ------------------------------------------------------------------------------------------- C15 DyadCarrier
    B("dyad-append-nocopy", ["C15"], ["R-DYAD-OWN"],
      [(DYAD, "            self.v.append(vi.copy())\n", "            self.v.append(vi)\n")], "add_dyad"),
    B("dyad-neg-inplace", ["C15"], ["R-DYAD-PURE"],
      [(DYAD, "        return DyadCarrier([-uu for uu in self.u], self.v, shape=self.shape)\n", "        for uu in self.u:\n            uu *= -1\n        return self\n")], "__neg__"),
    B("dyad-add-mutates-self", ["C15"], ["R-DYAD-PURE"],
      [(DYAD, "            return self.copy().__iadd__(other)\n", "            return self.__iadd__(other)\n")], "__add__"),
    B("dyad-dot-first-vector", ["C15"], ["R-EMPTY-IDX"],
      [(DYAD, "        val = np.zeros(max(0, self.shape[0]), dtype=np.result_type(self.dtype, other.dtype))\n", "        val = np.zeros_like(self.u[0])\n")], "__dot__"),
    B("dyad-diagonal-float-acc", ["C15"], ["R-ACC-DTYPE"],
      [(DYAD, "        diag = np.zeros(n, dtype=self.dtype)\n", "        diag = np.zeros(n)\n")], "diagonal"),
    B("dyad-setitem-on-operand", ["C15"], ["R-DYAD-PURE"],
      [(DYAD, "    def __rmul__(self, other):  # other * self\n        return DyadCarrier([other*ui for ui in self.u], self.v, shape=self.shape)\n",
        "    def __rmul__(self, other):  # other * self\n        for ui in self.u:\n            ui[...] = other*ui\n        return DyadCarrier(self.u, self.v, shape=self.shape)\n")], "__rmul__"),
    T("twin-dyad-copy-nparray", ["C15"],
      [(DYAD, "            self.v.append(vi.copy())\n", "            self.v.append(np.array(vi))\n")]),
]
