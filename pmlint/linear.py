"""Degree analysis of `_sensitivity` results in the seeds: lattice {Z zero, L linear, C constant (independent of the
seeds, possibly non-zero), N proved non-linear/affine, U unknown}.  Only *proved* N (or C reaching a return) is ever
reported; anything the analysis cannot type is U and silent."""
from __future__ import annotations

import ast
from typing import Dict, List, Optional, Set, Tuple

from .cfg import CFG, Node, STMT, TEST, FOR, WITH, HANDLER
from .model import Model, FuncInfo, ClassInfo, stmt_key

Z, L, C, N, U = "Z", "L", "C", "N", "U"

LINEAR_FUNCS = {"real", "imag", "conj", "conjugate", "sum", "asarray", "asanyarray", "squeeze", "reshape", "transpose",
                "array", "copy", "atleast_1d", "atleast_2d", "ravel", "flatten", "astype", "list", "tuple", "mean",
                "average", "reduce", "cumsum", "diag", "diagonal", "trace", "expand_dims", "broadcast_to", "moveaxis",
                "swapaxes", "stack", "concatenate", "hstack", "vstack", "block", "ascontiguousarray", "negative",
                "toarray", "todense", "tocsc", "tocsr", "tocoo", "item", "tolist", "view", "pad", "flip", "roll",
                "_parse_to_list", "_split_from_array", "deepcopy", "fft", "ifft"}
BILINEAR_FUNCS = {"dot", "matmul", "outer", "einsum", "contract", "inner", "tensordot", "kron", "multiply", "correlate",
                  "convolve", "DyadCarrier", "vdot", "cross"}
ZERO_FUNCS = {"zeros", "zeros_like"}
NONLIN_FUNCS = {"sqrt", "abs", "absolute", "power", "exp", "log", "sign", "maximum", "minimum", "clip", "square", "norm",
                "max", "min", "tanh", "sin", "cos", "argmax", "argsort", "sort", "reciprocal", "softmax"}
STRUCT_FUNCS = {"shape", "ndim", "size", "len", "isrealobj", "iscomplexobj", "isinstance", "result_type", "range",
                "ones_like", "ones", "empty", "empty_like", "eye", "identity", "arange", "issparse", "hasattr", "type",
                "meshgrid", "isfinite", "full", "enumerate_"}


class Val:
    __slots__ = ("k", "why")

    def __init__(self, k: str, why: Optional[Tuple[ast.AST, str]] = None):
        self.k = k
        self.why = why

    def __eq__(self, o):
        return isinstance(o, Val) and self.k == o.k

    def __hash__(self):
        return hash(self.k)

    def __repr__(self):
        return self.k


def join(a: Val, b: Val) -> Val:
    if a.k == b.k:
        return a
    if a.k == N:
        return a
    if b.k == N:
        return b
    if a.k == Z:
        return b
    if b.k == Z:
        return a
    return Val(U)


def add(a: Val, b: Val, node, text) -> Val:
    if a.k == N:
        return a
    if b.k == N:
        return b
    if a.k == Z:
        return b
    if b.k == Z:
        return a
    if a.k == U or b.k == U:
        return Val(U)
    if a.k == b.k:
        return a
    return Val(N, (node, f"'{text}' adds a term that does not depend on the seeds to a term that is linear in them (affine)"))


def mul(a: Val, b: Val, node, text) -> Val:
    if a.k == Z or b.k == Z:
        return Val(Z)
    if a.k == N:
        return a
    if b.k == N:
        return b
    if a.k == U or b.k == U:
        return Val(U)
    if a.k == L and b.k == L:
        return Val(N, (node, f"'{text}' multiplies two seed-dependent factors (quadratic in the seeds)"))
    if a.k == L or b.k == L:
        return Val(L)
    return Val(C)


def div(a: Val, b: Val, node, text) -> Val:
    if a.k == Z:
        return Val(Z)
    if a.k == N:
        return a
    if b.k == L:
        return Val(N, (node, f"'{text}' divides by a seed-dependent quantity"))
    if b.k == N:
        return b
    if a.k == U or b.k == U:
        return Val(U)
    return a


class Linearity:
    def __init__(self, model: Model, cfgs, f: FuncInfo, concrete: Optional[ClassInfo], seeds: Dict[str, Val], depth: int = 0):
        self.m = model
        self.cfgs = cfgs
        self.f = f
        self.cls = concrete or f.cls
        self.selfn = model.self_name(f)
        self.cfg: CFG = cfgs(f)
        self.seeds = seeds
        self.depth = depth
        self.returns: List[Tuple[ast.Return, List[Val]]] = []
        self._collect = False
        self.run()

    def run(self):
        cfg = self.cfg
        env0: Dict[str, Val] = {}
        for p in self.f.pos_params() + ([self.f.vararg()] if self.f.vararg() else []) + self.f.kwonly():
            env0[p] = self.seeds.get(p, Val(C))
        state: Dict[Node, Optional[Dict[str, Val]]] = {n: None for n in cfg.nodes}
        state[cfg.entry] = env0
        work = [cfg.entry]
        it = 0
        while work and it < 8000:
            it += 1
            n = work.pop()
            env = state[n]
            if env is None:
                continue
            out = self.transfer(n, env)
            for s, lab in n.succ:
                o = out if lab != "exc" else env
                old = state[s]
                new = o if old is None else self.join_env(old, o)
                if old is None or new != old:
                    state[s] = new
                    work.append(s)
        self._collect = True
        for n, env in state.items():
            if env is not None:
                self.transfer(n, env)

    @staticmethod
    def join_env(a, b):
        out = dict(a)
        for k, v in b.items():
            out[k] = join(out[k], v) if k in out else v
        return out

    def transfer(self, n: Node, env: Dict[str, Val]) -> Dict[str, Val]:
        a = n.ast
        e2 = dict(env)
        if n.kind == STMT:
            if isinstance(a, ast.Assign):
                v = self.ev(a.value, e2)
                for t in a.targets:
                    self.bind(t, v, a.value, e2, a)
            elif isinstance(a, ast.AugAssign):
                v = self.ev(a.value, e2)
                cur = self.ev(a.target, e2) if not isinstance(a.target, ast.Subscript) else self.ev(a.target.value, e2)
                txt = stmt_key(a)
                if isinstance(a.op, (ast.Add, ast.Sub)):
                    r = add(cur, v, a, txt)
                elif isinstance(a.op, (ast.Mult, ast.MatMult)):
                    r = mul(cur, v, a, txt)
                elif isinstance(a.op, ast.Div):
                    r = div(cur, v, a, txt)
                else:
                    r = Val(U)
                base = a.target
                while isinstance(base, ast.Subscript):
                    base = base.value
                if isinstance(base, ast.Name):
                    e2[base.id] = r
            elif isinstance(a, ast.Expr) and isinstance(a.value, ast.Call):
                c = a.value
                name = ast.unparse(c.func)
                if name.endswith("add.at") and len(c.args) >= 3 and isinstance(c.args[0], ast.Name):
                    e2[c.args[0].id] = add(self.ev(c.args[0], e2), self.ev(c.args[2], e2), a, stmt_key(a))
                elif isinstance(c.func, ast.Attribute) and c.func.attr in ("append", "extend") and isinstance(c.func.value, ast.Name) and c.args:
                    cur = e2.get(c.func.value.id, Val(Z))
                    e2[c.func.value.id] = join(cur, self.ev(c.args[0], e2)) if cur.k != Z else self.ev(c.args[0], e2)
                else:
                    self.ev(c, e2)
                    for k in c.keywords:
                        if k.arg == "out" and isinstance(k.value, ast.Name):
                            e2[k.value.id] = self.ev(c, e2)
            elif isinstance(a, ast.Return):
                if self._collect:
                    if a.value is None:
                        self.returns.append((a, [Val(Z)]))
                    elif isinstance(a.value, (ast.Tuple, ast.List)):
                        self.returns.append((a, [self.ev(x, e2) for x in a.value.elts]))
                    else:
                        self.returns.append((a, [self.ev(a.value, e2)]))
        elif n.kind == FOR:
            it = self.ev(a.iter, e2)
            self.bind(a.target, it, None, e2, a)
        elif n.kind == WITH:
            for item in a.items:
                if item.optional_vars is not None:
                    self.bind(item.optional_vars, Val(U), None, e2, a)
        return e2

    def bind(self, t, v: Val, vexpr, env, st):
        if isinstance(t, ast.Name):
            env[t.id] = v
        elif isinstance(t, (ast.Tuple, ast.List)):
            if isinstance(vexpr, (ast.Tuple, ast.List)) and len(vexpr.elts) == len(t.elts):
                vals = [self.ev(x, env) for x in vexpr.elts]
                for tt, vv, ve in zip(t.elts, vals, vexpr.elts):
                    self.bind(tt, vv, ve, env, st)
            elif isinstance(vexpr, ast.Call):
                rv = self.call_returns(vexpr, env)
                if rv is not None and len(rv) == len(t.elts):
                    for tt, vv in zip(t.elts, rv):
                        self.bind(tt, vv, None, env, st)
                else:
                    for tt in t.elts:
                        self.bind(tt, v, None, env, st)
            else:
                for tt in t.elts:
                    self.bind(tt.value if isinstance(tt, ast.Starred) else tt, v, None, env, st)
        elif isinstance(t, ast.Subscript):
            base = t
            while isinstance(base, ast.Subscript):
                base = base.value
            if isinstance(base, ast.Name):
                cur = env.get(base.id, Val(U))
                full = isinstance(t.slice, ast.Constant) and t.slice.value is Ellipsis or \
                    (isinstance(t.slice, ast.Slice) and t.slice.lower is None and t.slice.upper is None)
                if full and t.value is base:
                    env[base.id] = v
                elif cur.k == Z:
                    env[base.id] = v
                elif v.k == Z:
                    env[base.id] = cur           # zero mask keeps the class
                elif cur.k == v.k:
                    env[base.id] = cur
                elif N in (cur.k, v.k):
                    env[base.id] = cur if cur.k == N else v
                elif U in (cur.k, v.k):
                    env[base.id] = Val(U)
                else:
                    env[base.id] = Val(N, (st, f"'{stmt_key(st)}' stores a value that does not depend on the seeds into a "
                                               f"seed-linear buffer (the result has a constant part: affine, g(0) != 0)"
                                           if cur.k == L else
                                           f"'{stmt_key(st)}' mixes seed-linear data into a constant buffer"))

    # ------------------------------------------------------------------------------------------- evaluation
    def ev(self, e: ast.AST, env: Dict[str, Val]) -> Val:
        if e is None:
            return Val(Z)
        if isinstance(e, ast.Constant):
            if e.value is None or (isinstance(e.value, (int, float, complex)) and not isinstance(e.value, bool) and e.value == 0):
                return Val(Z)
            return Val(C)
        if isinstance(e, ast.Name):
            return env.get(e.id, Val(C))
        if isinstance(e, ast.Attribute):
            if isinstance(e.value, ast.Name) and e.value.id == self.selfn:
                return Val(C)
            b = self.ev(e.value, env)
            if e.attr in ("shape", "dtype", "size", "ndim"):
                return Val(C)
            return b
        if isinstance(e, ast.Subscript):
            return self.ev(e.value, env)
        if isinstance(e, ast.UnaryOp):
            if isinstance(e.op, ast.Not):
                return Val(C)
            return self.ev(e.operand, env)
        if isinstance(e, ast.BinOp):
            a, b = self.ev(e.left, env), self.ev(e.right, env)
            txt = ast.unparse(e)[:80]
            if isinstance(e.op, (ast.Add, ast.Sub)):
                return add(a, b, e, txt)
            if isinstance(e.op, (ast.Mult, ast.MatMult)):
                return mul(a, b, e, txt)
            if isinstance(e.op, (ast.Div, ast.FloorDiv)):
                return div(a, b, e, txt)
            if isinstance(e.op, ast.Pow):
                if a.k == L:
                    return Val(N, (e, f"'{txt}' raises a seed-dependent quantity to a power"))
                return a if a.k in (Z, C) else Val(U)
            return Val(U) if L in (a.k, b.k) else Val(C)
        if isinstance(e, ast.IfExp):
            return join(self.ev(e.body, env), self.ev(e.orelse, env))
        if isinstance(e, (ast.Tuple, ast.List)):
            v = Val(Z)
            for x in e.elts:
                xv = self.ev(x.value if isinstance(x, ast.Starred) else x, env)
                v = xv if v.k == Z else (v if xv.k == Z else join(v, xv))
            return v
        if isinstance(e, (ast.ListComp, ast.GeneratorExp)):
            env2 = dict(env)
            for g in e.generators:
                self.bind(g.target, self.ev(g.iter, env2), None, env2, e)
            return self.ev(e.elt, env2)
        if isinstance(e, ast.Compare) or isinstance(e, ast.BoolOp):
            return Val(C)
        if isinstance(e, ast.Call):
            r = self.call_returns(e, env)
            if r is not None:
                v = Val(Z)
                for x in r:
                    v = x if v.k == Z else (v if x.k == Z else join(v, x))
                return v
            return self.ev_call(e, env)
        if isinstance(e, ast.Starred):
            return self.ev(e.value, env)
        return Val(U)

    def call_returns(self, c: ast.Call, env) -> Optional[List[Val]]:
        """Classes of the values returned by a repository self-method call (interprocedural, bounded depth)."""
        if self.depth >= 3:
            return None
        fn = c.func
        if not (isinstance(fn, ast.Attribute) and isinstance(fn.value, ast.Name) and fn.value.id == self.selfn):
            return None
        callees = self.m.resolve_call(self.f, c, concrete=self.cls)
        if len(callees) != 1:
            return None
        g = callees[0]
        ps = g.pos_params()
        seeds = {}
        for i, a in enumerate(c.args):
            if isinstance(a, ast.Starred):
                return None
            if i < len(ps):
                seeds[ps[i]] = self.ev(a, env)
        for k in c.keywords:
            if k.arg:
                seeds[k.arg] = self.ev(k.value, env)
        sub = Linearity(self.m, self.cfgs, g, self.cls, seeds, self.depth + 1)
        if not sub.returns:
            return None
        width = max(len(r[1]) for r in sub.returns)
        out = []
        for i in range(width):
            v = None
            for _, vals in sub.returns:
                x = vals[i] if i < len(vals) else (vals[0] if len(vals) == 1 and vals[0].k == Z else Val(U))
                v = x if v is None else join(v, x)
            out.append(v)
        return out

    def ev_call(self, c: ast.Call, env) -> Val:
        fn = c.func
        name = fn.attr if isinstance(fn, ast.Attribute) else (fn.id if isinstance(fn, ast.Name) else "")
        args = [self.ev(a.value if isinstance(a, ast.Starred) else a, env) for a in c.args]
        kws = {k.arg: self.ev(k.value, env) for k in c.keywords if k.arg not in (None, "optimize", "mode", "axis", "dtype",
                                                                                  "keepdims", "out", "trans", "x0", "shape")}
        recv = None
        if isinstance(fn, ast.Attribute) and not (isinstance(fn.value, ast.Name) and fn.value.id in ("np", "numpy", "sps", "spla", "spsla", "spsp", "copy")):
            recv = self.ev(fn.value, env)
        allv = ([recv] if recv is not None else []) + args + list(kws.values())
        # string first argument of einsum is not an operand
        if name in ("einsum", "contract") and c.args and isinstance(c.args[0], ast.Constant):
            allv = args[1:]
        txt = ast.unparse(c)[:80]
        if name in ZERO_FUNCS:
            return Val(Z)
        if name in STRUCT_FUNCS:
            return Val(C)
        if any(v.k == N for v in allv):
            return [v for v in allv if v.k == N][0]
        if name == "solve":
            # linear in the right-hand side (first argument); the receiver / matrix is constant
            rhs = args[0] if args else Val(U)
            if isinstance(fn, ast.Attribute) and ast.unparse(fn.value).endswith("linalg") and len(args) >= 2:
                return div(args[1], args[0], c, txt) if args[0].k != L else Val(N, (c, f"'{txt}' solves with a seed-dependent matrix"))
            return rhs if rhs.k in (Z, L, C) else Val(U)
        if name in LINEAR_FUNCS:
            v = Val(Z)
            for x in allv:
                v = x if v.k == Z else (v if x.k == Z else (v if v.k == x.k else (Val(U))))
            if recv is not None and recv.k == L:
                return Val(L)
            return v
        if name in BILINEAR_FUNCS:
            if not allv:
                return Val(Z)        # an empty carrier / product is the zero element
            v = None
            for x in allv:
                v = x if v is None else mul(v, x, c, txt)
            return v if v is not None else Val(C)
        if name in NONLIN_FUNCS:
            if any(v.k == L for v in allv):
                return Val(N, (c, f"'{txt}' applies the non-linear function {name}() to a seed-dependent quantity"))
            return Val(C) if all(v.k in (C, Z) for v in allv) else Val(U)
        if name == "contract" or name == "dot":
            v = None
            for x in allv:
                v = x if v is None else mul(v, x, c, txt)
            return v or Val(C)
        if all(v.k in (C, Z) for v in allv):
            return Val(C)
        return Val(U)
