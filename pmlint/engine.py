"""Runs the rules of one property against the current /repo tree, prints the report, writes evidence."""
from __future__ import annotations

import importlib
import os
import sys
import time
import traceback
from typing import Dict, List

from .flow import FlowCtx
from .model import Model, AnalysisError, repo_root
from .report import (RULES, Collector, Ob, OK, BENIGN, VIOLATED, WITNESS_FILE, known_for, write_replay,
                     write_evidence)
from .props import PROPS
from .witness import WITNESS_SRC

RULE_MODULES = ["eff", "core", "fresh", "protocol", "adjoint", "solver", "lints", "opt", "fem", "eig", "io", "extra", "round3"]


def load_rules():
    for name in RULE_MODULES:
        try:
            importlib.import_module(f"pmlint.rules.{name}")
        except ModuleNotFoundError as e:
            if e.name != f"pmlint.rules.{name}":
                raise


def run_rules(rids: List[str], tier: str):
    from .rules.common import RuleCtx
    model = Model(overlay={WITNESS_FILE: WITNESS_SRC})
    flow = FlowCtx(model)
    ctx = RuleCtx(model, flow, tier)
    results: Dict[str, Collector] = {}
    errors: Dict[str, str] = {}
    for rid in rids:
        spec = RULES.get(rid)
        if spec is None:
            raise AnalysisError(f"rule {rid} is not implemented")
        col = Collector(rid)
        results[rid] = col
        # a rule that cannot analyse its anchor fails the run (exit 2) but does not hide what the other rules find
        try:
            spec.fn(ctx, col)
        except AnalysisError as e:
            errors[rid] = str(e)
            continue
        except Exception:
            errors[rid] = "internal error in the analysis:\n" + traceback.format_exc()
            continue
        real = [o for o in col.obs if not o.is_witness]
        wit = [o for o in col.obs if o.is_witness and o.status == VIOLATED]
        if len(real) < spec.floor:
            errors[rid] = (f"rule {rid}: only {len(real)} instances found, expected at least {spec.floor} "
                           f"(vacuity guard: an anchor moved or the recogniser no longer matches)")
        elif len(wit) < spec.witness_min:
            errors[rid] = (f"rule {rid}: {len(wit)} of {spec.witness_min} witness constructs flagged "
                           f"(the rule no longer recognises its own positive example)")
    return model, flow, results, errors


def check(prop: str, tier: str) -> int:
    t0 = time.time()
    load_rules()
    if prop not in PROPS:
        print(f"ANALYSIS-ERROR property {prop} has no static check (see MANIFEST not_applicable)")
        return 2
    spec = PROPS[prop]
    rids = list(spec["quick"]) + (list(spec.get("thorough", [])) if tier == "thorough" else [])
    model, flow, results, errors = run_rules(rids, tier)
    known = known_for(prop)
    all_obs: List[Ob] = []
    violations: List[Ob] = []
    known_hits: List[dict] = []
    per_rule: Dict[str, Dict[str, int]] = {}
    assumptions: List[str] = []
    for rid in rids:
        col = results[rid]
        real = [o for o in col.obs if not o.is_witness]
        all_obs += col.obs
        per_rule[rid] = {"instances": len(real),
                         "discharged": sum(1 for o in real if o.status in (OK, BENIGN)),
                         "violated": sum(1 for o in real if o.status == VIOLATED),
                         "witness_flagged": sum(1 for o in col.obs if o.is_witness and o.status == VIOLATED),
                         "floor": RULES[rid].floor}
        for a in col.assumptions:
            if a not in assumptions:
                assumptions.append(a)
        for o in real:
            if o.status != VIOLATED:
                continue
            if o.key in known:
                known_hits.append({"key": o.key, "what_fails": known[o.key].get("what_fails", "")})
                print(f"KNOWN-FINDING: property={prop} {o.rule} {o.where} [{o.construct}] — "
                      f"{known[o.key].get('what_fails', o.msg)}")
            else:
                violations.append(o)
    for a in flow.assumptions:
        if a not in assumptions:
            assumptions.append(a)
    n_real = sum(v["instances"] for v in per_rule.values())
    print(f"pmlint {prop} tier={tier} repo={repo_root()} rules={len(rids)} obligations={n_real} "
          f"violations={len(violations)} known={len(known_hits)}")
    for rid in rids:
        v = per_rule[rid]
        print(f"  {rid:<22} instances={v['instances']:<4} discharged={v['discharged']:<4} violated={v['violated']:<3}"
              f" witness={v['witness_flagged']}")
    for o in violations:
        print(f"{o.file}:{o.line} {o.rule} {o.where}: {o.msg}")
        path = write_replay(prop, o, tier)
        print(f"VIOLATION property={prop} replay={path}")
    for rid, msg in errors.items():
        print(f"ANALYSIS-ERROR {msg if msg.startswith('rule ') else 'rule ' + rid + ': ' + msg}")
        assumptions.insert(0, f"ANALYSIS-ERROR in {rid}: {msg.splitlines()[0]}")
    analysed = {
        "files_parsed": len(model.modules) - 1,
        "classes": len(model.classes),
        "functions_in_model": len(model.functions),
        "functions_flow_analysed": len(flow.functions_analysed),
    }
    seed = int(os.environ.get("VERIF_SEED", "0") or 0)
    write_evidence(prop, tier, seed, spec["explanation"], per_rule, all_obs, known_hits, violations,
                   assumptions[:200], analysed, time.time() - t0,
                   f"/venv/bin/python -m pmlint check {prop} --tier {tier}")
    return 1 if violations else (2 if errors else 0)


def sweep() -> int:
    """Development aid (not a registered check): every rule once, verdict per property as `check --tier thorough` would
    give it, without writing evidence or replay files."""
    load_rules()
    rids: List[str] = []
    for spec in PROPS.values():
        for r in list(spec["quick"]) + list(spec.get("thorough", [])):
            if r not in rids:
                rids.append(r)
    model, flow, results, errors = run_rules(rids, "thorough")
    worst = 0
    for prop, spec in PROPS.items():
        mine = list(spec["quick"]) + list(spec.get("thorough", []))
        known = known_for(prop)
        lines = []
        code = 0
        for rid in mine:
            for o in results[rid].obs:
                if not o.is_witness and o.status == VIOLATED and o.key not in known:
                    lines.append(f"{o.file}:{o.line} {o.rule} {o.where}: {o.msg}")
                    code = 1
            if rid in errors:
                msg = errors[rid]
                lines.append(f"ANALYSIS-ERROR {msg if msg.startswith('rule ') else 'rule ' + rid + ': ' + msg}".splitlines()[0])
                code = code or 2
        print(f"PROP {prop} exit={code}")
        for ln in lines:
            print("  " + ln)
        worst = max(worst, 1 if code == 1 else 0) or (2 if code == 2 and worst == 0 else worst)
    return worst


def replay(path: str) -> int:
    import json
    with open(path) as f:
        d = json.load(f)
    prop, key = d["property"], d["key"]
    rid = d["obligation"]["rule"]
    load_rules()
    model, flow, results, errors = run_rules([rid], "thorough")
    if errors:
        print(f"ANALYSIS-ERROR {errors[rid]}")
        return 2
    for o in results[rid].obs:
        if o.key == key and o.status == VIOLATED and not o.is_witness:
            print(f"{o.file}:{o.line} {o.rule} {o.where}: {o.msg}")
            print(f"VIOLATION property={prop} replay={path}")
            return 1
    print(f"replay: obligation {key} is no longer violated on the current tree")
    return 0


def main(argv=None) -> int:
    argv = list(sys.argv[1:] if argv is None else argv)
    try:
        if not argv:
            print("usage: python -m pmlint check <Cxx> [--tier quick|thorough] | replay <path> | list")
            return 2
        cmd = argv[0]
        if cmd == "check":
            prop = argv[1]
            tier = os.environ.get("VERIF_TIER", "quick")
            if "--tier" in argv:
                tier = argv[argv.index("--tier") + 1]
            return check(prop, tier)
        if cmd == "replay":
            return replay(argv[1])
        if cmd == "sweep":
            return sweep()
        if cmd == "rule":
            load_rules()
            from .report import RULES as _R
            _R[argv[1]].floor = 0
            model, flow, results, errors = run_rules([argv[1]], "thorough")
            for e in errors.values():
                print("ANALYSIS-ERROR", e)
            for o in results[argv[1]].obs:
                print(f"{'W ' if o.is_witness else '  '}{o.status:<18} {o.file}:{o.line} {o.where} [{o.construct}] {o.msg}")
            print(len([o for o in results[argv[1]].obs if not o.is_witness]), "instances")
            for a in results[argv[1]].assumptions + flow.assumptions:
                print("assume:", a)
            return 0
        if cmd == "list":
            load_rules()
            for p, s in PROPS.items():
                print(p, "quick:", ",".join(s["quick"]), "thorough:+", ",".join(s.get("thorough", [])))
            return 0
        print(f"unknown command {cmd}")
        return 2
    except AnalysisError as e:
        print(f"ANALYSIS-ERROR {e}")
        return 2
    except Exception:  # a traceback must never look like a violation
        print("ANALYSIS-ERROR internal error in the analysis:")
        traceback.print_exc(file=sys.stdout)
        return 2
