"""Attribute def/use per concrete class: which attributes a method (closure) must / may write, where, under which
deciding tests; which attributes a closure reads."""
from __future__ import annotations

import ast
from typing import Dict, List, Optional, Set, Tuple

from .cfg import CFG, Node, STMT, TEST, FOR, WITH, HANDLER
from .flow import FlowCtx
from .model import Model, FuncInfo, ClassInfo


class WriteSite:
    __slots__ = ("f", "node", "stmt", "attr", "value", "sub", "aug")

    def __init__(self, f, node, stmt, attr, value, sub, aug):
        self.f, self.node, self.stmt, self.attr, self.value, self.sub, self.aug = f, node, stmt, attr, value, sub, aug


class AttrFlow:
    def __init__(self, flow: FlowCtx, cls: ClassInfo):
        self.flow = flow
        self.m = flow.model
        self.cls = cls
        self._node_writes: Dict[str, Dict[Node, Set[str]]] = {}
        self._node_calls: Dict[str, Dict[Node, List[FuncInfo]]] = {}
        self._node_refs: Dict[str, Dict[Node, List[FuncInfo]]] = {}
        self._sites: Dict[str, List[WriteSite]] = {}
        self._must: Dict[str, Set[str]] = {}
        self._may: Dict[str, Set[str]] = {}
        self._wfrom: Dict[str, Dict[Node, Set[str]]] = {}
        self._busy: Set[str] = set()
        self._vacuous: Dict[str, Set[Node]] = {}   # nodes from which no normal exit is reachable (only raise)

    # -------------------------------------------------------------------------------------- per function
    def _scan(self, f: FuncInfo):
        if f.qual in self._node_writes:
            return
        cfg = self.flow.cfg(f)
        selfn = self.m.self_name(f)
        writes: Dict[Node, Set[str]] = {}
        calls: Dict[Node, List[FuncInfo]] = {}
        refs: Dict[Node, List[FuncInfo]] = {}
        sites: List[WriteSite] = []

        def targets(nd: Node, st: ast.AST, t: ast.AST, value, aug=False):
            if isinstance(t, (ast.Tuple, ast.List)):
                vals = value.elts if (isinstance(value, (ast.Tuple, ast.List)) and len(value.elts) == len(t.elts)) else None
                for i, x in enumerate(t.elts):
                    targets(nd, st, x, vals[i] if vals else value, aug)
                return
            sub = False
            base = t
            while isinstance(base, ast.Subscript):
                base = base.value
                sub = True
            if isinstance(base, ast.Attribute) and isinstance(base.value, ast.Name) and base.value.id == selfn:
                if not sub:
                    writes.setdefault(nd, set()).add(base.attr)
                sites.append(WriteSite(f, nd, st, base.attr, value, sub, aug))

        called_locals = {x.func.id for x in ast.walk(f.node) if isinstance(x, ast.Call) and isinstance(x.func, ast.Name)}
        for nd in cfg.nodes:
            a = nd.ast
            if a is None:
                continue
            if nd.kind == STMT:
                if isinstance(a, ast.Assign):
                    for t in a.targets:
                        targets(nd, a, t, a.value)
                elif isinstance(a, ast.AnnAssign) and a.value is not None:
                    targets(nd, a, a.target, a.value)
                elif isinstance(a, ast.AugAssign):
                    targets(nd, a, a.target, a.value, aug=True)
            elif nd.kind == FOR:
                targets(nd, a, a.target, a.iter)
            elif nd.kind == WITH:
                for it in a.items:
                    if it.optional_vars is not None:
                        targets(nd, a, it.optional_vars, it.context_expr)
            # self-method calls inside this node's own expression(s)
            exprs: List[ast.AST] = []
            if nd.kind == STMT:
                exprs = [a]
            elif nd.kind == TEST:
                exprs = [a]
            elif nd.kind == FOR:
                exprs = [a.iter]
            elif nd.kind == WITH:
                exprs = [it.context_expr for it in a.items]
            for ex in exprs:
                for n in ast.walk(ex):
                    if isinstance(n, ast.Call) and isinstance(n.func, ast.Attribute):
                        r = n.func.value
                        is_self = isinstance(r, ast.Name) and r.id == selfn
                        is_super = isinstance(r, ast.Call) and isinstance(r.func, ast.Name) and r.func.id == "super"
                        if is_self or is_super:
                            for g in self.m.resolve_call(f, n, concrete=self.cls):
                                if g.cls is not None:
                                    calls.setdefault(nd, []).append(g)
                    elif isinstance(n, ast.Attribute) and isinstance(n.ctx, ast.Load) and isinstance(n.value, ast.Name) \
                            and n.value.id == selfn and nd.kind == STMT and isinstance(a, ast.Assign) and len(a.targets) == 1 \
                            and isinstance(a.targets[0], ast.Name) and a.targets[0].id in called_locals:
                        # a method value bound to a local that is called (solver = self._sparse if c else self._dense;
                        # solver(A)): it may run
                        for g in self.m.resolve_methods_all(self.cls, n.attr) or []:
                            if g.cls is not None and not g.is_property():
                                refs.setdefault(nd, []).append(g)
        self._node_writes[f.qual] = writes
        self._node_calls[f.qual] = calls
        self._node_refs[f.qual] = refs
        self._sites[f.qual] = sites

    def sites(self, f: FuncInfo) -> List[WriteSite]:
        self._scan(f)
        return self._sites[f.qual]

    def closure(self, f: FuncInfo) -> List[FuncInfo]:
        out, work = [], [f]
        while work:
            g = work.pop()
            if g in out:
                continue
            out.append(g)
            self._scan(g)
            for lst in list(self._node_calls[g.qual].values()) + list(self._node_refs[g.qual].values()):
                for h in lst:
                    if h not in out:
                        work.append(h)
        return out

    def closure_sites(self, f: FuncInfo) -> List[WriteSite]:
        out = []
        for g in self.closure(f):
            out += self.sites(g)
        return out

    def may_write(self, f: FuncInfo) -> Set[str]:
        if f.qual in self._may:
            return self._may[f.qual]
        out: Set[str] = set()
        for g in self.closure(f):
            for s in self._node_writes[g.qual].values():
                out |= s
        self._may[f.qual] = out
        return out

    def node_must(self, f: FuncInfo, nd: Node) -> Set[str]:
        """Attributes definitely (re)assigned when node `nd` of `f` completes normally."""
        self._scan(f)
        out = set(self._node_writes[f.qual].get(nd, ()))
        for g in self._node_calls[f.qual].get(nd, []):
            out |= self.must_write(g)
        return out

    def must_write(self, f: FuncInfo) -> Set[str]:
        if f.qual in self._must:
            return self._must[f.qual]
        if f.qual in self._busy:
            return set()
        self._busy.add(f.qual)
        try:
            w = self.written_from(f)
            cfg = self.flow.cfg(f)
            res = set(w.get(cfg.entry, set()))
            self._must[f.qual] = res
            return res
        finally:
            self._busy.discard(f.qual)

    def written_from(self, f: FuncInfo) -> Dict[Node, Set[str]]:
        """W[n] = attributes assigned on *every* normal path from the entry of node n to the function's normal exit
        (exception edges ignored; paths ending in `raise` are vacuous)."""
        if f.qual in self._wfrom:
            return self._wfrom[f.qual]
        self._scan(f)
        cfg = self.flow.cfg(f)
        live = cfg.live_nodes()
        universe: Set[str] = set(self.may_write(f))
        TOP = None
        W: Dict[Node, Optional[Set[str]]] = {n: TOP for n in cfg.nodes}
        W[cfg.exit] = set()
        changed = True
        order = [n for n in reversed(cfg.nodes) if n in live]
        it = 0
        while changed and it < 200:
            changed = False
            it += 1
            for n in order:
                if n is cfg.exit or n is cfg.raise_exit:
                    continue
                succs = [s for s, lab in n.succ if lab != "exc"]
                vals = [W[s] for s in succs if s is not cfg.raise_exit]
                vals = [v for v in vals if v is not TOP]
                if not vals:
                    if any(s is cfg.raise_exit for s in succs) or not succs:
                        new = TOP
                    else:
                        new = TOP
                else:
                    new = set.intersection(*[set(v) for v in vals])
                if new is not TOP:
                    new = new | self.node_must(f, n)
                if new != W[n]:
                    W[n] = new
                    changed = True
        res = {n: (set(universe) if v is TOP else v) for n, v in W.items()}
        self._wfrom[f.qual] = res
        self._vacuous[f.qual] = {n for n, v in W.items() if v is TOP}
        return res

    # ----------------------------------------------------------------------------------------- deciders
    def deciders(self, f: FuncInfo, attr: str, _seen=None) -> List[Tuple[FuncInfo, Node, str]]:
        """Tests (function, TEST node, branch label on which `attr` gets written) that decide whether `attr` is
        assigned during a call of `f`."""
        _seen = _seen if _seen is not None else set()
        if f.qual in _seen:
            return []
        _seen.add(f.qual)
        out = []
        W = self.written_from(f)
        cfg = self.flow.cfg(f)
        for n in cfg.simple_nodes():
            if n.kind == TEST or n.kind == FOR:
                br = {}
                for s, lab in n.succ:
                    if lab == "exc":
                        continue
                    vac = s is cfg.raise_exit or s in self._vacuous.get(f.qual, ())
                    br[lab] = None if vac else (attr in W.get(s, set()))
                vals = [v for v in br.values() if v is not None]
                if len(set(vals)) > 1:
                    lab = [k for k, v in br.items() if v][0]
                    out.append((f, n, lab))
        for nd, lst in self._node_calls[f.qual].items():
            for g in lst:
                if attr in self.may_write(g) and attr not in self.must_write(g):
                    out += self.deciders(g, attr, _seen)
        return out

    # -------------------------------------------------------------------------------------------- reads
    def reads(self, f: FuncInfo) -> Dict[str, List[Tuple[FuncInfo, ast.AST]]]:
        out: Dict[str, List[Tuple[FuncInfo, ast.AST]]] = {}
        for g in self.closure(f):
            selfn = self.m.self_name(g)
            for n in ast.walk(g.node):
                if isinstance(n, ast.Attribute) and isinstance(n.value, ast.Name) and n.value.id == selfn and \
                        isinstance(n.ctx, ast.Load):
                    # method references are not data reads
                    if self.m.resolve_method(self.cls, n.attr) is not None and \
                            not any(x.is_property() for x in self.m.resolve_methods_all(self.cls, n.attr)):
                        continue
                    out.setdefault(n.attr, []).append((g, n))
                if isinstance(n, ast.Call) and isinstance(n.func, ast.Name) and n.func.id in ("hasattr", "getattr") \
                        and len(n.args) >= 2 and isinstance(n.args[0], ast.Name) and n.args[0].id == selfn and \
                        isinstance(n.args[1], ast.Constant) and isinstance(n.args[1].value, str):
                    out.setdefault(n.args[1].value, []).append((g, n))
        return out


def test_mentions_attr(test: ast.AST, selfn: str) -> Set[str]:
    """Attributes of self a test expression reads (including hasattr(self, 'x'))."""
    out = set()
    for n in ast.walk(test):
        if isinstance(n, ast.Attribute) and isinstance(n.value, ast.Name) and n.value.id == selfn:
            out.add(n.attr)
        if isinstance(n, ast.Call) and isinstance(n.func, ast.Name) and n.func.id == "hasattr" and len(n.args) == 2 \
                and isinstance(n.args[0], ast.Name) and n.args[0].id == selfn and isinstance(n.args[1], ast.Constant):
            out.add(n.args[1].value)
    return out
