"""Source model of the pyMOTO package: parsed modules, import resolution, class table, MRO, method
resolution, closures and constructor-typed attributes.  Stdlib `ast` only; nothing from /repo is imported
or executed."""
from __future__ import annotations

import ast
import os
from dataclasses import dataclass, field
from typing import Dict, Iterable, List, Optional, Set, Tuple


def _binding_counts(fn: ast.AST) -> Dict[str, int]:
    """How often each local name is bound anywhere inside the function (any binding form)."""
    cnt: Dict[str, int] = {}

    def add(t):
        if isinstance(t, ast.Name):
            cnt[t.id] = cnt.get(t.id, 0) + 1
        elif isinstance(t, (ast.Tuple, ast.List)):
            for e in t.elts:
                add(e)
        elif isinstance(t, ast.Starred):
            add(t.value)
    for n in ast.walk(fn):
        if isinstance(n, ast.Assign):
            for t in n.targets:
                add(t)
        elif isinstance(n, (ast.AugAssign, ast.AnnAssign)):
            add(n.target)
            if isinstance(n, ast.AugAssign):
                add(n.target)          # counts as a re-binding
        elif isinstance(n, (ast.For, ast.comprehension)):
            add(n.target)
        elif isinstance(n, ast.With):
            for it in n.items:
                if it.optional_vars is not None:
                    add(it.optional_vars)
        elif isinstance(n, ast.NamedExpr):
            add(n.target)
        elif isinstance(n, ast.ExceptHandler) and n.name:
            cnt[n.name] = cnt.get(n.name, 0) + 1
        elif isinstance(n, (ast.FunctionDef, ast.ClassDef)) and n is not fn:
            cnt[n.name] = cnt.get(n.name, 0) + 1
        elif isinstance(n, (ast.Global, ast.Nonlocal)):
            for x in n.names:
                cnt[x] = cnt.get(x, 0) + 2
        elif isinstance(n, (ast.Import, ast.ImportFrom)):
            for a in n.names:
                k = (a.asname or a.name).split(".")[0]
                cnt[k] = cnt.get(k, 0) + 1
    if isinstance(fn, ast.FunctionDef):
        a = fn.args
        for p in a.posonlyargs + a.args + a.kwonlyargs + ([a.vararg] if a.vararg else []) + ([a.kwarg] if a.kwarg else []):
            cnt[p.arg] = cnt.get(p.arg, 0) + 1
    return cnt


def _is_alias_chain(e: ast.AST, roots: Set[str]) -> bool:
    """Name(root) followed by attribute accesses / constant subscripts: self.a.b, self.sig_in[0].state, np.float32."""
    while True:
        if isinstance(e, ast.Attribute):
            e = e.value
        elif isinstance(e, ast.Subscript) and isinstance(e.slice, ast.Constant) and isinstance(e.slice.value, int):
            e = e.value
        else:
            break
    return isinstance(e, ast.Name) and e.id in roots


class _Inliner(ast.NodeTransformer):
    """Replaces loads of an alias by its chain from the alias definition onwards, in statement order (the tree is walked
    in the order the statements are written; positions are not used because inlined helper code carries the positions
    of the helper)."""

    def __init__(self, table: Dict[int, Tuple[str, ast.AST]]):
        self.defs = table              # id(definition statement) -> (name, chain)
        self.active: Dict[str, ast.AST] = {}

    def visit_Assign(self, node: ast.Assign):
        self.generic_visit(node)
        d = self.defs.get(id(node))
        if d is not None:
            self.active[d[0]] = d[1]
        return node

    def visit_Name(self, node: ast.Name):
        if isinstance(node.ctx, ast.Load) and node.id in self.active:
            import copy as _copy
            new = _copy.deepcopy(self.active[node.id])
            for x in ast.walk(new):
                if hasattr(x, "lineno"):
                    x.lineno, x.col_offset = node.lineno, node.col_offset
                    x.end_lineno, x.end_col_offset = getattr(node, "end_lineno", node.lineno), getattr(node, "end_col_offset", node.col_offset)
            return new
        return node

    def visit_FunctionDef(self, node):
        return node     # do not descend into nested functions (handled on their own)

    def visit_Lambda(self, node):
        return node


def inline_local_aliases(fn: ast.FunctionDef, module_roots: Set[str]):
    """Normalisation applied to every function at load time: a local that is bound exactly once, by a statement
    `name = <alias chain>` (self.a.b, self.sig_in[0].state, np.float32 ...) anywhere in the function, is replaced by that
    chain at its later uses.  Rules then see `x[self.select]` whether or not the code spells it `sel = self.select; x[sel]`.
    (Assumes the aliased attribute is not rebound between the alias definition and its use.)"""
    cnt = _binding_counts(fn)
    a = fn.args
    pos = a.posonlyargs + a.args
    selfn = pos[0].arg if pos else None
    roots = set(module_roots) | ({selfn} if selfn and cnt.get(selfn, 0) == 1 else set())
    table: Dict[int, Tuple[str, ast.AST]] = {}

    def own_statements(stmts):
        for st_ in stmts:
            if isinstance(st_, (ast.FunctionDef, ast.ClassDef, ast.AsyncFunctionDef)):
                continue
            yield st_
            for fld in ("body", "orelse", "finalbody"):
                v = getattr(st_, fld, None)
                if isinstance(v, list) and v and isinstance(v[0], ast.stmt):
                    yield from own_statements(v)
            if isinstance(st_, ast.Try):
                for h in st_.handlers:
                    yield from own_statements(h.body)
    for st in own_statements(fn.body):
        if isinstance(st, ast.Assign) and len(st.targets) == 1 and isinstance(st.targets[0], ast.Name):
            name = st.targets[0].id
            if cnt.get(name, 0) == 1 and _is_alias_chain(st.value, roots) and not isinstance(st.value, ast.Name):
                table[id(st)] = (name, st.value)
    if not table:
        return
    inl = _Inliner(table)
    fn.body = [inl.visit(st) for st in fn.body]
    ast.fix_missing_locations(fn)


class AnalysisError(Exception):
    """The analysis itself cannot proceed (vanished anchor, unparsable file, instance count under the floor).
    Mapped to exit code 2 — never a silent pass and never a VIOLATION."""


class _Desugar(ast.NodeTransformer):
    """getattr(x, "name") -> x.name ;  a, b = <attribute chain>  ->  a = chain[0]; b = chain[1]  (so that the alias
    inliner sees through tuple-unpacked signal lists)."""

    @staticmethod
    def _unrolled(comp, ctor):
        """[E(x) for x in (a, b, c)] with a literal sequence: the elements written out"""
        import copy as _copy
        if len(comp.generators) != 1:
            return None
        g = comp.generators[0]
        if g.ifs or g.is_async or not isinstance(g.target, ast.Name) or not isinstance(g.iter, (ast.Tuple, ast.List)) \
                or len(g.iter.elts) > 8 or any(isinstance(e, ast.Starred) for e in g.iter.elts):
            return None
        var = g.target.id
        elts = []
        for e in g.iter.elts:
            class R(ast.NodeTransformer):
                def visit_Name(self, n):
                    if n.id == var and isinstance(n.ctx, ast.Load):
                        return ast.copy_location(_copy.deepcopy(e), n)
                    return n
            elts.append(R().visit(_copy.deepcopy(comp.elt)))
        return ast.copy_location(ctor(elts=elts, ctx=ast.Load()), comp)

    def visit_ListComp(self, node):
        self.generic_visit(node)
        return self._unrolled(node, ast.List) or node

    def visit_Call(self, node):
        self.generic_visit(node)
        if isinstance(node.func, ast.Name) and node.func.id in ("tuple", "list") and len(node.args) == 1 and not node.keywords and \
                isinstance(node.args[0], (ast.GeneratorExp, ast.ListComp)):
            u = self._unrolled(node.args[0], ast.Tuple if node.func.id == "tuple" else ast.List)
            if u is not None:
                return u
        if isinstance(node.func, ast.Name) and node.func.id == "tuple" and len(node.args) == 1 and isinstance(node.args[0], ast.List) \
                and not node.keywords:
            return ast.copy_location(ast.Tuple(elts=node.args[0].elts, ctx=ast.Load()), node)
        if isinstance(node.func, ast.Name) and node.func.id == "getattr" and len(node.args) == 2 and not node.keywords and \
                isinstance(node.args[1], ast.Constant) and isinstance(node.args[1].value, str) and node.args[1].value.isidentifier():
            return ast.copy_location(ast.Attribute(value=node.args[0], attr=node.args[1].value, ctx=ast.Load()), node)
        return node

    def visit_Compare(self, node):
        # `None is None` (an omitted optional argument of an inlined helper tested against its default)
        self.generic_visit(node)
        if len(node.ops) == 1 and isinstance(node.left, ast.Constant) and isinstance(node.comparators[0], ast.Constant) and \
                isinstance(node.ops[0], (ast.Is, ast.IsNot)) and (node.left.value is None or node.comparators[0].value is None):
            same = node.left.value is node.comparators[0].value
            return ast.copy_location(ast.Constant(value=same if isinstance(node.ops[0], ast.Is) else not same), node)
        return node

    def visit_UnaryOp(self, node):
        self.generic_visit(node)
        if isinstance(node.op, ast.Not) and isinstance(node.operand, ast.Constant) and isinstance(node.operand.value, (bool, type(None))):
            return ast.copy_location(ast.Constant(value=not node.operand.value), node)
        return node

    def visit_IfExp(self, node):
        # constant tests (left behind by the helper inliner when a flag argument is a literal)
        self.generic_visit(node)
        if isinstance(node.test, ast.Constant) and isinstance(node.test.value, (bool, type(None))):
            return node.body if node.test.value else node.orelse
        return node

    def _split(self, stmts):
        import copy as _copy
        folded = []
        for st in stmts:
            if isinstance(st, ast.If) and isinstance(st.test, ast.Constant) and isinstance(st.test.value, (bool, type(None))):
                folded += (st.body if st.test.value else st.orelse)
            else:
                folded.append(st)
        stmts = folded or [ast.Pass()]
        # inliner temporaries:  _rK__h = (e1, e2); a, b = _rK__h   ->   a, b = (e1, e2)
        merged = []
        i = 0
        while i < len(stmts):
            st = stmts[i]
            nxt = stmts[i + 1] if i + 1 < len(stmts) else None
            if isinstance(st, ast.Assign) and len(st.targets) == 1 and isinstance(st.targets[0], ast.Name) and st.targets[0].id.startswith("_r") \
                    and "__" in st.targets[0].id and isinstance(st.value, ast.Tuple) and isinstance(nxt, ast.Assign) and \
                    isinstance(nxt.value, ast.Name) and nxt.value.id == st.targets[0].id and len(nxt.targets) == 1 and \
                    isinstance(nxt.targets[0], ast.Tuple) and len(nxt.targets[0].elts) == len(st.value.elts):
                merged.append(ast.copy_location(ast.Assign(targets=nxt.targets, value=st.value), nxt))
                i += 2
                continue
            merged.append(st)
            i += 1
        stmts = merged
        out = []
        for st in stmts:
            # parallel assignment without interference:  a, b = x, y  ->  a = x; b = y
            if isinstance(st, ast.Assign) and len(st.targets) == 1 and isinstance(st.targets[0], ast.Tuple) and \
                    isinstance(st.value, ast.Tuple) and len(st.targets[0].elts) == len(st.value.elts) and \
                    not any(isinstance(e, ast.Starred) for e in st.targets[0].elts + st.value.elts):
                tnames = {norm_ for t in st.targets[0].elts for norm_ in [ast.unparse(t)]}
                vnames = {ast.unparse(x) for v in st.value.elts for x in ast.walk(v) if isinstance(x, (ast.Name, ast.Attribute))}
                if not (tnames & vnames):
                    for t, v in zip(st.targets[0].elts, st.value.elts):
                        out.append(ast.copy_location(ast.Assign(targets=[t], value=v), st))
                    continue
            if isinstance(st, ast.Assign) and len(st.targets) == 1 and isinstance(st.targets[0], ast.Tuple) and \
                    all(isinstance(e, ast.Name) for e in st.targets[0].elts) and isinstance(st.value, ast.Attribute) and \
                    st.value.attr in ("sig_in", "sig_out"):
                import copy as _copy
                for k, e in enumerate(st.targets[0].elts):
                    sub = ast.Subscript(value=_copy.deepcopy(st.value), slice=ast.Constant(value=k), ctx=ast.Load())
                    out.append(ast.copy_location(ast.Assign(targets=[ast.Name(id=e.id, ctx=ast.Store())], value=sub), st))
            else:
                out.append(st)
        return out

    def generic_visit(self, node):
        super().generic_visit(node)
        for fld in ("body", "orelse", "finalbody"):
            v = getattr(node, fld, None)
            if isinstance(v, list) and v and isinstance(v[0], ast.stmt):
                setattr(node, fld, self._split(v))
        return node


def _forward_attr_stores(fn: ast.FunctionDef):
    """`t = E; ...; self.a = t`  ->  `self.a = E; ...` with the later uses of t reading self.a: code that builds a value in
    a local and stores it afterwards is analysed in the same shape as code that stores it directly.  Only when the local
    is bound once, the statements in between neither mention self.a, nor call into / hand out `self`, nor leave the
    block, and self.a is not stored again where t is still used."""
    import copy as _copy
    cnt = _binding_counts(fn)
    params = {a.arg for a in fn.args.posonlyargs + fn.args.args + fn.args.kwonlyargs}
    U = ast.unparse

    def loads(nodes, name):
        return sum(1 for st in nodes for x in ast.walk(st) if isinstance(x, ast.Name) and x.id == name and isinstance(x.ctx, ast.Load))

    def do_block(block: List[ast.stmt]) -> List[ast.stmt]:
        changed = True
        while changed:
            changed = False
            for j, sj in enumerate(block):
                if not (isinstance(sj, ast.Assign) and len(sj.targets) == 1 and isinstance(sj.targets[0], ast.Attribute)
                        and isinstance(sj.targets[0].value, ast.Name) and isinstance(sj.value, ast.Name)):
                    continue
                t, base, attr_txt = sj.value.id, sj.targets[0].value.id, U(sj.targets[0])
                if cnt.get(t, 0) != 1 or t in params or t == base:
                    continue
                idx = [i for i in range(j) if isinstance(block[i], ast.Assign) and len(block[i].targets) == 1
                       and isinstance(block[i].targets[0], ast.Name) and block[i].targets[0].id == t]
                if len(idx) != 1:
                    continue
                i = idx[0]
                between = block[i + 1:j]
                ok = True
                for st in between:
                    for x in ast.walk(st):
                        if isinstance(x, ast.Name) and x.id == base and isinstance(x.ctx, (ast.Store, ast.Del)):
                            ok = False          # the object the attribute lives on is only bound after t was computed
                        if isinstance(x, (ast.Return, ast.Break, ast.Continue, ast.Raise, ast.Yield, ast.YieldFrom)):
                            ok = False
                        elif isinstance(x, ast.Attribute) and U(x) == attr_txt:
                            ok = False
                        elif isinstance(x, ast.Call):
                            if isinstance(x.func, ast.Attribute) and isinstance(x.func.value, ast.Name) and x.func.value.id == base:
                                ok = False
                            if any(isinstance(a, ast.Name) and a.id == base for a in list(x.args) + [k.value for k in x.keywords]):
                                ok = False
                rest = block[i + 1:j] + block[j + 1:]
                # every use of t lies in the rest of this block, where self.a is not stored again
                if loads(rest, t) + 1 != loads([fn], t):
                    ok = False
                for st in rest:
                    for x in ast.walk(st):
                        if isinstance(x, ast.Attribute) and isinstance(x.ctx, (ast.Store, ast.Del)) and U(x) == attr_txt:
                            ok = False
                        if isinstance(x, (ast.FunctionDef, ast.Lambda)):
                            pass
                if not ok:
                    continue
                new_def = ast.copy_location(ast.Assign(targets=[_copy.deepcopy(sj.targets[0])], value=block[i].value), block[i])

                class R(ast.NodeTransformer):
                    def visit_Name(self, n):
                        if n.id == t and isinstance(n.ctx, ast.Load):
                            a = _copy.deepcopy(sj.targets[0])
                            a.ctx = ast.Load()
                            return ast.copy_location(a, n)
                        return n
                block = block[:i] + [new_def] + [R().visit(st) for st in between] + [R().visit(st) for st in block[j + 1:]]
                cnt[t] = 0
                changed = True
                break
        for st in block:
            if isinstance(st, (ast.FunctionDef, ast.ClassDef)):
                continue
            for fld in ("body", "orelse", "finalbody"):
                v = getattr(st, fld, None)
                if isinstance(v, list) and v and isinstance(v[0], ast.stmt):
                    setattr(st, fld, do_block(v))
            if isinstance(st, ast.Try):
                for h in st.handlers:
                    h.body = do_block(h.body)
        return block
    fn.body = do_block(fn.body)


def _inline_named_conditions(fn: ast.FunctionDef):
    """`flag = <comparison>; ... if flag:`  ->  `if <comparison>:` for a local bound once to a call-free boolean expression
    whose operands are not rebound anywhere in the function: a named condition is analysed as the condition itself."""
    import copy as _copy
    cnt = _binding_counts(fn)
    params = {a.arg for a in fn.args.posonlyargs + fn.args.args + fn.args.kwonlyargs}
    stored_attrs = {ast.unparse(x) for x in ast.walk(fn) if isinstance(x, ast.Attribute) and isinstance(x.ctx, (ast.Store, ast.Del))}
    table: Dict[str, ast.AST] = {}
    for st in ast.walk(fn):
        if not (isinstance(st, ast.Assign) and len(st.targets) == 1 and isinstance(st.targets[0], ast.Name)):
            continue
        name, v = st.targets[0].id, st.value
        if cnt.get(name, 0) != 1 or name in params:
            continue
        is_flag_literal = isinstance(v, ast.Constant) and isinstance(v.value, bool)
        if not isinstance(v, (ast.Compare, ast.BoolOp)) and not (isinstance(v, ast.UnaryOp) and isinstance(v.op, ast.Not)) \
                and not is_flag_literal:
            continue
        ok = True
        for x in ast.walk(v):
            if isinstance(x, (ast.Call, ast.Await, ast.NamedExpr, ast.Lambda, ast.Subscript, ast.IfExp)):
                ok = False
            elif isinstance(x, ast.Name) and not (cnt.get(x.id, 0) == 0 or (x.id in params and cnt.get(x.id, 0) == 0)):
                ok = False
            elif isinstance(x, ast.Attribute) and ast.unparse(x) in stored_attrs:
                ok = False
        if ok:
            table[name] = v
    if not table:
        return

    class R(ast.NodeTransformer):
        def __init__(self):
            self.in_test = 0

        def visit_Name(self, n):
            if self.in_test and isinstance(n.ctx, ast.Load) and n.id in table:
                return ast.copy_location(_copy.deepcopy(table[n.id]), n)
            return n

        def _test(self, t):
            # only the boolean skeleton of a test: the flag itself, under not / and / or
            if isinstance(t, ast.Name):
                self.in_test += 1
                t = self.visit(t)
                self.in_test -= 1
                return t
            if isinstance(t, ast.UnaryOp) and isinstance(t.op, ast.Not):
                t.operand = self._test(t.operand)
                return t
            if isinstance(t, ast.BoolOp):
                t.values = [self._test(v) for v in t.values]
                return t
            return self.visit(t)

        def visit_If(self, n):
            n.test = self._test(n.test)
            n.body = [self.visit(b) for b in n.body]
            n.orelse = [self.visit(b) for b in n.orelse]
            return n

        def visit_While(self, n):
            return self.visit_If(n)

        def visit_IfExp(self, n):
            n.test = self._test(n.test)
            n.body = self.visit(n.body)
            n.orelse = self.visit(n.orelse)
            return n

        def visit_Assert(self, n):
            n.test = self._test(n.test)
            return n

        def visit_Assign(self, n):
            # a flag defined from another flag
            if len(n.targets) == 1 and isinstance(n.targets[0], ast.Name) and n.targets[0].id in table:
                return n
            self.generic_visit(n)
            return n
    fn.body = [R().visit(b) for b in fn.body]


def _expand_kwargs(fn: ast.FunctionDef):
    """`opts = dict(a=x, b=y)` (or a literal with string keys), bound once and never modified, then `f(..., **opts)`:
    the call is analysed with the keywords written out."""
    import copy as _copy
    cnt = _binding_counts(fn)
    table: Dict[str, List[ast.keyword]] = {}
    for n in ast.walk(fn):
        if isinstance(n, ast.Assign) and len(n.targets) == 1 and isinstance(n.targets[0], ast.Name) and cnt.get(n.targets[0].id, 0) == 1:
            v = n.value
            if isinstance(v, ast.Call) and isinstance(v.func, ast.Name) and v.func.id == "dict" and not v.args and \
                    all(k.arg is not None for k in v.keywords):
                table[n.targets[0].id] = list(v.keywords)
            elif isinstance(v, ast.Dict) and v.keys and all(isinstance(k, ast.Constant) and isinstance(k.value, str) and k.value.isidentifier()
                                                            for k in v.keys):
                table[n.targets[0].id] = [ast.keyword(arg=k.value, value=val) for k, val in zip(v.keys, v.values)]
    if not table:
        return
    # any other use than `**name` (item assignment, update, passing it on) keeps the dictionary opaque
    uses: Dict[str, int] = {}
    star: Dict[str, int] = {}
    for n in ast.walk(fn):
        if isinstance(n, ast.Name) and n.id in table and isinstance(n.ctx, ast.Load):
            uses[n.id] = uses.get(n.id, 0) + 1
        if isinstance(n, ast.Call):
            for k in n.keywords:
                if k.arg is None and isinstance(k.value, ast.Name) and k.value.id in table:
                    star[k.value.id] = star.get(k.value.id, 0) + 1
    for n in ast.walk(fn):
        if isinstance(n, ast.Call):
            new = []
            for k in n.keywords:
                if k.arg is None and isinstance(k.value, ast.Name) and k.value.id in table and uses.get(k.value.id) == star.get(k.value.id):
                    new += [ast.keyword(arg=kk.arg, value=_copy.deepcopy(kk.value)) for kk in table[k.value.id]]
                else:
                    new.append(k)
            n.keywords = new


def _resugar_augassign(fn: ast.FunctionDef):
    """`t = X; ...; t += e; X = t`  ->  `t = X; ...; X += e` for an attribute / subscript chain X (what Python itself does for
    an augmented assignment to X, spelled out): the read-modify-write is analysed as the accumulation it is."""
    U = ast.unparse

    def chain(e):
        return isinstance(e, (ast.Attribute, ast.Subscript)) and not any(isinstance(x, (ast.Call, ast.Lambda)) for x in ast.walk(e))

    def do_block(block):
        i = 0
        while i + 1 < len(block):
            a, b = block[i], block[i + 1]
            if isinstance(a, ast.AugAssign) and isinstance(a.target, ast.Name) and isinstance(b, ast.Assign) and \
                    len(b.targets) == 1 and chain(b.targets[0]) and isinstance(b.value, ast.Name) and b.value.id == a.target.id:
                t, xtxt = a.target.id, U(b.targets[0])
                binds = [n for n in ast.walk(fn) if isinstance(n, ast.Name) and n.id == t and isinstance(n.ctx, ast.Store)]
                defs = [n for n in ast.walk(fn) if isinstance(n, ast.Assign) and len(n.targets) == 1 and isinstance(n.targets[0], ast.Name)
                        and n.targets[0].id == t and U(n.value) == xtxt]
                later = sum(1 for st in block[i + 2:] for n in ast.walk(st) if isinstance(n, ast.Name) and n.id == t)
                if len(binds) == 2 and len(defs) == 1 and later == 0:
                    import copy as _copy
                    tgt = _copy.deepcopy(b.targets[0])
                    new = ast.copy_location(ast.AugAssign(target=tgt, op=a.op, value=a.value), a)
                    block[i:i + 2] = [new]
                    continue
            i += 1
        for st in block:
            if isinstance(st, (ast.FunctionDef, ast.ClassDef)):
                continue
            for fld in ("body", "orelse", "finalbody"):
                v = getattr(st, fld, None)
                if isinstance(v, list) and v and isinstance(v[0], ast.stmt):
                    do_block(v)
            if isinstance(st, ast.Try):
                for h in st.handlers:
                    do_block(h.body)
    do_block(fn.body)


def _coalesce_copies(fn: ast.FunctionDef):
    """`b = ...` (possibly in several branches) followed by the single use `a = b`, where that copy is the only binding of
    a: the value is computed directly into a (b renamed to a, copy dropped)."""
    for _ in range(20):
        cnt = _binding_counts(fn)
        params = {a.arg for a in fn.args.posonlyargs + fn.args.args + fn.args.kwonlyargs}
        loads: Dict[str, int] = {}
        for x in ast.walk(fn):
            if isinstance(x, ast.Name) and isinstance(x.ctx, ast.Load):
                loads[x.id] = loads.get(x.id, 0) + 1
        nested = {x.id for d in ast.walk(fn) if isinstance(d, (ast.FunctionDef, ast.Lambda)) and d is not fn
                  for x in ast.walk(d) if isinstance(x, ast.Name)}
        hit = None
        for blk_owner in ast.walk(fn):
            for fld in ("body", "orelse", "finalbody"):
                blk = getattr(blk_owner, fld, None)
                if not (isinstance(blk, list) and blk and isinstance(blk[0], ast.stmt)):
                    continue
                for st in blk:
                    if isinstance(st, ast.Assign) and len(st.targets) == 1 and isinstance(st.targets[0], ast.Name) and \
                            isinstance(st.value, ast.Name):
                        a, b = st.targets[0].id, st.value.id
                        if a != b and cnt.get(a, 0) == 1 and a not in params and b not in params and loads.get(b, 0) == 1 \
                                and cnt.get(b, 0) >= 1 and a not in nested and b not in nested:
                            # b must only be bound by plain assignments (not loop targets etc.)
                            plain = sum(1 for x in ast.walk(fn) if isinstance(x, ast.Assign) and len(x.targets) == 1
                                        and isinstance(x.targets[0], ast.Name) and x.targets[0].id == b)
                            if plain == cnt.get(b, 0):
                                hit = (blk, st, a, b)
                                break
                if hit:
                    break
            if hit:
                break
        if not hit:
            return
        blk, st, a, b = hit
        blk.remove(st)
        if not blk:
            blk.append(ast.copy_location(ast.Pass(), st))
        for x in ast.walk(fn):
            if isinstance(x, ast.Name) and x.id == b:
                x.id = a


class _LowerIfExp(ast.NodeTransformer):
    """`x = a if c else b` -> `if c: x = a / else: x = b` (also for return and augmented assignment): the branch decision
    becomes visible to the flow-based rules in one form only."""

    def _lower(self, stmts):
        import copy as _copy
        out = []
        for st in stmts:
            v = getattr(st, "value", None)
            if isinstance(st, (ast.Assign, ast.AugAssign, ast.Return)) and isinstance(v, ast.IfExp) and \
                    not (isinstance(st, ast.Assign) and any(not isinstance(t, (ast.Name, ast.Attribute)) for t in st.targets)):
                a, b = _copy.copy(st), _copy.copy(st)
                a.value, b.value = v.body, v.orelse
                new = ast.copy_location(ast.If(test=v.test, body=self._lower([a]), orelse=self._lower([b])), st)
                out.append(new)
            else:
                out.append(st)
        return out

    def generic_visit(self, node):
        super().generic_visit(node)
        for fld in ("body", "orelse", "finalbody"):
            v = getattr(node, fld, None)
            if isinstance(v, list) and v and isinstance(v[0], ast.stmt):
                setattr(node, fld, self._lower(v))
        return node


_SHARED = (ast.expr_context, ast.operator, ast.unaryop, ast.cmpop, ast.boolop)


def _set_parents(tree: ast.AST):
    """parent links for every node - except the context / operator tokens, which the parser shares between all trees
    (a link on a shared token would tie every later copy of a Name to a whole unrelated module)"""
    for n in ast.walk(tree):
        for ch in ast.iter_child_nodes(n):
            if not isinstance(ch, _SHARED):
                ch._parent = n  # type: ignore[attr-defined]


def _normalise_tree(tree: ast.Module, inline: bool = True):
    if inline and not os.environ.get("PMLINT_NO_INLINE"):
        from .inline import inline_helpers
        inline_helpers(tree)
        _Desugar().visit(tree)
        for n in ast.walk(tree):
            if isinstance(n, ast.FunctionDef):
                _inline_named_conditions(n)
        _Desugar().visit(tree)          # fold the tests that became literals
        if not os.environ.get("PMLINT_NO_LOWER"):
            _LowerIfExp().visit(tree)
        for n in ast.walk(tree):
            if isinstance(n, ast.FunctionDef):
                _expand_kwargs(n)
                _resugar_augassign(n)
                _coalesce_copies(n)
        for n in ast.walk(tree):
            if isinstance(n, ast.FunctionDef):
                _forward_attr_stores(n)
        ast.fix_missing_locations(tree)
    roots = set()
    for st in tree.body:
        if isinstance(st, ast.Import):
            for a in st.names:
                roots.add((a.asname or a.name).split(".")[0])
    for n in ast.walk(tree):
        if isinstance(n, ast.FunctionDef):
            inline_local_aliases(n, roots)


def repo_root() -> str:
    return os.environ.get("VERIF_REPO", "/repo")


@dataclass
class ModuleInfo:
    name: str                 # dotted module name, e.g. pymoto.modules.filter
    path: str                 # absolute path
    rel: str                  # path relative to the repository root
    tree: ast.Module
    source: str
    is_pkg: bool
    imports: Dict[str, str] = field(default_factory=dict)     # local name -> dotted origin (may chain)
    alt_imports: Dict[str, Set[str]] = field(default_factory=dict)  # try/except alternatives
    star_imports: List[str] = field(default_factory=list)     # dotted modules imported with *
    functions: Dict[str, "FuncInfo"] = field(default_factory=dict)
    classes: Dict[str, "ClassInfo"] = field(default_factory=dict)
    assigns: Dict[str, ast.AST] = field(default_factory=dict)  # top-level simple assignments


@dataclass
class FuncInfo:
    name: str
    qual: str                 # pymoto.modules.filter.FilterConv._response
    module: ModuleInfo
    node: ast.FunctionDef
    cls: Optional["ClassInfo"] = None

    @property
    def rel(self) -> str:
        return self.module.rel

    @property
    def short(self) -> str:
        return f"{self.cls.name}.{self.name}" if self.cls else self.name

    def is_static(self) -> bool:
        return any(isinstance(d, ast.Name) and d.id == "staticmethod" for d in self.node.decorator_list)

    def is_property(self) -> bool:
        for d in self.node.decorator_list:
            if isinstance(d, ast.Name) and d.id == "property":
                return True
            if isinstance(d, ast.Attribute) and d.attr in ("setter", "getter"):
                return True
        return False

    def is_setter(self) -> bool:
        return any(isinstance(d, ast.Attribute) and d.attr == "setter" for d in self.node.decorator_list)

    def pos_params(self, skip_self: bool = True) -> List[str]:
        a = self.node.args
        names = [x.arg for x in a.posonlyargs + a.args]
        if skip_self and self.cls is not None and not self.is_static() and names:
            names = names[1:]
        return names

    def vararg(self) -> Optional[str]:
        return self.node.args.vararg.arg if self.node.args.vararg else None

    def kwonly(self) -> List[str]:
        return [x.arg for x in self.node.args.kwonlyargs]

    def defaults(self) -> Dict[str, ast.AST]:
        a = self.node.args
        pos = a.posonlyargs + a.args
        out = {}
        for p, d in zip(pos[len(pos) - len(a.defaults):], a.defaults):
            out[p.arg] = d
        for p, d in zip(a.kwonlyargs, a.kw_defaults):
            if d is not None:
                out[p.arg] = d
        return out

    def annotations(self) -> Dict[str, ast.AST]:
        a = self.node.args
        out = {}
        for p in a.posonlyargs + a.args + a.kwonlyargs:
            if p.annotation is not None:
                out[p.arg] = p.annotation
        return out


@dataclass
class ClassInfo:
    name: str
    qual: str
    module: ModuleInfo
    node: ast.ClassDef
    base_exprs: List[ast.AST] = field(default_factory=list)
    bases: List["ClassInfo"] = field(default_factory=list)      # resolved repository bases
    ext_bases: List[str] = field(default_factory=list)          # unresolved / external bases (dotted)
    methods: Dict[str, List[FuncInfo]] = field(default_factory=dict)  # name -> defs (getter/setter share a name)
    class_attrs: Dict[str, ast.AST] = field(default_factory=dict)

    def method(self, name: str) -> Optional[FuncInfo]:
        lst = self.methods.get(name)
        if not lst:
            return None
        for f in lst:
            if not f.is_setter():
                return f
        return lst[0]


class Model:
    def __init__(self, root: Optional[str] = None, package: str = "pymoto",
                 overlay: Optional[Dict[str, str]] = None):
        self.root = root or repo_root()
        self.package = package
        self.overlay = overlay or {}   # extra virtual source files {relative path: source} (witness constructs)
        self.modules: Dict[str, ModuleInfo] = {}
        self.classes: Dict[str, ClassInfo] = {}       # by qualified name
        self.class_by_name: Dict[str, List[ClassInfo]] = {}
        self.functions: Dict[str, FuncInfo] = {}      # by qualified name (incl. methods)
        self._mro_cache: Dict[str, List[ClassInfo]] = {}
        self._load()

    # ------------------------------------------------------------------------------------------- loading
    def _load(self):
        from . import spans as _spans
        _spans.reset()
        pkgdir = os.path.join(self.root, self.package)
        if not os.path.isdir(pkgdir):
            raise AnalysisError(f"package directory {pkgdir} not found")
        for dirpath, dirnames, filenames in os.walk(pkgdir):
            dirnames[:] = sorted(d for d in dirnames if d != "__pycache__")
            for fn in sorted(filenames):
                if not fn.endswith(".py"):
                    continue
                path = os.path.join(dirpath, fn)
                rel = os.path.relpath(path, self.root)
                parts = rel[:-3].split(os.sep)
                is_pkg = parts[-1] == "__init__"
                if is_pkg:
                    parts = parts[:-1]
                name = ".".join(parts)
                try:
                    src = open(path, encoding="utf-8").read()
                    tree = ast.parse(src, filename=path)
                except (SyntaxError, UnicodeDecodeError, OSError) as e:
                    raise AnalysisError(f"cannot parse {rel}: {e}")
                from . import spans as _spans
                _spans.record(rel, name[len(self.package) + 1:] if name.startswith(self.package + ".") else name, tree)
                _normalise_tree(tree)
                _set_parents(tree)
                self.modules[name] = ModuleInfo(name, path, rel, tree, src, is_pkg)
        if not self.modules:
            raise AnalysisError("no modules parsed")
        for rel, src in self.overlay.items():
            parts = rel[:-3].split("/")
            name = ".".join(parts)
            try:
                tree = ast.parse(src, filename=rel)
            except SyntaxError as e:
                raise AnalysisError(f"cannot parse overlay {rel}: {e}")
            _normalise_tree(tree, inline=False)
            _set_parents(tree)
            self.modules[name] = ModuleInfo(name, os.path.join(self.root, rel), rel, tree, src, False)
        for m in self.modules.values():
            self._index_module(m)
        for c in self.classes.values():
            self._resolve_bases(c)

    def _abs_module(self, m: ModuleInfo, level: int, modname: Optional[str]) -> str:
        if level == 0:
            return modname or ""
        base = m.name.split(".")
        if not m.is_pkg:
            base = base[:-1]
        if level > 1:
            base = base[: len(base) - (level - 1)]
        return ".".join(base + ([modname] if modname else []))

    def _index_imports(self, m: ModuleInfo, stmts: Iterable[ast.stmt], alt: bool = False):
        for st in stmts:
            if isinstance(st, ast.Import):
                for a in st.names:
                    local = a.asname or a.name.split(".")[0]
                    target = a.name if a.asname else a.name.split(".")[0]
                    self._add_import(m, local, target, alt)
            elif isinstance(st, ast.ImportFrom):
                mod = self._abs_module(m, st.level, st.module)
                for a in st.names:
                    if a.name == "*":
                        m.star_imports.append(mod)
                    else:
                        self._add_import(m, a.asname or a.name, f"{mod}.{a.name}", alt)
            elif isinstance(st, ast.Try):
                self._index_imports(m, st.body, alt=True)
                for h in st.handlers:
                    self._index_imports(m, h.body, alt=True)
                self._index_imports(m, st.orelse, alt=True)
            elif isinstance(st, ast.If):
                self._index_imports(m, st.body, alt=True)
                self._index_imports(m, st.orelse, alt=True)

    def _add_import(self, m: ModuleInfo, local: str, target: str, alt: bool):
        if local in m.imports and m.imports[local] != target:
            m.alt_imports.setdefault(local, {m.imports[local]}).add(target)
        else:
            m.imports.setdefault(local, target)
        if alt:
            m.alt_imports.setdefault(local, set()).add(target)

    def _index_module(self, m: ModuleInfo):
        self._index_imports(m, m.tree.body)
        for st in m.tree.body:
            if isinstance(st, ast.FunctionDef):
                f = FuncInfo(st.name, f"{m.name}.{st.name}", m, st)
                m.functions[st.name] = f
                self.functions[f.qual] = f
            elif isinstance(st, ast.ClassDef):
                c = ClassInfo(st.name, f"{m.name}.{st.name}", m, st, list(st.bases))
                for b in st.body:
                    if isinstance(b, ast.FunctionDef):
                        f = FuncInfo(b.name, f"{c.qual}.{b.name}", m, b, c)
                        c.methods.setdefault(b.name, []).append(f)
                        self.functions.setdefault(f.qual, f)
                    elif isinstance(b, ast.Assign):
                        for t in b.targets:
                            if isinstance(t, ast.Name):
                                c.class_attrs[t.id] = b.value
                    elif isinstance(b, ast.AnnAssign) and isinstance(b.target, ast.Name) and b.value is not None:
                        c.class_attrs[b.target.id] = b.value
                m.classes[st.name] = c
                self.classes[c.qual] = c
                self.class_by_name.setdefault(st.name, []).append(c)
            elif isinstance(st, ast.Assign):
                for t in st.targets:
                    if isinstance(t, ast.Name):
                        m.assigns[t.id] = st.value

    # --------------------------------------------------------------------------------- name resolution
    def resolve_dotted(self, dotted: str, _depth: int = 0) -> str:
        """Follow re-exports inside the package: 'pymoto.Module' -> 'pymoto.core_objects.Module'."""
        if _depth > 12 or not dotted.startswith(self.package):
            return dotted
        if dotted in self.modules or dotted in self.classes or dotted in self.functions:
            return dotted
        parts = dotted.split(".")
        # longest module prefix
        for k in range(len(parts) - 1, 0, -1):
            modname = ".".join(parts[:k])
            if modname in self.modules:
                m = self.modules[modname]
                head, rest = parts[k], parts[k + 1:]
                if head in m.classes or head in m.functions:
                    return ".".join([modname, head] + rest)
                tgt = None
                if head in m.imports:
                    tgt = m.imports[head]
                else:
                    for sm in m.star_imports:
                        r = self.resolve_dotted(f"{sm}.{head}", _depth + 1)
                        if r in self.classes or r in self.functions or r in self.modules:
                            tgt = r
                            break
                if tgt is None:
                    if f"{modname}.{head}" in self.modules:
                        continue
                    return dotted
                return self.resolve_dotted(".".join([tgt] + rest), _depth + 1)
        return dotted

    def resolve_name(self, m: ModuleInfo, name: str) -> Optional[str]:
        """Dotted origin of a bare name used at module scope of `m` (None if it is a local/unknown)."""
        if name in m.classes:
            return m.classes[name].qual
        if name in m.functions:
            return m.functions[name].qual
        if name in m.imports:
            return self.resolve_dotted(m.imports[name])
        for sm in m.star_imports:
            r = self.resolve_dotted(f"{sm}.{name}")
            if r in self.classes or r in self.functions:
                return r
        return None

    def name_alternatives(self, m: ModuleInfo, name: str) -> Set[str]:
        out = set()
        r = self.resolve_name(m, name)
        if r:
            out.add(r)
        for t in m.alt_imports.get(name, ()):
            out.add(self.resolve_dotted(t))
        return out

    def expr_dotted(self, m: ModuleInfo, e: ast.AST) -> Optional[str]:
        """Dotted origin of a Name/Attribute chain rooted at an imported name (np.add.at -> numpy.add.at)."""
        parts = []
        while isinstance(e, ast.Attribute):
            parts.append(e.attr)
            e = e.value
        if not isinstance(e, ast.Name):
            return None
        base = self.resolve_name(m, e.id)
        if base is None:
            return None
        return self.resolve_dotted(".".join([base] + parts[::-1]))

    def _resolve_bases(self, c: ClassInfo):
        for b in c.base_exprs:
            d = self.expr_dotted(c.module, b)
            if d and d in self.classes:
                c.bases.append(self.classes[d])
            else:
                c.ext_bases.append(d or ast.unparse(b))

    # ------------------------------------------------------------------------------------------- classes
    def mro(self, c: ClassInfo) -> List[ClassInfo]:
        if c.qual in self._mro_cache:
            return self._mro_cache[c.qual]
        seqs = [self.mro(b)[:] for b in c.bases] + [list(c.bases)]
        res = [c]
        while True:
            seqs = [s for s in seqs if s]
            if not seqs:
                break
            cand = None
            for s in seqs:
                cand = s[0]
                if not any(cand in t[1:] for t in seqs):
                    break
                cand = None
            if cand is None:
                raise AnalysisError(f"inconsistent MRO for {c.qual}")
            res.append(cand)
            for s in seqs:
                if s and s[0] is cand:
                    del s[0]
        self._mro_cache[c.qual] = res
        return res

    def get_class(self, name: str) -> ClassInfo:
        """Look a class up by qualified or (unique) simple name; vanishing is an analysis error."""
        if name in self.classes:
            return self.classes[name]
        lst = self.class_by_name.get(name, [])
        if len(lst) == 1:
            return lst[0]
        raise AnalysisError(f"anchor class '{name}' not found (or ambiguous: {len(lst)} definitions)")

    def find_class(self, name: str) -> Optional[ClassInfo]:
        try:
            return self.get_class(name)
        except AnalysisError:
            return None

    def public_class(self, name: str) -> ClassInfo:
        """Class exported under `name` by pymoto/__init__ or pymoto/solvers/__init__."""
        for pkg in (self.package, f"{self.package}.solvers"):
            d = self.resolve_dotted(f"{pkg}.{name}")
            if d in self.classes:
                return self.classes[d]
        return self.get_class(name)

    def public_function(self, name: str) -> FuncInfo:
        for pkg in (self.package, f"{self.package}.solvers"):
            d = self.resolve_dotted(f"{pkg}.{name}")
            if d in self.functions:
                return self.functions[d]
        raise AnalysisError(f"anchor function '{name}' not found")

    def is_subclass(self, c: ClassInfo, base: ClassInfo) -> bool:
        return base in self.mro(c)

    def subclasses(self, base: ClassInfo, strict: bool = False, witness: bool = False) -> List[ClassInfo]:
        """Repository subclasses of `base`.  Witness-overlay classes are included only on request (rule scopes),
        never for call dispatch."""
        out = [c for c in self.classes.values() if base in self.mro(c) and not (strict and c is base)
               and (witness or c.module.rel not in self.overlay)]
        return sorted(out, key=lambda c: c.qual)

    def resolve_method(self, c: ClassInfo, name: str, after: Optional[ClassInfo] = None) -> Optional[FuncInfo]:
        """Method `name` as seen from concrete class `c`; `after`: start the MRO search after that class (super())."""
        mro = self.mro(c)
        if after is not None and after in mro:
            mro = mro[mro.index(after) + 1:]
        for k in mro:
            f = k.method(name)
            if f is not None:
                return f
        return None

    def resolve_methods_all(self, c: ClassInfo, name: str) -> List[FuncInfo]:
        """All definitions sharing `name` in the first class of the MRO that defines it (getter + setter)."""
        for k in self.mro(c):
            if name in k.methods:
                return k.methods[name]
        return []

    def is_abstract(self, c: ClassInfo) -> bool:
        """A class whose resolved methods include one that only raises NotImplementedError / is @abstractmethod."""
        seen = set()
        for k in self.mro(c):
            for name, defs in k.methods.items():
                if name in seen:
                    continue
                seen.add(name)
                f = defs[0]
                if any(isinstance(d, (ast.Name, ast.Attribute)) and ast.unparse(d).endswith("abstractmethod")
                       for d in f.node.decorator_list):
                    return True
        return False

    # ------------------------------------------------------------------------------- calls and closures
    def self_name(self, f: FuncInfo) -> Optional[str]:
        if f.cls is None or f.is_static():
            return None
        a = f.node.args
        pos = a.posonlyargs + a.args
        return pos[0].arg if pos else None

    def resolve_call(self, f: FuncInfo, call: ast.Call, concrete: Optional[ClassInfo] = None,
                     attr_types: Optional[Dict[str, Set[str]]] = None) -> List[FuncInfo]:
        """Repository callees a call expression inside `f` may dispatch to (empty = external / unknown)."""
        fn = call.func
        selfn = self.self_name(f)
        cls = concrete or f.cls
        if isinstance(fn, ast.Name):
            d = self.resolve_name(f.module, fn.id)
            if d in self.functions:
                return [self.functions[d]]
            if d in self.classes:
                init = self.resolve_method(self.classes[d], "__init__")
                return [init] if init else []
            return []
        if isinstance(fn, ast.Attribute):
            recv = fn.value
            # self.m(...)
            if isinstance(recv, ast.Name) and selfn and recv.id == selfn and cls is not None:
                m = self.resolve_method(cls, fn.attr)
                return [m] if m else []
            # super().m(...)
            if (isinstance(recv, ast.Call) and isinstance(recv.func, ast.Name) and recv.func.id == "super"
                    and cls is not None and f.cls is not None):
                m = self.resolve_method(cls, fn.attr, after=f.cls)
                return [m] if m else []
            # Cls.m(...) / module.func(...)
            d = self.expr_dotted(f.module, fn)
            if d in self.functions:
                return [self.functions[d]]
            if d in self.classes:
                init = self.resolve_method(self.classes[d], "__init__")
                return [init] if init else []
            # self.attr.m(...) with a constructor-typed attribute
            tys = self.expr_types(f, recv, cls, attr_types)
            out = []
            for t in sorted(tys):
                k = self.classes.get(t)
                if k is None:
                    continue
                for sub in self.subclasses(k):
                    m = self.resolve_method(sub, fn.attr)
                    if m and m not in out:
                        out.append(m)
            return out
        return []

    # ------------------------------------------------------------------------- constructor-typed attributes
    def value_types(self, f: FuncInfo, e: ast.AST, cls: Optional[ClassInfo]) -> Set[str]:
        """Repository classes an expression may construct/return (syntactic, one step)."""
        out: Set[str] = set()
        if isinstance(e, ast.IfExp):
            return self.value_types(f, e.body, cls) | self.value_types(f, e.orelse, cls)
        if isinstance(e, ast.Call):
            d = None
            if isinstance(e.func, (ast.Name, ast.Attribute)):
                d = self.expr_dotted(f.module, e.func) if isinstance(e.func, ast.Attribute) else \
                    self.resolve_name(f.module, e.func.id)
            if d in self.classes:
                out.add(d)
            elif d in self.functions:
                out |= self.function_return_types(self.functions[d])
        elif isinstance(e, ast.Name):
            # parameter with annotation or default
            ann = f.annotations().get(e.id)
            if ann is not None:
                d = self.expr_dotted(f.module, ann) if isinstance(ann, (ast.Name, ast.Attribute)) else None
                if d in self.classes:
                    out.add(d)
            dflt = f.defaults().get(e.id)
            if dflt is not None:
                out |= self.value_types(f, dflt, cls)
        elif isinstance(e, (ast.List, ast.Tuple)):
            for x in e.elts:
                out |= self.value_types(f, x, cls)
        elif isinstance(e, ast.ListComp):
            out |= self.value_types(f, e.elt, cls)
        return out

    def function_return_types(self, g: FuncInfo, _seen=None) -> Set[str]:
        _seen = _seen or set()
        if g.qual in _seen:
            return set()
        _seen.add(g.qual)
        out: Set[str] = set()
        for n in ast.walk(g.node):
            if isinstance(n, ast.Return) and n.value is not None:
                out |= self.value_types(g, n.value, g.cls)
        return out

    def class_attr_types(self, c: ClassInfo) -> Dict[str, Set[str]]:
        """attribute name -> repository classes its values (or its elements) may be instances of."""
        out: Dict[str, Set[str]] = {}
        for k in self.mro(c):
            for defs in k.methods.values():
                for f in defs:
                    selfn = self.self_name(f)
                    if not selfn:
                        continue
                    for n in ast.walk(f.node):
                        tgts, val = [], None
                        if isinstance(n, ast.Assign):
                            tgts, val = n.targets, n.value
                        elif isinstance(n, ast.AnnAssign) and n.value is not None:
                            tgts, val = [n.target], n.value
                        for t in tgts:
                            pairs = []
                            if isinstance(t, ast.Tuple) and isinstance(val, ast.Tuple) and len(t.elts) == len(val.elts):
                                pairs = list(zip(t.elts, val.elts))
                            else:
                                pairs = [(t, val)]
                            for tt, vv in pairs:
                                base = tt
                                while isinstance(base, ast.Subscript):
                                    base = base.value
                                if (isinstance(base, ast.Attribute) and isinstance(base.value, ast.Name)
                                        and base.value.id == selfn):
                                    tys = self.value_types(f, vv, c)
                                    if tys:
                                        out.setdefault(base.attr, set()).update(tys)
        return out

    def expr_types(self, f: FuncInfo, e: ast.AST, cls: Optional[ClassInfo],
                   attr_types: Optional[Dict[str, Set[str]]] = None) -> Set[str]:
        selfn = self.self_name(f)
        base = e
        while isinstance(base, ast.Subscript):
            base = base.value
        if (isinstance(base, ast.Attribute) and isinstance(base.value, ast.Name) and selfn
                and base.value.id == selfn and cls is not None):
            if attr_types is None:
                attr_types = self.class_attr_types(cls)
            return set(attr_types.get(base.attr, ()))
        if isinstance(base, ast.Attribute):
            # self.a.b : type of b in the classes of a
            inner = self.expr_types(f, base.value, cls, attr_types)
            out: Set[str] = set()
            for t in inner:
                k = self.classes.get(t)
                if k is not None:
                    out |= self.class_attr_types(k).get(base.attr, set())
            return out
        if isinstance(base, ast.Name):
            return self.value_types(f, base, cls)
        return set()

    def closure(self, c: ClassInfo, name: str) -> List[FuncInfo]:
        """Method `name` of concrete class `c` plus every repository method it reaches through `self.` /
        super() calls (transitively)."""
        start = self.resolve_method(c, name)
        if start is None:
            return []
        out, work = [], [start]
        while work:
            f = work.pop()
            if f in out:
                continue
            out.append(f)
            selfn = self.self_name(f)
            for n in ast.walk(f.node):
                if isinstance(n, ast.Call) and isinstance(n.func, ast.Attribute):
                    r = n.func.value
                    is_self = isinstance(r, ast.Name) and selfn and r.id == selfn
                    is_super = isinstance(r, ast.Call) and isinstance(r.func, ast.Name) and r.func.id == "super"
                    if is_self or is_super:
                        for g in self.resolve_call(f, n, concrete=c):
                            if g.cls is not None and g not in out:
                                work.append(g)
        return out

    # ---------------------------------------------------------------------------------------- families
    def module_base(self) -> ClassInfo:
        return self.public_class("Module")

    def solver_base(self) -> ClassInfo:
        return self.public_class("LinearSolver")

    def module_classes(self) -> List[ClassInfo]:
        return self.subclasses(self.module_base(), strict=True, witness=True)

    def solver_classes(self) -> List[ClassInfo]:
        return self.subclasses(self.solver_base(), strict=True, witness=True)


def stmt_key(node: ast.AST) -> str:
    """Normalised statement text used to key findings (never line numbers)."""
    try:
        s = ast.unparse(node)
    except Exception:  # pragma: no cover
        s = type(node).__name__
    return " ".join(s.split("\n")[0].split())[:160]


def parent(node: ast.AST) -> Optional[ast.AST]:
    return getattr(node, "_parent", None)


def enclosing_stmt(node: ast.AST) -> ast.AST:
    n = node
    while n is not None and not isinstance(n, ast.stmt):
        n = parent(n)
    return n if n is not None else node
