"""Flow analyses over the CFG: may-alias-memory origins, value kinds, mutation sinks, callee summaries."""
from __future__ import annotations

import ast
from dataclasses import dataclass, field
from typing import Dict, FrozenSet, Iterable, List, Optional, Set, Tuple

from . import tables as T
from .cfg import CFG, Node, STMT, TEST, FOR, WITH, HANDLER
from .model import Model, FuncInfo, ClassInfo, stmt_key

Origin = tuple
EMPTY: FrozenSet[Origin] = frozenset()

# ----------------------------------------------------------------------------------------------- origins
SELF = ("self",)


def o_param(name): return ("param", name)
def o_attr(name): return ("attr", name)
def o_sigs(d): return ("sigs", d)
def o_sig(d, k): return ("sig", d, k)
def o_field(o, attr):
    # depth-limit: a field of a field keeps two levels, deeper collapses onto the inner field
    if o[0] == "field" and o[1][0] == "field":
        return o
    return ("field", o, attr)


def o_state(d, k): return o_field(o_sig(d, k), "state")
def o_sens(d, k): return o_field(o_sig(d, k), "sensitivity")


def root_of(o: Origin) -> Origin:
    while o[0] == "field":
        o = o[1]
    return o


def matches(o: Origin, pat: Origin) -> bool:
    """Origin `o` may denote the memory described by pattern `pat` ('*' is a wildcard on either side)."""
    if len(o) != len(pat) or o[0] != pat[0]:
        return False
    for a, b in zip(o[1:], pat[1:]):
        if isinstance(a, tuple) and isinstance(b, tuple):
            if not matches(a, b):
                return False
        elif a == "*" or b == "*":
            continue
        elif a != b:
            return False
    return True


def fmt_origin(o: Origin) -> str:
    k = o[0]
    if k == "param":
        return f"parameter '{o[1]}'"
    if k == "attr":
        return f"self.{o[1]}"
    if k == "self":
        return "self"
    if k == "sigs":
        return f"self.sig_{o[1]}"
    if k == "sig":
        return f"self.sig_{o[1]}[{o[2]}]"
    if k == "newsig":
        return f"Signal() created at L{o[1]}"
    if k == "shared":
        return f"the memoised result of {o[1].split('.')[-1]}()"
    if k == "field":
        return f"{fmt_origin(o[1])}.{o[2]}"
    return str(o)


# ------------------------------------------------------------------------------------------------- kinds
K_STR, K_LIST, K_TUPLE, K_DICT, K_SLICE, K_ELL, K_INT, K_NUM, K_BOOL, K_NONE, K_ARR, K_UNK = (
    "str", "pylist", "pytuple", "dict", "slice", "ellipsis", "int", "number", "bool", "none", "ndarray", "unknown")
UNK = frozenset([K_UNK])
VIEW_INDEX_KINDS = {K_SLICE, K_ELL, K_INT, K_NONE, K_BOOL}
COPY_INDEX_KINDS = {K_ARR, K_LIST}


@dataclass(frozen=True)
class Val:
    orig: FrozenSet[Origin] = EMPTY
    kinds: FrozenSet[str] = UNK

    def join(self, other: "Val") -> "Val":
        return Val(self.orig | other.orig, self.kinds | other.kinds)


BOTTOM = None  # unreachable


@dataclass
class Sink:
    node: Node
    stmt: ast.AST
    kind: str                 # 'subscript-store', 'subscript-augstore', 'augassign', 'out=', 'np.add.at', '.append()', ...
    origins: FrozenSet[Origin]
    zero_store: bool = False  # stores the literal 0 / 0.0 / False through a subscript
    via: str = ""             # callee through which the mutation happens (interprocedural)
    target_text: str = ""
    callee: object = None     # FuncInfo of the repository callee for call-* sinks
    attr_name: str = ""       # for attr-store sinks
    value_origins: FrozenSet[Origin] = EMPTY
    arg_origins: FrozenSet[Origin] = EMPTY


@dataclass
class AttrStore:
    node: Node
    stmt: ast.AST
    attr: str
    value: Val
    aug: bool = False
    target_is_subscript: bool = False


@dataclass
class Summary:
    ret_alias: Set[str] = field(default_factory=set)       # params whose memory the return value may alias
    ret_self_attrs: Set[str] = field(default_factory=set)  # self attributes the return value may alias
    ret_self: bool = False                                  # returns self
    mutates: Dict[str, str] = field(default_factory=dict)  # param -> description of the first mutating site
    mutates_attrs: Dict[str, str] = field(default_factory=dict)  # self attr -> description (object held mutated)
    writes_attrs: Set[str] = field(default_factory=set)    # self attributes (re)assigned
    stores: Set[str] = field(default_factory=set)          # params retained in self attributes without a copy
    incomplete: bool = False                               # recursion cut


class FlowCtx:
    """Shared per-run context: model, CFG cache, summary cache, class attribute facts, assumption log."""

    def __init__(self, model: Model):
        self.model = model
        self._cfg: Dict[str, CFG] = {}
        self._summ: Dict[Tuple[str, Optional[str]], Summary] = {}
        self._in_progress: Set[Tuple[str, Optional[str]]] = set()
        self._attr_facts: Dict[str, Dict[str, Val]] = {}
        self._attr_types: Dict[str, Dict[str, Set[str]]] = {}
        self.assumptions: List[str] = []
        self.functions_analysed: Set[str] = set()
        self._solver_base = None

    def cfg(self, f: FuncInfo) -> CFG:
        key = f"{f.qual}@{id(f.node)}"        # a property getter and its setter share one qualified name
        if key not in self._cfg:
            self._cfg[key] = CFG(f.node)
        return self._cfg[key]

    def assume(self, text: str):
        if text not in self.assumptions:
            self.assumptions.append(text)

    def attr_types(self, c: ClassInfo) -> Dict[str, Set[str]]:
        if c.qual not in self._attr_types:
            self._attr_types[c.qual] = self.model.class_attr_types(c)
        return self._attr_types[c.qual]

    # ---------------------------------------------------------------- call resolution with family widening
    def callees(self, f: FuncInfo, call: ast.Call, concrete: Optional[ClassInfo]) -> List[FuncInfo]:
        m = self.model
        cls = concrete or f.cls
        at = self.attr_types(cls) if cls is not None else None
        res = m.resolve_call(f, call, concrete=concrete, attr_types=at)
        fn = call.func
        selfn = m.self_name(f)
        # calling an object held in an attribute: self.scaling(x, y) -> __call__ of its class
        if (not res and isinstance(fn, ast.Attribute) and isinstance(fn.value, ast.Name) and selfn
                and fn.value.id == selfn and cls is not None and at):
            for t in sorted(at.get(fn.attr, ())):
                k = m.classes.get(t)
                if k is not None:
                    for sub in m.subclasses(k):
                        g = m.resolve_method(sub, "__call__")
                        if g and g not in res:
                            res.append(g)
        # widen typed solver receivers to the whole LinearSolver family
        if res and isinstance(fn, ast.Attribute) and not (isinstance(fn.value, ast.Name) and fn.value.id == selfn):
            if self._solver_base is None:
                self._solver_base = m.solver_base()
            sb = self._solver_base
            if any(g.cls is not None and m.is_subclass(g.cls, sb) for g in res):
                for sub in m.subclasses(sb):
                    g = m.resolve_method(sub, fn.attr)
                    if g and g not in res:
                        res.append(g)
        return res

    # ----------------------------------------------------------------------- class-level attribute facts
    def attr_facts(self, c: ClassInfo) -> Dict[str, Val]:
        """Flow-insensitive per concrete class: attribute -> (origins it may alias, kinds) over all methods."""
        if c.qual in self._attr_facts:
            return self._attr_facts[c.qual]
        facts: Dict[str, Val] = {}
        self._attr_facts[c.qual] = facts  # allows reads during the fixpoint
        for k in self.model.mro(c):
            for name, v in k.class_attrs.items():
                if name not in facts:
                    facts[name] = Val(EMPTY, const_kinds(v))
        methods: List[FuncInfo] = []
        seen = set()
        for k in self.model.mro(c):
            for name, defs in k.methods.items():
                for f in defs:
                    if self.model.self_name(f) and self.model.resolve_methods_all(c, name) and f in \
                            self.model.resolve_methods_all(c, name):
                        if f.qual not in seen:
                            seen.add(f.qual)
                            methods.append(f)
        for _round in range(3):
            changed = False
            for f in methods:
                an = Alias(self, f, c, role_env=True)
                an.run()
                for st in an.attr_stores:
                    if st.target_is_subscript:
                        continue
                    old = facts.get(st.attr)
                    new = st.value if old is None else old.join(st.value)
                    if old is None or new != old:
                        facts[st.attr] = new
                        changed = True
            if not changed:
                break
        return facts

    # --------------------------------------------------------------------------------------- summaries
    def summary(self, g: FuncInfo, concrete: Optional[ClassInfo]) -> Summary:
        key = (g.qual, concrete.qual if (concrete is not None and g.cls is not None
                                        and self.model.is_subclass(concrete, g.cls)) else None)
        if key in self._summ:
            return self._summ[key]
        if key in self._in_progress:
            s = Summary(incomplete=True)
            self.assume(f"recursive call cycle through {g.short}: inner call summarised as pure")
            return s
        self._in_progress.add(key)
        try:
            conc = concrete if key[1] else g.cls
            an = Alias(self, g, conc, role_env=False)
            an.run()
            s = Summary()
            for rv in an.returns:
                for o in rv.orig:
                    r = root_of(o)
                    if r[0] == "param":
                        s.ret_alias.add(r[1])
                    elif r[0] == "attr":
                        s.ret_self_attrs.add(r[1])
                    elif r == SELF:
                        s.ret_self = True
            for sk in an.sinks:
                for o in sk.origins:
                    r = root_of(o)
                    desc = f"{sk.kind} '{stmt_key(sk.stmt)}' at {g.rel}:{getattr(sk.stmt, 'lineno', 0)} in {g.short}"
                    if sk.via:
                        desc += f" (via {sk.via})"
                    if r[0] == "param":
                        s.mutates.setdefault(r[1], desc)
                    elif r[0] == "attr":
                        s.mutates_attrs.setdefault(r[1], desc)
            for st in an.attr_stores:
                s.writes_attrs.add(st.attr)
                for o in st.value.orig:
                    r = root_of(o)
                    if r[0] == "param":
                        s.stores.add(r[1])
            # appending an aliased param into a self-held container also retains it
            for sk in an.sinks:
                if sk.kind in (".append()", ".extend()", ".insert()") and any(root_of(o)[0] == "attr" for o in sk.origins):
                    for o in getattr(sk, "arg_origins", EMPTY):
                        r = root_of(o)
                        if r[0] == "param":
                            s.stores.add(r[1])
            self._summ[key] = s
            return s
        finally:
            self._in_progress.discard(key)


def const_kinds(e: ast.AST) -> FrozenSet[str]:
    if isinstance(e, ast.Constant):
        v = e.value
        if v is None:
            return frozenset([K_NONE])
        if v is Ellipsis:
            return frozenset([K_ELL])
        if isinstance(v, bool):
            return frozenset([K_BOOL])
        if isinstance(v, int):
            return frozenset([K_INT])
        if isinstance(v, (float, complex)):
            return frozenset([K_NUM])
        if isinstance(v, (str, bytes)):
            return frozenset([K_STR])
    if isinstance(e, ast.Name) and e.id == "Ellipsis":
        return frozenset([K_ELL])
    if isinstance(e, (ast.List, ast.ListComp)):
        return frozenset([K_LIST])
    if isinstance(e, ast.Tuple):
        return frozenset([K_TUPLE])
    if isinstance(e, (ast.Dict, ast.DictComp)):
        return frozenset([K_DICT])
    if isinstance(e, ast.JoinedStr):
        return frozenset([K_STR])
    return UNK


def is_zero_const(e: ast.AST) -> bool:
    return isinstance(e, ast.Constant) and not isinstance(e.value, (str, bytes)) and e.value is not None \
        and e.value is not Ellipsis and e.value == 0


# ------------------------------------------------------------------------------------------ the analysis
class Alias:
    """May-alias-memory + kinds analysis of one function, flow-sensitive for locals."""

    def __init__(self, ctx: FlowCtx, f: FuncInfo, concrete: Optional[ClassInfo], role_env: bool = True,
                 init: Optional[Dict[str, Val]] = None):
        self.ctx = ctx
        self.m = ctx.model
        self.f = f
        self.cls = concrete or f.cls
        self.selfn = self.m.self_name(f)
        self.cfg = ctx.cfg(f)
        self.role_env = role_env
        self.init = init
        self.sinks: List[Sink] = []
        self.attr_stores: List[AttrStore] = []
        self.returns: List[Val] = []
        self.return_elems: List[Tuple[ast.Return, List[Val]]] = []
        self.state_in: Dict[Node, Dict[str, Val]] = {}
        self.unknown_index_sites: Set[str] = set()
        self._collect = False
        self.n_sink_sites = 0
        ctx.functions_analysed.add(f.qual)

    # ------------------------------------------------------------------------------------- environment
    def initial_env(self) -> Dict[str, Val]:
        env: Dict[str, Val] = {}
        a = self.f.node.args
        pos = [x.arg for x in a.posonlyargs + a.args]
        if self.selfn:
            env[self.selfn] = Val(frozenset([SELF]), UNK)
            pos = pos[1:]
        role = None
        if self.role_env and self.f.cls is not None:
            if self.f.name == "_response":
                role = ("in", "state")
            elif self.f.name == "_sensitivity":
                role = ("out", "sensitivity")
        for i, p in enumerate(pos):
            if role:
                env[p] = Val(frozenset([o_field(o_sig(role[0], i), role[1])]), UNK)
            else:
                env[p] = Val(frozenset([o_param(p)]), self._ann_kinds(p))
        if a.vararg:
            if role:
                env[a.vararg.arg] = Val(frozenset([o_field(o_sig(role[0], "*"), role[1])]), frozenset([K_TUPLE]))
            else:
                env[a.vararg.arg] = Val(frozenset([o_param(a.vararg.arg)]), frozenset([K_TUPLE]))
        for p in a.kwonlyargs:
            env[p.arg] = Val(frozenset([o_param(p.arg)]), self._ann_kinds(p.arg))
        if a.kwarg:
            env[a.kwarg.arg] = Val(frozenset([o_param(a.kwarg.arg)]), frozenset([K_DICT]))
        if self.init:
            env.update(self.init)
        return env

    def _ann_kinds(self, p: str) -> FrozenSet[str]:
        ann = self.f.annotations().get(p)
        if ann is None:
            return UNK
        t = ast.unparse(ann)
        if t in ("str",):
            return frozenset([K_STR])
        if t in ("int",):
            return frozenset([K_INT])
        if t in ("float",):
            return frozenset([K_NUM])
        if t in ("bool",):
            return frozenset([K_BOOL])
        if t in ("np.ndarray", "numpy.ndarray", "NDArray"):
            return frozenset([K_ARR])
        return UNK

    # -------------------------------------------------------------------------------------------- run
    def run(self):
        cfg = self.cfg
        env0 = self.initial_env()
        state: Dict[Node, Optional[Dict[str, Val]]] = {n: None for n in cfg.nodes}
        state[cfg.entry] = env0
        work = [cfg.entry]
        inq = {cfg.entry}
        iters = 0
        while work:
            n = work.pop()
            inq.discard(n)
            iters += 1
            if iters > 20000:
                self.ctx.assume(f"alias fixpoint cut after 20000 steps in {self.f.short}")
                break
            env = state[n]
            if env is None:
                continue
            outs = self.transfer(n, env)
            for succ, lab in n.succ:
                out = outs.get(lab, outs.get(None))
                if out is None:
                    continue
                old = state[succ]
                new = out if old is None else join_env(old, out)
                if old is None or new != old:
                    state[succ] = new
                    if succ not in inq:
                        work.append(succ)
                        inq.add(succ)
        # collection pass with the fixpoint states
        self.state_in = {n: s for n, s in state.items() if s is not None}
        self._collect = True
        for n, env in self.state_in.items():
            self.transfer(n, env)
        self._collect = False
        return self

    # --------------------------------------------------------------------------------------- transfer
    def transfer(self, n: Node, env: Dict[str, Val]) -> Dict[Optional[str], Dict[str, Val]]:
        if n.kind == STMT:
            e2 = dict(env)
            self.stmt(n, n.ast, e2)
            return {None: e2, "exc": env_join_opt(env, e2)}
        if n.kind == TEST:
            e2 = dict(env)
            self.scan_expr(n, n.owner, n.ast, e2)
            et, ef = dict(e2), dict(e2)
            self.refine(n.ast, et, True)
            self.refine(n.ast, ef, False)
            return {"T": et, "F": ef, "exc": e2, None: e2}
        if n.kind == FOR:
            e2 = dict(env)
            it = self.eval(n.ast.iter, e2)
            self.scan_expr(n, n.ast, n.ast.iter, e2)
            eloop = dict(e2)
            self.bind(n, n.ast, n.ast.target, self.elem_of(it), eloop, loop=True)
            return {"loop": eloop, "done": e2, "exc": e2, None: e2}
        if n.kind == WITH:
            e2 = dict(env)
            for item in n.ast.items:
                v = self.eval(item.context_expr, e2)
                self.scan_expr(n, n.ast, item.context_expr, e2)
                if item.optional_vars is not None:
                    self.bind(n, n.ast, item.optional_vars, Val(v.orig, UNK), e2)
            return {None: e2, "exc": e2}
        if n.kind == HANDLER:
            e2 = dict(env)
            if n.ast.name:
                e2[n.ast.name] = Val(EMPTY, UNK)
            return {None: e2}
        return {None: env}

    def refine(self, test: ast.AST, env: Dict[str, Val], truth: bool):
        """isinstance / is None refinements of kinds on a branch."""
        if isinstance(test, ast.UnaryOp) and isinstance(test.op, ast.Not):
            return self.refine(test.operand, env, not truth)
        if isinstance(test, ast.BoolOp):
            if (isinstance(test.op, ast.And) and truth) or (isinstance(test.op, ast.Or) and not truth):
                for v in test.values:
                    self.refine(v, env, truth)
            return
        if (isinstance(test, ast.Call) and isinstance(test.func, ast.Name) and test.func.id == "isinstance"
                and len(test.args) == 2 and isinstance(test.args[0], ast.Name)):
            name = test.args[0].id
            ty = ast.unparse(test.args[1])
            kind = {"str": K_STR, "list": K_LIST, "tuple": K_TUPLE, "dict": K_DICT, "slice": K_SLICE,
                    "np.ndarray": K_ARR, "int": K_INT, "bool": K_BOOL}.get(ty)
            if kind and name in env:
                v = env[name]
                if truth:
                    env[name] = Val(v.orig, frozenset([kind]))
                elif v.kinds != UNK:
                    env[name] = Val(v.orig, frozenset(v.kinds - {kind}) or UNK)
            return
        if (isinstance(test, ast.Compare) and len(test.ops) == 1 and isinstance(test.left, ast.Name)
                and isinstance(test.comparators[0], ast.Constant) and test.comparators[0].value is None
                and test.left.id in env):
            v = env[test.left.id]
            isnone = isinstance(test.ops[0], ast.Is)
            if isinstance(test.ops[0], (ast.Is, ast.IsNot)):
                if truth == isnone:
                    env[test.left.id] = Val(EMPTY, frozenset([K_NONE]))
                elif K_NONE in v.kinds and len(v.kinds) > 1:
                    env[test.left.id] = Val(v.orig, frozenset(v.kinds - {K_NONE}))

    # ------------------------------------------------------------------------------------- statements
    def stmt(self, n: Node, st: ast.AST, env: Dict[str, Val]):
        if isinstance(st, ast.Assign):
            self.scan_expr(n, st, st.value, env)
            val = self.eval(st.value, env)
            for t in st.targets:
                if (isinstance(t, (ast.Tuple, ast.List)) and isinstance(st.value, (ast.Tuple, ast.List))
                        and len(t.elts) == len(st.value.elts)
                        and not any(isinstance(x, ast.Starred) for x in t.elts + st.value.elts)):
                    vals = [self.eval(v, env) for v in st.value.elts]   # evaluate all before binding (swap idiom)
                    for tt, vv, ve in zip(t.elts, vals, st.value.elts):
                        self.bind(n, st, tt, vv, env, value_expr=ve)
                else:
                    self.bind(n, st, t, val, env, value_expr=st.value)
        elif isinstance(st, ast.AnnAssign):
            if st.value is not None:
                self.scan_expr(n, st, st.value, env)
                self.bind(n, st, st.target, self.eval(st.value, env), env, value_expr=st.value)
        elif isinstance(st, ast.AugAssign):
            self.scan_expr(n, st, st.value, env)
            t = st.target
            vv = self.eval(st.value, env)
            if isinstance(t, ast.Subscript):
                self.scan_expr(n, st, t.slice, env)
                base = self.eval(t.value, env)
                tv = self.eval(t, env)
                # in-place op on the element/view selected
                self.add_sink(n, st, "subscript-augstore", base.orig | tv.orig, target=t)
            elif isinstance(t, ast.Name):
                cur = env.get(t.id, Val())
                rhs_immut = vv.kinds != UNK and vv.kinds and vv.kinds <= {K_STR, K_TUPLE}
                if rhs_immut or (cur.kinds <= {K_TUPLE, K_LIST, K_STR, K_INT, K_NUM, K_BOOL} and cur.kinds != UNK
                                 and cur.kinds):
                    # rebinding (immutable) or list extension of a local sequence: container-level
                    if cur.kinds and cur.kinds <= {K_INT, K_NUM, K_BOOL, K_STR} and cur.kinds != UNK:
                        env[t.id] = Val(EMPTY, cur.kinds)      # a number / string: the result is a new value, nothing is shared
                    else:
                        env[t.id] = Val(cur.orig | vv.orig, cur.kinds)
                else:
                    self.add_sink(n, st, "augassign", cur.orig, target=t)
            elif isinstance(t, ast.Attribute):
                tv = self.eval(t, env)
                immut = tv.kinds != UNK and tv.kinds and tv.kinds <= {K_TUPLE, K_STR, K_INT, K_NUM, K_BOOL, K_NONE}
                if not immut:
                    self.add_sink(n, st, "augassign", tv.orig, target=t)
                if self._is_self(t.value):
                    self._attr_store(n, st, t.attr, tv.join(vv), aug=True)
                else:
                    obj = self.eval(t.value, env)
                    self.add_sink(n, st, "attr-augstore", obj.orig, target=t)
        elif isinstance(st, ast.Expr):
            self.scan_expr(n, st, st.value, env)
        elif isinstance(st, ast.Return):
            if st.value is not None:
                self.scan_expr(n, st, st.value, env)
                v = self.eval(st.value, env)
                if self._collect:
                    self.returns.append(v)
                    if isinstance(st.value, (ast.Tuple, ast.List)):
                        self.return_elems.append((st, [self.eval(e, env) for e in st.value.elts]))
                    else:
                        self.return_elems.append((st, [v]))
            elif self._collect:
                self.return_elems.append((st, []))
        elif isinstance(st, ast.Delete):
            for t in st.targets:
                if isinstance(t, ast.Subscript):
                    base = self.eval(t.value, env)
                    self.add_sink(n, st, "del-subscript", base.orig, target=t)
                elif isinstance(t, ast.Name):
                    env.pop(t.id, None)
        elif isinstance(st, ast.Raise):
            if st.exc is not None:
                self.scan_expr(n, st, st.exc, env)
        elif isinstance(st, (ast.FunctionDef, ast.ClassDef)):
            env[st.name] = Val(EMPTY, UNK)
            if isinstance(st, ast.FunctionDef):
                self.ctx.assume(f"nested function {self.f.short}.<locals>.{st.name} is treated as pure "
                                f"(fresh result, no mutation of captured variables)")
        elif isinstance(st, (ast.Import, ast.ImportFrom)):
            for a in st.names:
                env[(a.asname or a.name).split(".")[0]] = Val(EMPTY, UNK)

    def _is_self(self, e: ast.AST) -> bool:
        return isinstance(e, ast.Name) and self.selfn is not None and e.id == self.selfn

    def _attr_store(self, n, st, attr, val: Val, aug=False, sub=False):
        if self._collect:
            self.attr_stores.append(AttrStore(n, st, attr, val, aug, sub))

    def bind(self, n: Node, st: ast.AST, t: ast.AST, val: Val, env: Dict[str, Val], value_expr=None, loop=False):
        if isinstance(t, ast.Name):
            env[t.id] = val
        elif isinstance(t, (ast.Tuple, ast.List)):
            ev = self.elem_of(val)
            for e in t.elts:
                self.bind(n, st, e.value if isinstance(e, ast.Starred) else e, ev, env, value_expr=None, loop=loop)
        elif isinstance(t, ast.Attribute):
            if self._is_self(t.value):
                self._attr_store(n, st, t.attr, val)
            else:
                obj = self.eval(t.value, env)
                if obj.orig:
                    s = self.add_sink(n, st, "attr-store", obj.orig, target=t)
                    if s is not None:
                        s.attr_name = t.attr          # type: ignore[attr-defined]
                        s.value_origins = val.orig    # type: ignore[attr-defined]
        elif isinstance(t, ast.Subscript):
            self.scan_expr(n, st, t.slice, env)
            base_expr = t.value
            base = self.eval(base_expr, env)
            if isinstance(base_expr, ast.Name) and base.kinds and base.kinds <= {K_LIST, K_DICT} :
                # element replacement in a Python container built here: container-level, weak update
                env[base_expr.id] = Val(base.orig | val.orig, base.kinds)
                return
            zero = value_expr is not None and is_zero_const(value_expr)
            self.add_sink(n, st, "subscript-store", base.orig, zero=zero, target=t)
            if isinstance(base_expr, ast.Attribute) and self._is_self(base_expr.value):
                self._attr_store(n, st, base_expr.attr, val, sub=True)

    def add_sink(self, n, st, kind, origins, zero=False, via="", target=None, callee=None) -> Optional[Sink]:
        if self._collect:
            self.n_sink_sites += 1
        if not self._collect or not origins:
            return None
        s = Sink(n, st, kind, frozenset(origins), zero, via, ast.unparse(target) if target is not None else "",
                 callee)
        self.sinks.append(s)
        return s

    # ------------------------------------------------------------------------- calls inside expressions
    def scan_expr(self, n: Node, st: ast.AST, e: ast.AST, env: Dict[str, Val]):
        """Find mutation sinks in calls nested anywhere in expression `e` (comprehension variables bound)."""
        if e is None:
            return
        self._scan(n, st, e, env)

    def _scan(self, n, st, e, env):
        if isinstance(e, (ast.ListComp, ast.SetComp, ast.GeneratorExp, ast.DictComp)):
            env2 = dict(env)
            for g in e.generators:
                self._scan(n, st, g.iter, env2)
                self.bind(n, st, g.target, self.elem_of(self.eval(g.iter, env2)), env2)
                for c in g.ifs:
                    self._scan(n, st, c, env2)
            if isinstance(e, ast.DictComp):
                self._scan(n, st, e.key, env2)
                self._scan(n, st, e.value, env2)
            else:
                self._scan(n, st, e.elt, env2)
            return
        if isinstance(e, ast.Lambda):
            return  # body executed later by the callee; treated as opaque (assumption)
        if isinstance(e, ast.NamedExpr):
            self._scan(n, st, e.value, env)
            env[e.target.id] = self.eval(e.value, env)
            return
        for ch in ast.iter_child_nodes(e):
            if isinstance(ch, ast.expr) or isinstance(ch, ast.keyword) or isinstance(ch, ast.comprehension):
                self._scan(n, st, ch.value if isinstance(ch, ast.keyword) else ch, env)
        if isinstance(e, ast.Call):
            self.call_effects(n, st, e, env)

    def call_effects(self, n: Node, st: ast.AST, c: ast.Call, env: Dict[str, Val]):
        fn = c.func
        for kw in c.keywords:
            if kw.arg == "out":
                v = self.eval(kw.value, env)
                self.add_sink(n, st, "out=", v.orig, target=kw.value)
            elif kw.arg and kw.arg.startswith("overwrite_") and isinstance(kw.value, ast.Constant) and kw.value.value is True:
                # scipy.linalg style: overwrite_a / overwrite_b / overwrite_x allow the routine to destroy that operand
                which = kw.arg[len("overwrite_"):]
                target = None
                for k2 in c.keywords:
                    if k2.arg == which:
                        target = k2.value
                if target is None:
                    pos = {"a": 0, "x": 0, "ab": 0, "b": 1, "c": 0, "r": 1}.get(which)
                    if pos is not None and pos < len(c.args):
                        target = c.args[pos]
                if target is not None:
                    v = self.eval(target, env)
                    self.add_sink(n, st, f"{kw.arg}=True", v.orig, target=target)
        dotted = self.m.expr_dotted(self.f.module, fn) if isinstance(fn, (ast.Name, ast.Attribute)) else None
        if dotted and dotted.startswith("numpy.") and dotted[6:] in T.MUT_FUNCS_ARG0 and c.args:
            v = self.eval(c.args[0], env)
            self.add_sink(n, st, "np." + dotted[6:], v.orig, target=c.args[0])
            return
        callees = self.ctx.callees(self.f, c, self.cls)
        if callees:
            for g in callees:
                self.apply_summary_effects(n, st, c, g, env)
            return
        if isinstance(fn, ast.Attribute) and fn.attr in T.MUT_METHODS:
            recv = self.eval(fn.value, env)
            local_container = isinstance(fn.value, ast.Name) and recv.kinds and recv.kinds <= {K_LIST, K_DICT}
            if fn.attr in T.CONTAINER_MUTATORS and local_container:
                if fn.attr in ("append", "extend", "insert", "add", "update", "setdefault") and c.args:
                    av = self.eval(c.args[-1], env)
                    if fn.attr in ("extend", "update"):
                        av = self.elem_of(av)
                    env[fn.value.id] = Val(recv.orig | av.orig, recv.kinds)
                return
            s = self.add_sink(n, st, f".{fn.attr}()", recv.orig, target=fn.value)
            if s is not None and c.args:
                s.arg_origins = self.eval(c.args[-1], env).orig  # type: ignore[attr-defined]
            if isinstance(fn.value, ast.Attribute) and self._is_self(fn.value.value) and c.args \
                    and fn.attr in ("append", "extend", "insert"):
                self._attr_store(n, st, fn.value.attr, self.eval(c.args[-1], env), sub=True)

    def bind_args(self, c: ast.Call, g: FuncInfo, env) -> Dict[str, Val]:
        """Map callee parameter names to the abstract values of the arguments at this call site."""
        params = g.pos_params()
        out: Dict[str, Val] = {}
        i = 0
        star_rest = Val()
        has_star = False
        for a in c.args:
            if isinstance(a, ast.Starred):
                has_star = True
                star_rest = star_rest.join(self.elem_of(self.eval(a.value, env)))
                continue
            v = self.eval(a, env)
            if i < len(params) and not has_star:
                out[params[i]] = v
            elif g.vararg():
                out[g.vararg()] = out.get(g.vararg(), Val()).join(v)
            elif has_star:
                star_rest = star_rest.join(v)
            i += 1
        if has_star:
            for p in params[i if not has_star else 0:]:
                if p not in out:
                    out[p] = star_rest
            if g.vararg():
                out[g.vararg()] = out.get(g.vararg(), Val()).join(star_rest)
        for kw in c.keywords:
            if kw.arg is None:
                v = self.elem_of(self.eval(kw.value, env))
                for p in params + g.kwonly():
                    out[p] = out.get(p, Val()).join(v)
            else:
                out[kw.arg] = self.eval(kw.value, env)
        return out

    def receiver_val(self, c: ast.Call, g: FuncInfo, env) -> Optional[Val]:
        fn = c.func
        if g.cls is None or g.is_static():
            return None
        if isinstance(fn, ast.Attribute):
            if isinstance(fn.value, ast.Call) and isinstance(fn.value.func, ast.Name) and fn.value.func.id == "super":
                return env.get(self.selfn) if self.selfn else None
            if g.name == "__call__" and fn.attr != "__call__":
                return self.eval(fn, env)
            return self.eval(fn.value, env)
        if isinstance(fn, ast.Name) and g.name == "__init__":
            return Val()  # fresh object
        return None

    def apply_summary_effects(self, n, st, c: ast.Call, g: FuncInfo, env):
        summ = self.ctx.summary(g, self.cls if (g.cls is not None and self.cls is not None and
                                                self.m.is_subclass(self.cls, g.cls)) else None)
        args = self.bind_args(c, g, env)
        for p, desc in summ.mutates.items():
            v = args.get(p)
            if v is not None and v.orig:
                self.add_sink(n, st, "call-mutates-arg", v.orig, via=desc, target=c, callee=g)
        recv = self.receiver_val(c, g, env)
        if recv is not None and recv.orig and g.name != "__init__":
            is_self_call = any(o == SELF for o in recv.orig)
            if is_self_call:
                for a, desc in summ.mutates_attrs.items():
                    av = self.read_attr(a)
                    self.add_sink(n, st, "call-mutates-attr", av.orig | {o_attr(a)}, via=desc, target=c, callee=g)
                for a in summ.writes_attrs:
                    self._attr_store(n, st, a, Val(), sub=False)
            else:
                if summ.mutates_attrs or summ.writes_attrs:
                    what = ", ".join(sorted(set(summ.mutates_attrs) | summ.writes_attrs))
                    self.add_sink(n, st, "call-mutates-receiver", recv.orig,
                                  via=f"{g.short} updates its own attribute(s) {what}", target=c, callee=g)

    # ------------------------------------------------------------------------------------- evaluation
    def read_attr(self, attr: str) -> Val:
        if attr in ("sig_in", "sig_out"):
            return Val(frozenset([o_sigs(attr[4:])]), frozenset([K_LIST]))
        v = Val(frozenset([o_attr(attr)]), UNK)
        if self.cls is not None:
            facts = self.ctx.attr_facts(self.cls)
            if attr in facts:
                fv = facts[attr]
                v = Val(v.orig | fv.orig, fv.kinds or UNK)
        return v

    def elem_of(self, v: Val) -> Val:
        """Value of an element obtained by iterating / unpacking `v`."""
        orig = set()
        for o in v.orig:
            if o[0] == "sigs":
                orig.add(o_sig(o[1], "*"))
            else:
                orig.add(o)
        return Val(frozenset(orig), UNK)

    def index_is_view(self, sl: ast.AST, env, site: ast.AST) -> bool:
        """May `a[sl]` share memory with `a`?"""
        elts = sl.elts if isinstance(sl, ast.Tuple) else [sl]
        copy = False
        for e in elts:
            if isinstance(e, ast.Slice):
                continue
            if isinstance(e, ast.Constant) and (e.value is None or e.value is Ellipsis or
                                                isinstance(e.value, (int, bool))):
                continue
            if isinstance(e, ast.Attribute) and e.attr == "newaxis":
                continue
            if isinstance(e, ast.UnaryOp) and isinstance(e.operand, ast.Constant):
                continue
            ks = self.eval(e, env).kinds
            if isinstance(e, (ast.Compare, ast.List, ast.ListComp)):
                ks = frozenset([K_ARR])
            if isinstance(e, ast.Call):
                d = self.m.expr_dotted(self.f.module, e.func) if isinstance(e.func, (ast.Name, ast.Attribute)) else None
                if d and d.startswith("numpy.") and d.split(".")[-1] in T.ARRAY_MAKERS:
                    ks = frozenset([K_ARR])
            if ks & VIEW_INDEX_KINDS:
                continue
            if ks and ks <= COPY_INDEX_KINDS:
                copy = True
                continue
            if isinstance(e, (ast.BinOp,)) and not (ks - {K_UNK}):
                # arithmetic on loop counters etc.: an integer => element/sub-array view
                if all(isinstance(x, (ast.Name, ast.Constant, ast.BinOp, ast.Attribute, ast.Subscript))
                       for x in ast.walk(e) if isinstance(x, ast.expr) and not isinstance(x, (ast.operator,))):
                    pass
            # unknown kind: assumed to be an index array (advanced indexing => copy); recorded
            copy = True
            if self._collect:
                txt = f"{self.f.short}: '{ast.unparse(site)}' index '{ast.unparse(e)}' of unknown kind treated as " \
                      f"an index array (advanced indexing copies)"
                self.unknown_index_sites.add(txt)
        return not copy

    def eval(self, e: ast.AST, env: Dict[str, Val]) -> Val:
        if e is None:
            return Val()
        if isinstance(e, ast.Name):
            if e.id in env:
                return env[e.id]
            if e.id == "Ellipsis":
                return Val(EMPTY, frozenset([K_ELL]))
            return Val(EMPTY, UNK)
        if isinstance(e, ast.Constant):
            return Val(EMPTY, const_kinds(e))
        if isinstance(e, ast.Attribute):
            if self._is_self(e.value):
                return self.read_attr(e.attr)
            base = self.eval(e.value, env)
            if e.attr in T.VIEW_ATTRS:
                return Val(base.orig, frozenset([K_ARR]) if base.orig else UNK)
            if e.attr in ("shape", "size", "ndim", "dtype", "nnz", "itemsize"):
                return Val(EMPTY, UNK)
            return Val(frozenset(o_field(o, e.attr) for o in base.orig if o != SELF), UNK)
        if isinstance(e, ast.Subscript):
            base = self.eval(e.value, env)
            # self.sig_in[k]
            if any(o[0] == "sigs" for o in base.orig):
                k = e.slice.value if (isinstance(e.slice, ast.Constant) and isinstance(e.slice.value, int)
                                      and e.slice.value >= 0) else "*"
                if isinstance(e.slice, ast.Slice):
                    return Val(frozenset(o for o in base.orig), frozenset([K_LIST]))
                return Val(frozenset(o_sig(o[1], k) if o[0] == "sigs" else o for o in base.orig), UNK)
            if not base.orig:
                return Val(EMPTY, UNK)
            if base.kinds and base.kinds <= {K_LIST, K_TUPLE, K_DICT}:
                return Val(base.orig, UNK)       # element of a Python container
            if self.index_is_view(e.slice, env, e):
                return Val(base.orig, base.kinds if isinstance(e.slice, ast.Slice) else UNK)
            return Val(EMPTY, frozenset([K_ARR]))
        if isinstance(e, ast.Call):
            return self.eval_call(e, env)
        if isinstance(e, ast.IfExp):
            # idiom: x.copy() if hasattr(x, "copy") else x   => fresh (objects without .copy are immutable scalars)
            t = e.test
            if (isinstance(t, ast.Call) and isinstance(t.func, ast.Name) and t.func.id == "hasattr" and len(t.args) == 2
                    and isinstance(t.args[1], ast.Constant) and t.args[1].value == "copy"
                    and isinstance(e.body, ast.Call) and isinstance(e.body.func, ast.Attribute)
                    and e.body.func.attr == "copy"
                    and ast.dump(e.body.func.value) == ast.dump(t.args[0]) == ast.dump(e.orelse)):
                self.ctx.assume("idiom `x.copy() if hasattr(x, 'copy') else x` yields a value that shares no "
                                "mutable memory with x (objects without .copy are immutable scalars)")
                return Val(EMPTY, UNK)
            a, b = self.eval(e.body, env), self.eval(e.orelse, env)
            return a.join(b)
        if isinstance(e, (ast.Tuple, ast.List, ast.Set)):
            o = set()
            for x in e.elts:
                o |= self.eval(x.value if isinstance(x, ast.Starred) else x, env).orig
            return Val(frozenset(o), frozenset([K_TUPLE if isinstance(e, ast.Tuple) else K_LIST]))
        if isinstance(e, ast.Dict):
            o = set()
            for x in e.values:
                o |= self.eval(x, env).orig
            return Val(frozenset(o), frozenset([K_DICT]))
        if isinstance(e, (ast.ListComp, ast.SetComp, ast.GeneratorExp)):
            env2 = dict(env)
            for g in e.generators:
                self.bind(None, e, g.target, self.elem_of(self.eval(g.iter, env2)), env2)
            return Val(self.eval(e.elt, env2).orig, frozenset([K_LIST]))
        if isinstance(e, ast.DictComp):
            env2 = dict(env)
            for g in e.generators:
                self.bind(None, e, g.target, self.elem_of(self.eval(g.iter, env2)), env2)
            return Val(self.eval(e.value, env2).orig, frozenset([K_DICT]))
        if isinstance(e, ast.BoolOp):
            v = Val(EMPTY, frozenset())
            for x in e.values:
                v = v.join(self.eval(x, env))
            return Val(v.orig, v.kinds or UNK)
        if isinstance(e, ast.NamedExpr):
            return self.eval(e.value, env)
        if isinstance(e, ast.Starred):
            return self.eval(e.value, env)
        if isinstance(e, ast.BinOp):
            l, r = self.eval(e.left, env), self.eval(e.right, env)
            num = {K_INT, K_NUM, K_BOOL}
            if l.kinds <= num and r.kinds <= num and l.kinds != UNK and r.kinds != UNK:
                return Val(EMPTY, frozenset([K_INT]) if (l.kinds | r.kinds) <= {K_INT, K_BOOL} else frozenset([K_NUM]))
            if isinstance(e.op, ast.Add) and (l.kinds | r.kinds) <= {K_LIST, K_TUPLE}:
                return Val(l.orig | r.orig, l.kinds | r.kinds)   # sequence concatenation keeps the elements
            return Val(EMPTY, UNK)
        if isinstance(e, ast.UnaryOp):
            v = self.eval(e.operand, env)
            if isinstance(e.op, ast.Not):
                return Val(EMPTY, frozenset([K_BOOL]))
            if v.kinds <= {K_INT, K_NUM, K_BOOL} and v.kinds != UNK:
                return Val(EMPTY, v.kinds)
            return Val(EMPTY, UNK)
        if isinstance(e, ast.Compare):
            return Val(EMPTY, UNK)
        if isinstance(e, ast.JoinedStr):
            return Val(EMPTY, frozenset([K_STR]))
        if isinstance(e, ast.Slice):
            return Val(EMPTY, frozenset([K_SLICE]))
        return Val(EMPTY, UNK)

    def eval_call(self, c: ast.Call, env) -> Val:
        fn = c.func
        m = self.m
        dotted = m.expr_dotted(self.f.module, fn) if isinstance(fn, (ast.Name, ast.Attribute)) else None
        # builtins / shallow containers
        if isinstance(fn, ast.Name) and fn.id not in env:
            if fn.id in T.SHALLOW_FUNCS and m.resolve_name(self.f.module, fn.id) is None:
                o = set()
                for a in c.args:
                    o |= self.eval(a.value if isinstance(a, ast.Starred) else a, env).orig
                kind = {"list": K_LIST, "sorted": K_LIST, "tuple": K_TUPLE, "set": K_LIST}.get(fn.id)
                return Val(frozenset(o), frozenset([kind]) if kind else UNK)
            if fn.id == "slice":
                return Val(EMPTY, frozenset([K_SLICE]))
            if fn.id in ("int", "len", "round"):
                return Val(EMPTY, frozenset([K_INT]))
            if fn.id in ("float", "abs", "max", "min", "sum", "complex", "pow"):
                return Val(EMPTY, frozenset([K_NUM]))
            if fn.id in ("str", "repr", "format"):
                return Val(EMPTY, frozenset([K_STR]))
            if fn.id in ("bool", "isinstance", "hasattr", "callable", "all", "any", "issubclass"):
                return Val(EMPTY, frozenset([K_BOOL]))
            if fn.id == "dict":
                return Val(EMPTY, frozenset([K_DICT]))
            if fn.id == "range":
                return Val(EMPTY, frozenset([K_LIST]))
            if fn.id == "getattr" and c.args:
                return Val(frozenset(o_field(o, "?") for o in self.eval(c.args[0], env).orig), UNK)
        if dotted:
            if dotted.startswith("numpy."):
                name = dotted[6:]
                if name in T.VIEW_FUNCS and c.args:
                    v = self.eval(c.args[0], env)
                    return Val(v.orig, frozenset([K_ARR]))
                if name.split(".")[-1] in T.ARRAY_MAKERS:
                    if name in ("array", "asarray") and any(kw.arg == "copy" for kw in c.keywords):
                        pass
                    return Val(EMPTY, frozenset([K_ARR]))
                return Val(EMPTY, UNK)
            if dotted == "copy.copy" and c.args:
                return Val(self.eval(c.args[0], env).orig, UNK)     # shallow: shares the elements
            if dotted == "copy.deepcopy":
                return Val(EMPTY, UNK)
        callees = self.ctx.callees(self.f, c, self.cls)
        if callees:
            out = Val(EMPTY, frozenset())
            for g in callees:
                out = out.join(self.apply_summary_value(c, g, env))
            return Val(out.orig, out.kinds or UNK)
        if isinstance(fn, ast.Attribute):
            recv = self.eval(fn.value, env)
            if fn.attr in T.VIEW_METHODS:
                return Val(recv.orig, frozenset([K_ARR]) if recv.orig else UNK)
            if fn.attr == "astype" and any(k.arg == "copy" and isinstance(k.value, ast.Constant) and k.value.value is False
                                           for k in c.keywords):
                # astype(..., copy=False) hands back the array itself whenever no conversion is needed
                return Val(recv.orig, frozenset([K_ARR]) if recv.orig else UNK)
            if fn.attr in T.FRESH_METHODS:
                return Val(EMPTY, frozenset([K_ARR]) if fn.attr in ("copy", "astype", "flatten", "toarray",
                                                                     "todense") else UNK)
            if fn.attr in ("get", "pop", "setdefault", "items", "values", "keys") and recv.orig:
                return Val(recv.orig, UNK)
            if fn.attr == "__getitem__" and recv.orig:
                return Val(recv.orig, UNK)
        # Signal(...) and other external constructors / functions: fresh
        if isinstance(fn, ast.Name) and dotted and dotted.endswith(".Signal"):
            return Val(frozenset([("newsig", getattr(c, "lineno", 0))]), UNK)
        return Val(EMPTY, UNK)

    def apply_summary_value(self, c: ast.Call, g: FuncInfo, env) -> Val:
        m = self.m
        if is_memoised(g):
            # every caller receives the same object: treat the result as shared memory
            return Val(frozenset([("shared", g.qual)]), UNK)
        if g.name == "__init__" and isinstance(c.func, (ast.Name, ast.Attribute)) and not (
                isinstance(c.func, ast.Attribute) and c.func.attr == "__init__"):
            # constructor call: fresh object that may retain some arguments
            d = m.expr_dotted(self.f.module, c.func) if isinstance(c.func, ast.Attribute) else \
                m.resolve_name(self.f.module, c.func.id)
            if d and d.endswith("core_objects.Signal"):
                return Val(frozenset([("newsig", getattr(c, "lineno", 0))]), UNK)
            summ = self.ctx.summary(g, m.classes.get(d) if d in m.classes else None)
            args = self.bind_args(c, g, env)
            o = set()
            for p in summ.stores:
                if p in args:
                    o |= args[p].orig
            return Val(frozenset(o), UNK)
        summ = self.ctx.summary(g, self.cls if (g.cls is not None and self.cls is not None and
                                                m.is_subclass(self.cls, g.cls)) else None)
        args = self.bind_args(c, g, env)
        o = set()
        for p in summ.ret_alias:
            if p in args:
                o |= args[p].orig
        recv = self.receiver_val(c, g, env)
        if recv is not None:
            is_self_call = any(x == SELF for x in recv.orig)
            if summ.ret_self:
                o |= recv.orig
            for a in summ.ret_self_attrs:
                if is_self_call:
                    o |= self.read_attr(a).orig
                else:
                    o |= {o_field(x, a) for x in recv.orig if x != SELF}
        return Val(frozenset(o), UNK)


def is_memoised(g: FuncInfo) -> bool:
    for d in g.node.decorator_list:
        t = ast.unparse(d)
        if "lru_cache" in t or t.split("(")[0].split(".")[-1] in ("cache", "cached_property", "memoize", "memoized"):
            return True
    return False


def join_env(a: Dict[str, Val], b: Dict[str, Val]) -> Dict[str, Val]:
    if a is b:
        return a
    out = dict(a)
    for k, v in b.items():
        if k in out:
            if out[k] != v:
                out[k] = out[k].join(v)
        else:
            out[k] = v
    return out


def env_join_opt(a, b):
    return join_env(a, b)


def protected_hits(origins: Iterable[Origin], patterns: Iterable[Origin]) -> List[Origin]:
    pats = list(patterns)
    return [o for o in origins if any(matches(o, p) or matches(root_of_sig(o), p) for p in pats)]


def root_of_sig(o: Origin) -> Origin:
    return o
