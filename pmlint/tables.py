"""Frozen tables: NumPy/SciPy view-vs-copy semantics, mutation sinks, and single-symbol exemptions (each with a
one-line reason).  No suppression is wider than one named symbol."""

# attribute reads that return a view of (or the same memory as) the object
VIEW_ATTRS = {"T", "real", "imag", "flat", "base", "H", "mT"}

# methods returning a view of (or the same object as) the receiver.  `.conj()/.conjugate()` return the *same
# object* for real input in NumPy, so they are view-preserving here.
VIEW_METHODS = {"reshape", "ravel", "view", "squeeze", "transpose", "swapaxes", "diagonal", "conj", "conjugate",
                "__array__", "setflags", "newbyteorder"}

# numpy functions returning a view of / the same memory as their first argument
VIEW_FUNCS = {"asarray", "asanyarray", "atleast_1d", "atleast_2d", "atleast_3d", "ravel", "reshape", "squeeze",
              "transpose", "real", "imag", "broadcast_to", "expand_dims", "moveaxis", "swapaxes",
              "ascontiguousarray", "asfortranarray", "conj", "conjugate", "diagonal", "diag", "rollaxis",
              "require", "array_split", "split", "hsplit", "vsplit", "nditer", "flatiter", "real_if_close",
              "asmatrix", "nan_to_num_inplace"}

# builtins returning a (shallow) container over the same elements
SHALLOW_FUNCS = {"list", "tuple", "zip", "enumerate", "reversed", "iter", "sorted", "set", "frozenset", "next",
                 "_parse_to_list"}

# in-place mutating methods of ndarrays / lists / dicts / sets
MUT_METHODS = {"fill", "sort", "partition", "resize", "itemset", "put", "clear", "append", "extend", "insert",
               "pop", "remove", "reverse", "update", "setdefault", "popitem", "add", "discard", "setfield",
               "byteswap", "sum_duplicates", "eliminate_zeros", "sort_indices", "setdiag", "cholesky_inplace"}
# container-level mutators: on a list built inside the function they change the container, not the elements
CONTAINER_MUTATORS = {"append", "extend", "insert", "pop", "remove", "reverse", "clear", "sort", "update",
                      "setdefault", "popitem", "add", "discard"}

# numpy functions that write into their first argument
MUT_FUNCS_ARG0 = {"add.at", "subtract.at", "multiply.at", "divide.at", "maximum.at", "minimum.at", "put",
                  "place", "putmask", "copyto", "fill_diagonal", "put_along_axis", "random.shuffle"}

# methods that always return fresh memory
FRESH_METHODS = {"copy", "astype", "flatten", "tolist", "todense", "toarray", "tocsc", "tocsr", "tocoo", "item",
                 "sum", "dot", "min", "max", "mean", "cumsum", "nonzero", "__format__", "format", "lower",
                 "upper", "split", "join", "strip"}

# index-expression constructors whose result is an (integer/boolean) array => advanced indexing => copy
ARRAY_MAKERS = {"argwhere", "arange", "array", "asarray", "zeros", "ones", "zeros_like", "ones_like", "empty",
                "full", "where", "nonzero", "flatnonzero", "setdiff1d", "union1d", "intersect1d", "unique",
                "argsort", "concatenate", "hstack", "vstack", "stack", "kron", "meshgrid", "ix_", "isin",
                "logical_and", "logical_or", "logical_not", "bitwise_or", "bitwise_and", "bitwise_not", "pad",
                "repeat", "tile", "cumsum", "linspace", "indices", "count_nonzero", "sqrt", "maximum", "minimum",
                "clip", "abs", "absolute", "sum", "prod", "dot", "outer", "eye", "identity", "block", "copy",
                "append", "ascontiguousarray", "expand_dims", "squeeze", "real", "imag", "conj", "flatten",
                "ravel", "reshape", "transpose", "einsum", "zeros_like"}

# ------------------------------------------------------------------------------------------------ exemptions
# (class, attribute) -> reason.  Attributes a `_sensitivity` closure may write / mutate (R-EFF-SELF) because they
# are caches of that closure itself.
SELF_CACHE = {
    ("EigenSolve", "solvers"): "adjoint factorisation cache: created and refreshed inside the sensitivity "
                               "closure itself, refreshed whenever `adjoint_solvers_need_update` (set by every "
                               "_response) is true",
}

# (class, attribute) -> reason.  Documented value memories exempt from R-LATCH / R-FRESH (property C03's own text).
DOCUMENTED_MEMORY = {
    ("Scaling", "sf"): "Scaling normalises by its first value (documented; C03 names it as an exception)",
    ("AggScaling", "sf"): "damped AggScaling keeps its previous scale factor (documented; C03 exception)",
    ("Aggregation", "sf"): "holds the value returned by the AggScaling strategy (documented memory, C03 exception)",
    ("FigModule", "iter"): "iteration counter of a figure writer (C03 exception: counters of writers)",
    ("WriteToVTI", "iter"): "iteration counter of a writer (C03 exception)",
    ("ScalarToFile", "iter"): "iteration counter of a writer (C03 exception)",
}

# classes whose response is an output device (figures / files); they own GUI handles and counters
WRITER_CLASSES = {"FigModule", "PlotDomain", "PlotGraph", "PlotIter", "WriteToVTI", "ScalarToFile"}

# solver classes whose solve() is the identity preconditioner and ignores `trans`
TRANS_INDEPENDENT = {"Preconditioner": "identity preconditioner: M = I, so Mx=b, M^T x=b, M^H x=b coincide"}
