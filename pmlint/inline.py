"""Load-time normalisation: small private helpers are inlined at their call sites (analysis copy only).

"Extract method" is the most common behaviour-preserving refactoring; every rule that reasons about one function's
statements (dominance, must-pass-through, expression shapes) would otherwise have to follow calls itself.  The helper
definitions stay in the tree (rules anchored on them still find them); call sites in *other* functions of the same
module are replaced by the renamed body:

    x = self._h(a, b)        ->   <params bound>; <body with `return e` turned into `x = e`, single exit>
    self._h(a)               ->   <body>
    return self._h(a)        ->   <body>; return _r
    for t in self._gen(a):   ->   <setup>; for i in it: <loop body>; t = <yielded>; <caller body>

Inlined only when it is unambiguous and structurally simple: the helper is a private (underscore, non-dunder, non-hook)
module-level function or a method whose name is defined exactly once in the module, undecorated (or @staticmethod), not
recursive, without nested defs / global / try-wrapped returns, at most MAX_STMTS statements, called with plain
positional / keyword arguments.  Everything else is left as a call (the rules' own interprocedural summaries apply)."""
from __future__ import annotations

import ast
import copy
from typing import Dict, List, Optional, Set, Tuple

MAX_STMTS = 45
HOOKS = {"_prepare", "_response", "_sensitivity", "_reset", "_err_str", "_init_loc"}


def _count_stmts(fn: ast.FunctionDef) -> int:
    return sum(1 for n in ast.walk(fn) if isinstance(n, ast.stmt)) - 1


def _walk_own(node):
    """ast.walk that does not enter nested function definitions (their returns / yields are their own)"""
    stack = [node]
    while stack:
        n = stack.pop()
        yield n
        for c in ast.iter_child_nodes(n):
            if isinstance(c, (ast.FunctionDef, ast.AsyncFunctionDef, ast.Lambda)):
                continue
            stack.append(c)


def _has_yield(fn) -> bool:
    return any(isinstance(n, (ast.Yield, ast.YieldFrom)) for n in _walk_own(fn))


def _body_without_doc(fn: ast.FunctionDef) -> List[ast.stmt]:
    b = fn.body
    if b and isinstance(b[0], ast.Expr) and isinstance(b[0].value, ast.Constant) and isinstance(b[0].value.value, str):
        return b[1:]
    return b


def _returns_ok(stmts: List[ast.stmt]) -> bool:
    """Returns occur only at the end of statement lists or inside if/else (convertible to single exit)."""
    for st in stmts:
        if isinstance(st, (ast.For, ast.While, ast.Try, ast.With)):
            if any(isinstance(x, ast.Return) for x in _walk_own(st)):
                return False
        elif isinstance(st, ast.If):
            if not _returns_ok(st.body) or not _returns_ok(st.orelse):
                return False
    return True


def _always_returns(stmts: List[ast.stmt]) -> bool:
    if not stmts:
        return False
    last = stmts[-1]
    if isinstance(last, (ast.Return, ast.Raise)):
        return True
    if isinstance(last, ast.If):
        return _always_returns(last.body) and _always_returns(last.orelse)
    return False


def _single_exit(stmts: List[ast.stmt], result: Optional[str]) -> List[ast.stmt]:
    """`return e` -> `result = e`; statements after an `if` whose body always returns move into its else branch."""
    out: List[ast.stmt] = []
    for i, st in enumerate(stmts):
        if isinstance(st, ast.Return):
            if result is not None:
                val = st.value if st.value is not None else ast.Constant(value=None)
                out.append(ast.copy_location(ast.Assign(targets=[_result_target(result)], value=val), st))
            elif st.value is not None and not isinstance(st.value, (ast.Constant, ast.Name)):
                out.append(ast.copy_location(ast.Expr(value=st.value), st))
            return out
        if isinstance(st, ast.If) and any(isinstance(x, ast.Return) for x in _walk_own(st)):
            rest = stmts[i + 1:]
            body = _single_exit(st.body, result)
            if _always_returns(st.body):
                orelse = _single_exit(list(st.orelse) + rest, result)
                new = ast.If(test=st.test, body=body or [ast.Pass()], orelse=orelse)
                out.append(ast.copy_location(new, st))
                return out
            if _always_returns(st.orelse):
                orelse = _single_exit(st.orelse, result)
                body = _single_exit(list(st.body) + rest, result)
                new = ast.If(test=st.test, body=body or [ast.Pass()], orelse=orelse)
                out.append(ast.copy_location(new, st))
                return out
            # a branch may or may not return: duplicate the rest into both branches
            body = _single_exit(list(st.body) + rest, result)
            orelse = _single_exit(list(st.orelse) + rest, result)
            out.append(ast.copy_location(ast.If(test=st.test, body=body or [ast.Pass()], orelse=orelse), st))
            return out
        out.append(st)
    if result is not None and not _always_returns(stmts):
        # falling off the end returns None
        loc = stmts[-1] if stmts else None
        a = ast.Assign(targets=[_result_target(result)], value=ast.Constant(value=None))
        out.append(ast.copy_location(a, loc) if loc is not None else a)
    return out


def _result_target(result) -> ast.expr:
    if isinstance(result, str):
        return ast.Name(id=result, ctx=ast.Store())
    return copy.deepcopy(result)


class _Rename(ast.NodeTransformer):
    def __init__(self, ren: Dict[str, ast.AST]):
        self.ren = ren

    def visit_Name(self, n: ast.Name):
        r = self.ren.get(n.id)
        if r is None:
            return n
        if isinstance(r, str):
            return ast.copy_location(ast.Name(id=r, ctx=n.ctx), n)
        if isinstance(n.ctx, ast.Load):
            return ast.copy_location(copy.deepcopy(r), n)
        return n

    def visit_FunctionDef(self, n):
        # a closure defined in the helper: its own name is a local of the helper, its parameters and locals shadow
        r = self.ren.get(n.name)
        if isinstance(r, str):
            n.name = r
        shadow = {a.arg for a in n.args.args + n.args.kwonlyargs} | _bound_names(n)
        sub = _Rename({k: v for k, v in self.ren.items() if k not in shadow})
        n.body = [sub.visit(b) for b in n.body]
        return n

    def visit_Lambda(self, n):
        # parameters of the lambda shadow
        shadow = {a.arg for a in n.args.args}
        sub = _Rename({k: v for k, v in self.ren.items() if k not in shadow})
        n.body = sub.visit(n.body)
        return n


def _bound_names(fn: ast.FunctionDef) -> Set[str]:
    out = set()
    for n in ast.walk(fn):
        if isinstance(n, ast.Name) and isinstance(n.ctx, (ast.Store, ast.Del)):
            out.add(n.id)
        if isinstance(n, ast.FunctionDef) and n is not fn:
            out.add(n.name)
    return out


class Helper:
    def __init__(self, fn: ast.FunctionDef, is_method: bool, static: bool, cls: Optional[str]):
        self.fn, self.is_method, self.static, self.cls = fn, is_method, static, cls
        self.generator = _has_yield(fn)


def _simple_generator(h: Helper) -> Optional[Tuple[List[ast.stmt], ast.For, ast.AST]]:
    """(setup statements, the loop, the yielded expression) for  <setup>; for t in it: <stmts>; yield e"""
    body = _body_without_doc(h.fn)
    if not body or not isinstance(body[-1], ast.For):
        return None
    lp = body[-1]
    setup = body[:-1]
    if any(isinstance(x, (ast.Yield, ast.YieldFrom, ast.Return)) for s in setup for x in ast.walk(s)) or lp.orelse:
        return None
    if not lp.body or not (isinstance(lp.body[-1], ast.Expr) and isinstance(lp.body[-1].value, ast.Yield)):
        return None
    if sum(1 for x in ast.walk(lp) if isinstance(x, (ast.Yield, ast.YieldFrom))) != 1:
        return None
    if any(isinstance(x, (ast.Continue, ast.Break, ast.Return)) for s in lp.body for x in ast.walk(s)):
        return None
    return setup, lp, lp.body[-1].value.value


def collect_helpers(tree: ast.Module) -> Dict[Tuple[Optional[str], str], Helper]:
    cands: Dict[Tuple[Optional[str], str], Helper] = {}
    method_names: Dict[str, int] = {}
    for st in tree.body:
        if isinstance(st, ast.ClassDef):
            for b in st.body:
                if isinstance(b, ast.FunctionDef):
                    method_names[b.name] = method_names.get(b.name, 0) + 1

    def ok(fn: ast.FunctionDef) -> Optional[bool]:
        """None = not inlinable; True = static"""
        if not fn.name.startswith("_") or (fn.name.startswith("__") and fn.name.endswith("__")) or fn.name in HOOKS:
            return None
        static = False
        for d in fn.decorator_list:
            if isinstance(d, ast.Name) and d.id == "staticmethod":
                static = True
            elif isinstance(d, ast.Name) and d.id == "classmethod":
                pass        # `cls` is bound like `self`: to the receiver of the call (instance or class name)
            else:
                return None
        a = fn.args
        if a.kwarg or a.posonlyargs:
            return None
        if _count_stmts(fn) > MAX_STMTS:
            return None
        for n in ast.walk(fn):
            if n is not fn and isinstance(n, (ast.ClassDef, ast.AsyncFunctionDef, ast.Global, ast.Nonlocal)):
                return None
            if n is not fn and isinstance(n, ast.FunctionDef) and (n.decorator_list or n.args.vararg or n.args.kwarg
                                                                   or n.args.defaults or n.args.kw_defaults):
                return None
            if isinstance(n, ast.Call) and isinstance(n.func, ast.Name) and n.func.id in ("locals", "vars", "eval", "exec", "super"):
                return None
            if isinstance(n, ast.Call) and ((isinstance(n.func, ast.Name) and n.func.id == fn.name) or
                                            (isinstance(n.func, ast.Attribute) and n.func.attr == fn.name)):
                return None        # recursive
        return static
    for st in tree.body:
        if isinstance(st, ast.FunctionDef):
            s = ok(st)
            if s is not None:
                h = Helper(st, False, False, None)
                if h.generator and _simple_generator(h) is None:
                    continue
                if not h.generator and not _returns_ok(_body_without_doc(st)):
                    continue
                cands[(None, st.name)] = h
        elif isinstance(st, ast.ClassDef):
            for b in st.body:
                if isinstance(b, ast.FunctionDef) and method_names.get(b.name, 0) == 1:
                    s = ok(b)
                    if s is None:
                        continue
                    h = Helper(b, True, s, st.name)
                    if h.generator and _simple_generator(h) is None:
                        continue
                    if not h.generator and not _returns_ok(_body_without_doc(b)):
                        continue
                    cands[("M", b.name)] = h
                elif isinstance(b, ast.FunctionDef) and method_names.get(b.name, 0) > 1:
                    # an override family (template method + hook overridden in a subclass): resolved through the class of
                    # the calling method, see _match_call
                    s = ok(b)
                    if s is None or s:
                        continue
                    h = Helper(b, True, s, st.name)
                    if h.generator or not _returns_ok(_body_without_doc(b)):
                        continue
                    cands[("C", st.name, b.name)] = h
    return cands


def _module_classes(tree: ast.Module) -> Dict[str, ast.ClassDef]:
    return {st.name: st for st in tree.body if isinstance(st, ast.ClassDef)}


def _local_mro(classes: Dict[str, ast.ClassDef], name: str) -> List[str]:
    """linearisation over the classes of this module (depth-first, first occurrence kept; single inheritance in practice)"""
    out: List[str] = []

    def go(n):
        if n in out or n not in classes:
            return
        out.append(n)
        for b in classes[n].bases:
            if isinstance(b, ast.Name):
                go(b.id)
    go(name)
    return out


def _defines(cls: ast.ClassDef, name: str) -> bool:
    return any(isinstance(b, ast.FunctionDef) and b.name == name for b in cls.body)


def specialise_templates(tree: ast.Module) -> int:
    """Template methods: a method M of a base class B that calls `self._hook()` where a subclass D of the same module
    overrides the private hook, and D inherits M.  D gets its own copy of M (analysis copy only), so that every
    `self._hook()` can be resolved statically through the class that contains the calling method."""
    classes = _module_classes(tree)
    n = 0
    for dname, D in classes.items():
        mro = _local_mro(classes, dname)
        for k, bname in enumerate(mro[1:], start=1):
            B = classes[bname]
            for M in list(B.body):
                if not isinstance(M, ast.FunctionDef) or (M.name.startswith("__") and M.name.endswith("__")):
                    continue
                if any(_defines(classes[c], M.name) for c in mro[:k]):
                    continue            # overridden on the way down
                if not M.args.args or any(isinstance(d, ast.Name) and d.id in ("staticmethod", "classmethod") for d in M.decorator_list):
                    continue
                selfn = M.args.args[0].arg
                hooks = {x.func.attr for x in ast.walk(M) if isinstance(x, ast.Call) and isinstance(x.func, ast.Attribute)
                         and isinstance(x.func.value, ast.Name) and x.func.value.id == selfn and x.func.attr.startswith("_")
                         and not x.func.attr.startswith("__") and x.func.attr not in HOOKS}
                differs = False
                for h in hooks:
                    where_d = next((c for c in mro if _defines(classes[c], h)), None)
                    where_b = next((c for c in mro[k:] if _defines(classes[c], h)), None)
                    if where_d is not None and where_d != where_b:
                        differs = True
                if differs:
                    cp = copy.deepcopy(M)
                    cp._pmlint_specialised = True      # type: ignore[attr-defined]
                    D.body.append(cp)
                    n += 1
    return n


class _Ctx:
    def __init__(self):
        self.k = 0
        self.owner = ""
        self.log: List[Tuple[str, str]] = []       # (caller function, helper) for every call that was inlined


_CALLABLE_LOCALS: Set[str] = set()
_CUR: Dict[str, object] = {"cls": None, "mro": [], "classes": {}, "fn": "", "src": ""}


def _star_only(c: ast.Call) -> bool:
    """h(*t) with t a plain name and nothing else: the positional parameters are t[0], t[1], ..."""
    return len(c.args) == 1 and isinstance(c.args[0], ast.Starred) and isinstance(c.args[0].value, ast.Name) and not c.keywords


def _match_call(c: ast.Call, helpers, self_name: Optional[str], module_funcs: Set[str]) -> Optional[Tuple[Helper, Optional[ast.AST]]]:
    if (any(isinstance(a, ast.Starred) for a in c.args) and not _star_only(c)) or any(k.arg is None for k in c.keywords):
        return None
    # higher-order use (a callback is handed in): the helper is a shared routine parameterised per call site, which the
    # rules analyse as a unit - never inlined
    for a in list(c.args) + [k.value for k in c.keywords]:
        if isinstance(a, ast.Lambda) or (isinstance(a, ast.Name) and a.id in _CALLABLE_LOCALS):
            return None
    if isinstance(c.func, ast.Name) and (None, c.func.id) in helpers:
        return helpers[(None, c.func.id)], None
    if isinstance(c.func, ast.Attribute) and isinstance(c.func.value, ast.Name) and c.func.value.id == self_name \
            and ("M", c.func.attr) not in helpers and _CUR["cls"] is not None:
        # hook of an override family: the definition the class of the calling method resolves to
        for k_ in _CUR["mro"]:
            if ("C", k_, c.func.attr) in helpers:
                if f"super().{_CUR['fn']}(" in _CUR["src"]:
                    return None        # the caller may run on behalf of a subclass (super().m()): dispatch not static
                return helpers[("C", k_, c.func.attr)], c.func.value
            if k_ in _CUR["classes"] and _defines(_CUR["classes"][k_], c.func.attr):
                return None            # resolves to a definition that is not inlinable
        return None
    if isinstance(c.func, ast.Attribute) and ("M", c.func.attr) in helpers:
        h = helpers[("M", c.func.attr)]
        recv = c.func.value
        # self._h(...)  /  ClassName._h(...) for static helpers
        is_cm = any(isinstance(d, ast.Name) and d.id == "classmethod" for d in h.fn.decorator_list)
        if isinstance(recv, ast.Name) and (recv.id == self_name or ((h.static or is_cm) and recv.id == h.cls)):
            return h, recv
    return None


def _expand(c: ast.Call, h: Helper, recv: Optional[ast.AST], result: Optional[str], ctx: _Ctx, at: ast.AST) -> Optional[List[ast.stmt]]:
    fn = h.fn
    ctx.k += 1
    ctx.log.append((ctx.owner, fn.name))
    tag = f"__{fn.name.strip('_')}{ctx.k}"
    params = [a.arg for a in fn.args.args]
    defaults = fn.args.defaults
    kwonly = [a.arg for a in fn.args.kwonlyargs]
    bind: Dict[str, ast.AST] = {}
    formal = list(params)
    self_param = None
    if h.is_method and not h.static:
        if not formal:
            return None
        self_param = formal.pop(0)
    cargs = list(c.args)
    vararg = fn.args.vararg.arg if fn.args.vararg else None
    extra_args: List[ast.AST] = []
    if vararg is not None:
        if _star_only(c) or vararg in _bound_names(fn):
            return None
        extra_args, cargs = cargs[len(formal):], cargs[:len(formal)]
    if _star_only(c):
        if defaults or kwonly:
            return None
        cargs = [ast.copy_location(ast.Subscript(value=copy.deepcopy(c.args[0].value), slice=ast.Constant(value=k_), ctx=ast.Load()), c)
                 for k_ in range(len(formal))]
    if len(cargs) > len(formal):
        return None
    for p, a in zip(formal, cargs):
        bind[p] = a
    for k in c.keywords:
        if k.arg in bind or (k.arg not in formal and k.arg not in kwonly):
            return None
        bind[k.arg] = k.value
    # defaults
    nd = len(defaults)
    for i, p in enumerate(params[len(params) - nd:] if nd else []):
        if p not in bind and p != self_param:
            bind[p] = defaults[i]
    for p, d in zip(kwonly, fn.args.kw_defaults):
        if p not in bind:
            if d is None:
                return None
            bind[p] = d
    if any(p not in bind for p in formal):
        return None
    bound = _bound_names(fn)
    ren: Dict[str, object] = {}
    pre: List[ast.stmt] = []
    for p in formal + kwonly:
        a = bind[p]
        simple = isinstance(a, (ast.Name, ast.Constant)) or (isinstance(a, ast.Attribute) and isinstance(a.value, ast.Name))
        if simple and p not in bound:
            ren[p] = a                      # substitute directly
        else:
            new = p + tag
            ren[p] = new
            st = ast.Assign(targets=[ast.Name(id=new, ctx=ast.Store())], value=copy.deepcopy(a))
            pre.append(ast.copy_location(st, at))
    if self_param is not None:
        ren[self_param] = recv if recv is not None else ast.Name(id=self_param, ctx=ast.Load())
    if vararg is not None:
        # *rest: the tuple of the remaining positional arguments, written out
        ren[vararg] = ast.copy_location(ast.Tuple(elts=[copy.deepcopy(x) for x in extra_args], ctx=ast.Load()), at)
    for nme in bound:
        if nme not in ren:
            ren[nme] = nme + tag
    body = copy.deepcopy(_body_without_doc(fn))
    if h.generator:
        return None
    placeholder = None
    if result is not None:
        placeholder = "_pmlint_result_"
    body = _single_exit(body, placeholder)
    rn = _Rename(ren)
    body = [rn.visit(s) for s in body]
    if placeholder:
        # the caller's own assignment target takes the place of every `return e` (after renaming: it is caller-side code
        # and must not be confused with a local of the helper that happens to have the same name)
        for s_ in body:
            for x in ast.walk(s_):
                if isinstance(x, ast.Assign) and len(x.targets) == 1 and isinstance(x.targets[0], ast.Name) and \
                        x.targets[0].id == placeholder:
                    x.targets = [ast.Name(id=result, ctx=ast.Store()) if isinstance(result, str) else copy.deepcopy(result)]
    out = pre + body
    for s in out:
        ast.fix_missing_locations(s)
    return out


def _find_inline_calls(st: ast.stmt, helpers, self_name, mf) -> List[Tuple[ast.Call, Helper, Optional[ast.AST], bool]]:
    """The inlinable calls of a simple statement in evaluation order (innermost / leftmost first), each with a flag telling
    whether it is evaluated only conditionally (branch of a conditional expression, tail of and/or, comprehension)."""
    hits = []

    def walk(e, guarded):
        if isinstance(e, ast.Lambda):
            return
        if isinstance(e, (ast.ListComp, ast.SetComp, ast.DictComp, ast.GeneratorExp)):
            for ch in ast.iter_child_nodes(e):
                walk(ch, True)
            return
        if isinstance(e, ast.IfExp):
            walk(e.test, guarded)
            walk(e.body, True)
            walk(e.orelse, True)
            return
        if isinstance(e, ast.BoolOp):
            walk(e.values[0], guarded)
            for v in e.values[1:]:
                walk(v, True)
            return
        for ch in ast.iter_child_nodes(e):
            walk(ch, guarded)
        if isinstance(e, ast.Call):
            m = _match_call(e, helpers, self_name, mf)
            if m is not None and not m[0].generator:
                hits.append((e, m[0], m[1], guarded))
    if isinstance(st, ast.Expr):
        walk(st.value, False)
    elif isinstance(st, (ast.Assign, ast.AnnAssign, ast.AugAssign, ast.Return)):
        if st.value is not None:
            walk(st.value, False)
    elif isinstance(st, ast.If):
        walk(st.test, False)
    elif isinstance(st, ast.For):
        walk(st.iter, False)
    return hits


_PURE = (ast.Name, ast.Attribute, ast.Subscript, ast.Constant, ast.BinOp, ast.UnaryOp, ast.Tuple, ast.Slice, ast.Compare,
         ast.expr_context, ast.operator, ast.unaryop, ast.cmpop, ast.Index if hasattr(ast, "Index") else ast.Slice)


def _is_pure(e: ast.AST) -> bool:
    return all(isinstance(x, _PURE) for x in ast.walk(e))


def _expand_expr(c: ast.Call, h: Helper, recv: Optional[ast.AST], ctx: _Ctx) -> Optional[ast.AST]:
    """`h(args)` as an expression, for a helper whose body is a single `return <expr>`: parameters are replaced by the
    argument expressions (possible when an argument is free of calls, or used at most once)."""
    fn = h.fn
    body = _body_without_doc(fn)
    if len(body) != 1 or not isinstance(body[0], ast.Return) or body[0].value is None or _star_only(c) or fn.args.vararg:
        return None
    params = [a.arg for a in fn.args.args]
    formal = list(params)
    self_param = None
    if h.is_method and not h.static:
        if not formal:
            return None
        self_param = formal.pop(0)
    kwonly = [a.arg for a in fn.args.kwonlyargs]
    if len(c.args) > len(formal):
        return None
    bind: Dict[str, ast.AST] = dict(zip(formal, c.args))
    for k in c.keywords:
        if k.arg in bind or (k.arg not in formal and k.arg not in kwonly):
            return None
        bind[k.arg] = k.value
    nd = len(fn.args.defaults)
    for i, p in enumerate(params[len(params) - nd:] if nd else []):
        if p not in bind and p != self_param:
            bind[p] = fn.args.defaults[i]
    for p, d in zip(kwonly, fn.args.kw_defaults):
        if p not in bind:
            if d is None:
                return None
            bind[p] = d
    if any(p not in bind for p in formal):
        return None
    bound = _bound_names(fn)
    expr = body[0].value
    uses: Dict[str, int] = {}
    for x in ast.walk(expr):
        if isinstance(x, ast.Name):
            uses[x.id] = uses.get(x.id, 0) + 1
    ren: Dict[str, object] = {}
    for p in formal + kwonly:
        if p in bound:
            return None
        if not _is_pure(bind[p]) and uses.get(p, 0) > 1:
            return None
        ren[p] = bind[p]
    if self_param is not None:
        ren[self_param] = recv if recv is not None else ast.Name(id=self_param, ctx=ast.Load())
    ctx.k += 1
    ctx.log.append((ctx.owner, fn.name))
    tag = f"__{fn.name.strip('_')}{ctx.k}"
    for nme in bound:
        ren[nme] = nme + tag
    return _Rename(ren).visit(copy.deepcopy(expr))


def _plain_target(t: ast.AST) -> bool:
    """x / self.x / (x, self.y, ...): targets whose evaluation has no effect of its own"""
    if isinstance(t, ast.Name):
        return True
    if isinstance(t, ast.Attribute):
        return isinstance(t.value, ast.Name)
    if isinstance(t, (ast.Tuple, ast.List)):
        return all(_plain_target(e) for e in t.elts)
    return False


class _ReplaceNode(ast.NodeTransformer):
    def __init__(self, old: ast.AST, new: ast.AST):
        self.old, self.new = old, new

    def generic_visit(self, node):
        if node is self.old:
            return self.new
        return super().generic_visit(node)

    def visit(self, node):
        if node is self.old:
            return self.new
        return super().visit(node)


def _inline_block(stmts: List[ast.stmt], helpers, self_name, mf, ctx: _Ctx, owner_name: str) -> Tuple[List[ast.stmt], bool]:
    out: List[ast.stmt] = []
    changed = False
    for st in stmts:
        # recurse into compound statements first
        for fld in ("body", "orelse", "finalbody"):
            sub = getattr(st, fld, None)
            if isinstance(sub, list) and sub and isinstance(sub[0], ast.stmt) and not isinstance(st, (ast.FunctionDef, ast.ClassDef)):
                new, ch = _inline_block(sub, helpers, self_name, mf, ctx, owner_name)
                setattr(st, fld, new)
                changed |= ch
        if isinstance(st, ast.Try):
            for hd in st.handlers:
                new, ch = _inline_block(hd.body, helpers, self_name, mf, ctx, owner_name)
                hd.body = new
                changed |= ch
        # generator loops
        if isinstance(st, ast.For) and isinstance(st.iter, ast.Call):
            m = _match_call(st.iter, helpers, self_name, mf)
            if m is not None and m[0].generator and m[0].fn.name != owner_name:
                fused = _fuse_generator(st, m[0], m[1], ctx)
                if fused is not None:
                    out += fused
                    changed = True
                    continue
        # a list comprehension whose element calls a multi-statement helper: spelled out as a loop, so that the helper
        # can be expanded in the loop body      T = [E for x in it if c]  ->  T = []; for x' in it: if c: T.append(E)
        if isinstance(st, ast.Assign) and len(st.targets) == 1 and isinstance(st.targets[0], ast.Name) and \
                isinstance(st.value, ast.ListComp) and len(st.value.generators) == 1 and not st.value.generators[0].is_async:
            hits0 = [h_ for h_ in _find_inline_calls(st, helpers, self_name, mf) if h_[1].fn.name != owner_name]
            body_hits = [h_ for h_ in hits0 if h_[3] and any(x is h_[0] for x in ast.walk(st.value.elt))]
            if body_hits and any(_expand_expr(copy.deepcopy(h_[0]), h_[1], h_[2], _Ctx()) is None for h_ in body_hits):
                g = st.value.generators[0]
                ctx.k += 1
                tag = f"__lc{ctx.k}"
                ren = {x.id: x.id + tag for x in ast.walk(g.target) if isinstance(x, ast.Name)}
                rn = _Rename(ren)
                tname = st.targets[0].id
                app = ast.Expr(value=ast.Call(func=ast.Attribute(value=ast.Name(id=tname, ctx=ast.Load()), attr="append", ctx=ast.Load()),
                                              args=[rn.visit(copy.deepcopy(st.value.elt))], keywords=[]))
                inner: List[ast.stmt] = [app]
                for cond in reversed(g.ifs):
                    inner = [ast.If(test=rn.visit(copy.deepcopy(cond)), body=inner, orelse=[])]
                loop = ast.For(target=rn.visit(copy.deepcopy(g.target)), iter=copy.deepcopy(g.iter), body=inner, orelse=[])
                init = ast.Assign(targets=[ast.Name(id=tname, ctx=ast.Store())], value=ast.List(elts=[], ctx=ast.Load()))
                for x_ in (init, loop):
                    ast.copy_location(x_, st)
                    ast.fix_missing_locations(x_)
                new_l, _ch = _inline_block([loop], helpers, self_name, mf, ctx, owner_name)
                out += [init] + new_l
                changed = True
                continue
        for _round in range(12):
            hits = [h_ for h_ in _find_inline_calls(st, helpers, self_name, mf) if h_[1].fn.name != owner_name]
            if not hits:
                break
            call, h, recv, guarded = hits[0]
            # a conditionally evaluated call can only be replaced in place (expression helpers)
            if guarded:
                sub = None
                for call, h, recv, guarded in hits:
                    sub = _expand_expr(call, h, recv, ctx)
                    if sub is not None:
                        break
                if sub is None:
                    break
                st = _ReplaceNode(call, sub).visit(st)
                ast.fix_missing_locations(st)
                changed = True
                continue
            # direct forms
            if isinstance(st, ast.Expr) and st.value is call:
                body = _expand(call, h, recv, None, ctx, st)
                if body is not None:
                    out += body or [ast.copy_location(ast.Pass(), st)]
                    changed = True
                    st = None
                break
            if isinstance(st, ast.Assign) and st.value is call and len(st.targets) == 1 and _plain_target(st.targets[0]):
                tg = st.targets[0]
                body = _expand(call, h, recv, tg.id if isinstance(tg, ast.Name) else tg, ctx, st)
                if body is not None:
                    out += body
                    changed = True
                    st = None
                break
            # an expression helper called with call-free arguments: in place
            sub = _expand_expr(call, h, recv, ctx) if all(_is_pure(a) for a in list(call.args) + [k.value for k in call.keywords]) else None
            if sub is not None:
                st = _ReplaceNode(call, sub).visit(st)
                ast.fix_missing_locations(st)
                changed = True
                continue
            # general: hoist the call into a temporary
            ctx.k += 1
            tmp = f"_r{ctx.k}__{h.fn.name.strip('_')}"
            body = _expand(call, h, recv, tmp, ctx, st)
            if body is None:
                break
            st = _ReplaceNode(call, ast.copy_location(ast.Name(id=tmp, ctx=ast.Load()), call)).visit(st)
            out += body
            changed = True
        if st is not None:
            out.append(st)
    return out, changed


def _fuse_generator(loop: ast.For, h: Helper, recv, ctx: _Ctx) -> Optional[List[ast.stmt]]:
    sg = _simple_generator(h)
    if sg is None or loop.orelse or h.fn.args.vararg:
        return None
    setup, glp, yielded = sg
    fn = h.fn
    c = loop.iter
    ctx.k += 1
    ctx.log.append((ctx.owner, fn.name))
    tag = f"__{fn.name.strip('_')}{ctx.k}"
    formal = [a.arg for a in fn.args.args]
    self_param = None
    if h.is_method and not h.static:
        self_param = formal.pop(0)
    if len(c.args) > len(formal) or c.keywords and any(k.arg not in formal for k in c.keywords):
        return None
    bind = dict(zip(formal, c.args))
    for k in c.keywords:
        bind[k.arg] = k.value
    nd = len(fn.args.defaults)
    allp = [a.arg for a in fn.args.args]
    for i, p in enumerate(allp[len(allp) - nd:] if nd else []):
        bind.setdefault(p, fn.args.defaults[i])
    if any(p not in bind for p in formal):
        return None
    bound = _bound_names(fn)
    ren: Dict[str, object] = {}
    pre: List[ast.stmt] = []
    for p in formal:
        a = bind[p]
        simple = isinstance(a, (ast.Name, ast.Constant)) or (isinstance(a, ast.Attribute) and isinstance(a.value, ast.Name))
        if simple and p not in bound:
            ren[p] = a
        else:
            ren[p] = p + tag
            pre.append(ast.copy_location(ast.Assign(targets=[ast.Name(id=p + tag, ctx=ast.Store())], value=copy.deepcopy(a)), loop))
    if self_param is not None:
        ren[self_param] = recv if recv is not None else ast.Name(id=self_param, ctx=ast.Load())
    for nme in bound:
        ren.setdefault(nme, nme + tag)
    rn = _Rename(ren)
    setup2 = [rn.visit(copy.deepcopy(s)) for s in setup]
    glp2 = rn.visit(copy.deepcopy(glp))
    inner = glp2.body[:-1]
    yv = glp2.body[-1].value.value
    assign = ast.copy_location(ast.Assign(targets=[copy.deepcopy(loop.target)], value=yv), loop)
    for x in ast.walk(assign.targets[0]):
        if isinstance(x, ast.Name):
            x.ctx = ast.Store()
    new_loop = ast.copy_location(ast.For(target=glp2.target, iter=glp2.iter, body=inner + [assign] + loop.body, orelse=[]), loop)
    out = pre + setup2 + [new_loop]
    for s in out:
        ast.fix_missing_locations(s)
    return out


def inline_helpers(tree: ast.Module, passes: int = 3) -> int:
    """Inline eligible private helpers of this module into their callers (in place); returns the number of passes that
    changed something."""
    n_changed = 0
    tree._pmlint_inlined = []       # type: ignore[attr-defined]
    specialise_templates(tree)
    _CUR["classes"] = _module_classes(tree)
    _CUR["src"] = ast.unparse(tree)
    for _ in range(passes):
        helpers = collect_helpers(tree)
        if not helpers:
            break
        mf = {k[1] for k in helpers if k[0] is None}
        changed_any = False
        ctx = _Ctx()
        ctx.k = n_changed * 1000

        def do_fn(fn: ast.FunctionDef):
            nonlocal changed_any
            ctx.owner = fn.name
            ctx.k = n_changed * 100          # tags count per caller: two callers inlining the same helper get equal names
            _CALLABLE_LOCALS.clear()
            for x in ast.walk(fn):
                if isinstance(x, ast.FunctionDef) and x is not fn:
                    _CALLABLE_LOCALS.add(x.name)
                if isinstance(x, ast.Assign) and isinstance(x.value, ast.Lambda):
                    _CALLABLE_LOCALS.update(t.id for t in x.targets if isinstance(t, ast.Name))
            a = fn.args
            pos = a.posonlyargs + a.args
            self_name = pos[0].arg if pos else None
            new, ch = _inline_block(fn.body, helpers, self_name, mf, ctx, fn.name)
            if ch:
                fn.body = new
                ast.fix_missing_locations(fn)
                changed_any = True
        for st in tree.body:
            if isinstance(st, ast.FunctionDef):
                _CUR["cls"], _CUR["mro"], _CUR["fn"] = None, [], st.name
                do_fn(st)
            elif isinstance(st, ast.ClassDef):
                for b in st.body:
                    if isinstance(b, ast.FunctionDef):
                        _CUR["cls"], _CUR["mro"], _CUR["fn"] = st.name, _local_mro(_CUR["classes"], st.name), b.name
                        do_fn(b)
        _CUR["cls"] = None
        tree._pmlint_inlined += ctx.log      # type: ignore[attr-defined]
        if not changed_any:
            break
        n_changed += 1
    return n_changed
