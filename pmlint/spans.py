"""Original (pre-normalisation) line spans of every function, used to attribute a finding that lies in code inlined
from a helper to the helper it was written in."""
from typing import Dict, List, Tuple

SPANS: Dict[str, List[Tuple[int, int, str]]] = {}      # file -> [(first line, last line, short qualified name)]
BY_QUAL: Dict[str, Tuple[str, int, int]] = {}          # short qualified name -> (file, first, last)


def reset():
    SPANS.clear()
    BY_QUAL.clear()


def record(file_rel: str, module_short: str, tree):
    import ast
    out = []

    def walk(node, prefix):
        for ch in ast.iter_child_nodes(node):
            if isinstance(ch, (ast.FunctionDef, ast.ClassDef)):
                q = f"{prefix}.{ch.name}" if prefix else ch.name
                if isinstance(ch, ast.FunctionDef):
                    out.append((ch.lineno, getattr(ch, "end_lineno", ch.lineno), q))
                    BY_QUAL[q] = (file_rel, ch.lineno, getattr(ch, "end_lineno", ch.lineno))
                walk(ch, q)
    walk(tree, module_short)
    SPANS[file_rel] = out


def attribute(file_rel: str, line: int, where: str) -> str:
    """`where` unless it names a function whose own source does not contain `line` while another function's does."""
    own = BY_QUAL.get(where)
    if own is None or not line:
        return where
    if own[0] == file_rel and own[1] <= line <= own[2]:
        return where
    best = None
    for lo, hi, q in SPANS.get(file_rel, ()):
        if lo <= line <= hi and (best is None or (hi - lo) < (best[1] - best[0])):
            best = (lo, hi, q)
    return best[2] if best else where
