"""Statement-level control-flow graphs for the statement kinds pyMOTO uses, with dominators, must-pass-through
queries, reachability, and a generic forward data-flow / typestate runner that is sensitive to correlated
boolean guards."""
from __future__ import annotations

import ast
from typing import Callable, Dict, FrozenSet, Iterable, List, Optional, Set, Tuple

# node kinds
ENTRY, EXIT, RAISE, STMT, TEST, FOR, WITH, HANDLER, JOIN = "entry", "exit", "raise", "stmt", "test", "for", "with", \
    "handler", "join"


class Node:
    __slots__ = ("id", "kind", "ast", "succ", "pred", "owner")

    def __init__(self, id_: int, kind: str, node: Optional[ast.AST], owner: Optional[ast.AST] = None):
        self.id = id_
        self.kind = kind
        self.ast = node          # STMT: the statement; TEST: the test expression; FOR: the ast.For; HANDLER: handler
        self.owner = owner       # enclosing statement (If / While / Assert for TEST)
        self.succ: List[Tuple["Node", Optional[str]]] = []
        self.pred: List[Tuple["Node", Optional[str]]] = []

    @property
    def lineno(self) -> int:
        n = self.ast if self.ast is not None else self.owner
        return getattr(n, "lineno", 0)

    def __repr__(self):
        t = ""
        if self.ast is not None:
            try:
                t = ast.unparse(self.ast).split("\n")[0][:50]
            except Exception:
                t = type(self.ast).__name__
        return f"<{self.id}:{self.kind} L{self.lineno} {t}>"


class CFG:
    def __init__(self, fn: ast.FunctionDef):
        self.fn = fn
        self.nodes: List[Node] = []
        self.entry = self._new(ENTRY, None)
        self.exit = self._new(EXIT, None)        # normal return (explicit or fall-through)
        self.raise_exit = self._new(RAISE, None)  # explicit raise / failed assert leaving the function
        self._loop_stack: List[Tuple[Node, List[Node]]] = []   # (continue target, break sources)
        self._try_stack: List[List[Node]] = []                 # handler entry nodes of enclosing try bodies
        self.stmt_nodes: Dict[int, Node] = {}                  # id(ast stmt) -> node
        outs = self._block(fn.body, [(self.entry, None)])
        for p, lab in outs:
            self._edge(p, self.exit, lab)
        self._dom: Optional[Dict[Node, Set[Node]]] = None

    # ------------------------------------------------------------------------------------- construction
    def _new(self, kind, node, owner=None) -> Node:
        n = Node(len(self.nodes), kind, node, owner)
        self.nodes.append(n)
        return n

    def _edge(self, a: Node, b: Node, label=None):
        if (b, label) not in a.succ:
            a.succ.append((b, label))
            b.pred.append((a, label))

    def _connect(self, preds, node: Node):
        for p, lab in preds:
            self._edge(p, node, lab)

    def _exc_edges(self, node: Node):
        """A statement inside a try body may transfer to any handler of the innermost enclosing try."""
        if self._try_stack:
            for h in self._try_stack[-1]:
                self._edge(node, h, "exc")

    def _block(self, stmts: List[ast.stmt], preds):
        for st in stmts:
            if not preds:
                break  # unreachable code is not part of the graph
            preds = self._stmt(st, preds)
        return preds

    def _stmt(self, st: ast.stmt, preds):
        if isinstance(st, ast.If):
            t = self._new(TEST, st.test, st)
            self.stmt_nodes[id(st)] = t
            self._connect(preds, t)
            self._exc_edges(t)
            o1 = self._block(st.body, [(t, "T")])
            o2 = self._block(st.orelse, [(t, "F")]) if st.orelse else [(t, "F")]
            return o1 + o2
        if isinstance(st, ast.While):
            t = self._new(TEST, st.test, st)
            self.stmt_nodes[id(st)] = t
            self._connect(preds, t)
            self._exc_edges(t)
            brk: List[Node] = []
            self._loop_stack.append((t, brk))
            body_out = self._block(st.body, [(t, "T")])
            self._loop_stack.pop()
            for p, lab in body_out:
                self._edge(p, t, lab)
            const_true = isinstance(st.test, ast.Constant) and bool(st.test.value)
            outs = [] if const_true else [(t, "F")]
            if st.orelse and outs:
                outs = self._block(st.orelse, outs)
            return outs + [(b, None) for b in brk]
        if isinstance(st, ast.For):
            h = self._new(FOR, st, st)
            self.stmt_nodes[id(st)] = h
            self._connect(preds, h)
            self._exc_edges(h)
            brk = []
            self._loop_stack.append((h, brk))
            body_out = self._block(st.body, [(h, "loop")])
            self._loop_stack.pop()
            for p, lab in body_out:
                self._edge(p, h, lab)
            outs = [(h, "done")]
            if st.orelse:
                outs = self._block(st.orelse, outs)
            return outs + [(b, None) for b in brk]
        if isinstance(st, ast.Try):
            handlers = [self._new(HANDLER, h, st) for h in st.handlers]
            pre = self._new(JOIN, None, st)
            self._connect(preds, pre)
            self._try_stack.append(handlers)
            for h in handlers:          # the exception may occur before the first statement completes
                self._edge(pre, h, "exc")
            body_out = self._block(st.body, [(pre, None)])
            self._try_stack.pop()
            if st.orelse:
                body_out = self._block(st.orelse, body_out)
            outs = list(body_out)
            for hn, h in zip(handlers, st.handlers):
                outs += self._block(h.body, [(hn, None)])
            if st.finalbody:
                outs = self._block(st.finalbody, outs)
            return outs
        if isinstance(st, ast.With):
            w = self._new(WITH, st, st)
            self.stmt_nodes[id(st)] = w
            self._connect(preds, w)
            self._exc_edges(w)
            return self._block(st.body, [(w, None)])
        if isinstance(st, ast.Assert):
            t = self._new(TEST, st.test, st)
            self.stmt_nodes[id(st)] = t
            self._connect(preds, t)
            self._edge(t, self.raise_exit, "F")
            self._exc_edges(t)
            return [(t, "T")]
        n = self._new(STMT, st, st)
        self.stmt_nodes[id(st)] = n
        self._connect(preds, n)
        if isinstance(st, ast.Return):
            self._edge(n, self.exit, None)
            self._exc_edges(n)
            return []
        if isinstance(st, ast.Raise):
            if self._try_stack:
                self._exc_edges(n)
            self._edge(n, self.raise_exit, None)
            return []
        if isinstance(st, ast.Break):
            if self._loop_stack:
                self._loop_stack[-1][1].append(n)
            return []
        if isinstance(st, ast.Continue):
            if self._loop_stack:
                self._edge(n, self._loop_stack[-1][0], None)
            return []
        self._exc_edges(n)
        return [(n, None)]

    # ------------------------------------------------------------------------------------------ queries
    def node_of(self, st: ast.AST) -> Optional[Node]:
        """CFG node of the statement that contains the given AST node."""
        n = st
        while n is not None:
            if id(n) in self.stmt_nodes:
                return self.stmt_nodes[id(n)]
            n = getattr(n, "_parent", None)
            if n is self.fn:
                break
        return None

    def reachable(self, start: Iterable[Node], blocked: Iterable[Node] = (), labels_excluded=()) -> Set[Node]:
        blocked = set(blocked)
        seen: Set[Node] = set()
        work = [s for s in start if s not in blocked]
        while work:
            n = work.pop()
            if n in seen:
                continue
            seen.add(n)
            for s, lab in n.succ:
                if lab in labels_excluded:
                    continue
                if s not in blocked and s not in seen:
                    work.append(s)
        return seen

    def live_nodes(self) -> Set[Node]:
        return self.reachable([self.entry])

    def dominators(self) -> Dict[Node, Set[Node]]:
        if self._dom is not None:
            return self._dom
        live = [n for n in self.nodes if n in self.live_nodes()]
        allset = set(live)
        dom = {n: set(allset) for n in live}
        dom[self.entry] = {self.entry}
        changed = True
        while changed:
            changed = False
            for n in live:
                if n is self.entry:
                    continue
                ps = [p for p, _ in n.pred if p in dom]
                new = set.intersection(*(dom[p] for p in ps)) if ps else set()
                new = new | {n}
                if new != dom[n]:
                    dom[n] = new
                    changed = True
        self._dom = dom
        return dom

    def dominates(self, a: Node, b: Node) -> bool:
        return a in self.dominators().get(b, set())

    def must_pass(self, a: Node, b: Node, through: Iterable[Node], ignore_exc: bool = True) -> bool:
        """Every path a ->* b passes through one of `through` (vacuously true if b unreachable from a)."""
        through = set(through)
        if a in through or b in through:
            return True
        excl = ("exc",) if ignore_exc else ()
        return b not in self.reachable([a], blocked=through, labels_excluded=excl)

    def find_path(self, a: Node, b: Node, blocked: Iterable[Node] = (), ignore_exc: bool = True) -> Optional[List[Node]]:
        """Shortest path (BFS) from a to b avoiding `blocked`; used to print counter-example paths."""
        blocked = set(blocked)
        from collections import deque
        q = deque([a])
        prev: Dict[Node, Optional[Node]] = {a: None}
        while q:
            n = q.popleft()
            if n is b:
                path = []
                while n is not None:
                    path.append(n)
                    n = prev[n]
                return path[::-1]
            for s, lab in n.succ:
                if ignore_exc and lab == "exc":
                    continue
                if s in blocked or s in prev:
                    continue
                prev[s] = n
                q.append(s)
        return None

    def simple_nodes(self) -> List[Node]:
        live = self.live_nodes()
        return [n for n in self.nodes if n in live and n.kind in (STMT, TEST, FOR, WITH, HANDLER)]


def fmt_path(path: Optional[List[Node]]) -> str:
    if not path:
        return "<no path>"
    out = []
    for n in path:
        if n.kind in (ENTRY, EXIT, RAISE):
            out.append(n.kind)
        elif n.kind == JOIN:
            continue
        else:
            out.append(f"L{n.lineno}")
    # compress
    comp = []
    for x in out:
        if not comp or comp[-1] != x:
            comp.append(x)
    if len(comp) > 14:
        comp = comp[:6] + ["…"] + comp[-6:]
    return "→".join(comp)


# ------------------------------------------------------------------------------------------ flag refinement
def flag_of_test(test: ast.AST) -> Optional[Tuple[str, bool]]:
    """If `test` is a test of a single simple flag expression, return (flag text, polarity): the test is true
    iff flag == polarity.  Recognised: `f`, `not f`, `f is None`, `f is not None` (keyed as 'f is None')."""
    if isinstance(test, ast.UnaryOp) and isinstance(test.op, ast.Not):
        r = flag_of_test(test.operand)
        return (r[0], not r[1]) if r else None
    if isinstance(test, (ast.Name, ast.Attribute)):
        return (ast.unparse(test), True)
    if (isinstance(test, ast.Compare) and len(test.ops) == 1 and isinstance(test.comparators[0], ast.Constant)
            and test.comparators[0].value is None and isinstance(test.left, (ast.Name, ast.Attribute))):
        key = ast.unparse(test.left) + " is None"
        if isinstance(test.ops[0], ast.Is):
            return (key, True)
        if isinstance(test.ops[0], ast.IsNot):
            return (key, False)
    return None


def assigned_names(st: ast.AST) -> Set[str]:
    """Names / attribute texts (re)bound by a simple statement or loop header."""
    out: Set[str] = set()

    def tgt(t):
        if isinstance(t, (ast.Name, ast.Attribute)):
            out.add(ast.unparse(t))
        elif isinstance(t, (ast.Tuple, ast.List)):
            for e in t.elts:
                tgt(e)
        elif isinstance(t, ast.Starred):
            tgt(t.value)

    if isinstance(st, ast.Assign):
        for t in st.targets:
            tgt(t)
    elif isinstance(st, (ast.AugAssign, ast.AnnAssign)):
        tgt(st.target)
    elif isinstance(st, ast.For):
        tgt(st.target)
    elif isinstance(st, ast.With):
        for it in st.items:
            if it.optional_vars is not None:
                tgt(it.optional_vars)
    for n in ast.walk(st) if isinstance(st, ast.AST) else []:
        if isinstance(n, ast.NamedExpr):
            tgt(n.target)
    return out


Facts = FrozenSet[Tuple[str, bool]]


def run_typestate(cfg: CFG, init_states: Iterable, step: Callable[[Node, object], Iterable],
                  flag_sensitive: bool = True, ignore_exc: bool = False,
                  edge_ok: Optional[Callable[[Node, Node, Optional[str], object], bool]] = None
                  ) -> Dict[Node, Set[Tuple[object, Facts]]]:
    """Forward may-analysis over (abstract state, known flag values).  `step(node, state)` returns the set of
    successor abstract states after executing `node`.  Returns the states *at entry* of every node.  With
    `flag_sensitive`, branches on the same un-reassigned flag are analysed per flag value (correlated guards), so
    infeasible mixed paths are not explored."""
    at: Dict[Node, Set[Tuple[object, Facts]]] = {n: set() for n in cfg.nodes}
    work: List[Tuple[Node, object, Facts]] = []
    for s in init_states:
        at[cfg.entry].add((s, frozenset()))
        work.append((cfg.entry, s, frozenset()))
    while work:
        node, st, facts = work.pop()
        outs = list(step(node, st)) if node.kind in (STMT, TEST, FOR, WITH, HANDLER) else [st]
        # facts killed by assignment in this node
        kill: Set[str] = set()
        if node.kind in (STMT, FOR, WITH) and node.ast is not None:
            kill = assigned_names(node.ast)
        if kill:
            facts2 = frozenset((f, v) for f, v in facts
                               if f not in kill and f.replace(" is None", "") not in kill)
        else:
            facts2 = facts
        flag = flag_of_test(node.ast) if (flag_sensitive and node.kind == TEST and node.ast is not None) else None
        for succ, lab in node.succ:
            if ignore_exc and lab == "exc":
                continue
            f3 = facts2
            if flag is not None and lab in ("T", "F"):
                name, pol = flag
                val = pol if lab == "T" else (not pol)
                known = dict(facts2)
                if name in known and known[name] != val:
                    continue  # infeasible: the same flag was decided the other way
                f3 = frozenset(set(facts2) | {(name, val)})
            # an exception edge leaves *before* the statement's effect took place
            for o in ([st] if lab == "exc" else outs):
                if edge_ok is not None and not edge_ok(node, succ, lab, o):
                    continue
                key = (o, f3)
                if key not in at[succ]:
                    at[succ].add(key)
                    work.append((succ, o, f3))
    return at
