import sys
from .engine import main

sys.exit(main())
