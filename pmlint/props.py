"""Property -> rules map.  `quick` rules run in both tiers; `thorough` adds the rest."""

PROPS = {
    "C04": {
        "quick": ["R-EFF-SEED", "R-EFF-STATE", "R-EFF-RESP", "R-EFF-SELF", "R-STATE-WRITERS"],
        "thorough": [],
        "technique": "static effect analysis: may-alias origins + mutation sinks over CFGs, callee summaries",
        "claim": "Decides, for every path of every _response/_sensitivity/_reset of every Module subclass in the "
                 "current source, the structural clauses C04 rests on: seeds are never written (zero masks excepted), "
                 "no state or state-aliasing attribute is written by sensitivity/reset, _response never writes an input "
                 "state or a sensitivity, and _sensitivity carries no state between calls. It does not decide numerical "
                 "linearity of the formulas; with read-only seeds, untouched states and no carried state the twice-call "
                 "clause follows.",
        "explanation": "Effect analysis (may-alias-memory origins + mutation sinks, interprocedural through callee "
                       "summaries) over every _response/_sensitivity/_reset of every Module subclass in the current "
                       "source: seeds, input/output states and state-aliasing attributes are never written; "
                       "_sensitivity carries no state between calls. Decides the structural clauses of C04 "
                       "(read-only seeds, untouched states, no carried state), not numerical linearity.",
    },
}
