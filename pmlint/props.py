"""Property -> rules map.  `quick` rules run in both tiers; `thorough` adds the rest."""

PROPS = {
    "C11": {
        "quick": ["R-PERM", "R-HERM-GUARD", "R-NORM-VIEW", "R-EFF-RESP"],
        "thorough": ["R-ADJ-TRANS", "R-NULL-SEED"],
        "technique": "static index-agreement, guard-dominance and view-provenance rules on EigenSolve",
        "claim": "Decides structural clauses of C11: eigenvalues and eigenvector columns are permuted by the same index, "
                 "which is the sorting function's result on (values, vectors); eigh/eigsh are reached only under the "
                 "Hermitian flag and eig/eigs only under its negation; the normalisation loop covers all modes and "
                 "scales through a column view of the returned matrix. Residuals, normalisation values and closeness to "
                 "the shift (numeric) are not decided; the value latch of the Hermitian flag is a known finding under C03.",
        "explanation": "AST/CFG rules over EigenSolve._response and _sparse_eigs.",
    },
    "C20": {
        "quick": ["R-FMT-AGREE", "R-SECTION-AGREE", "R-LOG-LOCKSTEP", "R-DOMAIN-PURE"],
        "thorough": ["R-TAG-BALANCE"],
        "technique": "static writer-table agreement (declared format vs cast, section vs count), path counting over CFGs",
        "claim": "Decides structural clauses of C20: every DataArray declared Float32 writes np.float32-cast data, "
                 "header_type matches the struct code of the block-length header, byte order declaration and struct prefix "
                 "agree; vectors classified by size %% nnodes are written in <PointData> using nnodes and those by size %% "
                 "nel in <CellData> using nel; both extents use the same counts; 2-D padding declares 3 components; "
                 "ScalarToFile collects header names and row values in lockstep, writes exactly one row and advances the "
                 "counter once per call, header only on the first call; WriteToVTI names files by counter; (thorough) XML "
                 "tags are balanced under equal guards. Byte-level round trips are not decided.",
        "explanation": "Literal text of every file.write call is extracted (f-strings with holes), tables of declarations "
                       "are compared with the provenance of the data written; typestate counting over the CFG of the "
                       "log writer with the correlated guard `tags is not None`.",
    },
    "C07": {
        "quick": ["R-BLOCK-T", "R-BLOCK-MATMUL", "R-UFUNC-ARITY", "R-DIAG-DEP", "R-EFF-RESP", "R-UPDATE-BEFORE-SOLVE"],
        "thorough": [],
        "technique": "static block-provenance rules, operand dependence slices, effect analysis, update-before-solve dominance",
        "claim": "Decides structural clauses of C07 for the linear-system modules: blocks obtained by indexing the input "
                 "matrix are never used transposed in the forward path (no hidden symmetry assumption) and are combined "
                 "with vectors through the matrix product (dense and sparse); the decoupled-dof shortcut of the default "
                 "solver wrapper tests rows and columns; the modules never overwrite their input matrix; the inner "
                 "solver is always updated with the current (sub)matrix before it solves. The defining equations "
                 "themselves (numeric) are not decided.",
        "explanation": "Blocks are recognised by provenance (double subscript of a _response parameter); rules inspect "
                       "every use of a block in the response and sensitivity of SystemOfEquations / StaticCondensation.",
    },
    "C08": {
        "quick": ["R-BC-BOTH", "R-SHARED-STATE", "R-DOMAIN-PURE"],
        "thorough": ["R-PARALLEL", "R-GAUSS-SIB"],
        "technique": "static operand-dependence slice and sibling agreement of the element-integration loops",
        "claim": "Decides structural clauses of C08: the boundary-condition selector depends on membership of the entry's "
                 "row AND column index in the constrained set; (thorough) values, rows and columns handed to the sparse "
                 "constructor share one selector and are extended by constraint-length blocks with equal row/column "
                 "tails; the five element-integration loops use the same sampling points and weight, and the 2-D "
                 "thickness scaling is applied consistently. Entry values, symmetry, definiteness and null spaces "
                 "(numeric) are not decided.",
        "explanation": "Dependence slice through operand positions from the selector attribute to np.isin tests; "
                       "normalised-expression comparison across sibling loops.",
    },
    "C09": {
        "quick": ["R-KERNEL-NORM", "R-SHARED-STATE"],
        "thorough": ["R-ROWSUM", "R-PAD-SIB", "R-CONV-PAIR", "R-FILTER-ORDER"],
        "technique": "static must-pass-through on the kernel construction, sibling agreement of padding branches",
        "claim": "Decides structural clauses of C09: on every path the radius kernel is divided by its own sum after its "
                 "last assignment; (thorough) the normalisation vector of Filter is a sum-reduction of the matrix the "
                 "response multiplies with and the response divides by it; both edges of an axis support the same "
                 "padding modes; convolution/correlation and normalisation order pair up with the adjoint. Filtered "
                 "values, range and volume preservation (numeric) are not decided.",
        "explanation": "CFG must-pass-through in set_filter_radius; AST pattern rules on Filter and _process_padding.",
    },
    "C13": {
        "quick": ["R-RADIX", "R-NODE-TABLE"],
        "thorough": [],
        "technique": "static mixed-radix (Horner) form comparison of encoder and decoder; literal table check",
        "claim": "Decides structural clauses of C13: the node/element number encoders are Horner forms over the Cartesian "
                 "indices in x-fastest order whose radices equal, in the same significance order, those of the node-index "
                 "decoder, and nel/nnodes are the products of those radices; literal entry k of the local node table "
                 "has the sign pattern of the bits of k under the right dimension guard. Shape-function identities "
                 "(polynomial identities) are not decided.",
        "explanation": "Horner decomposition of the return expressions of get_nodenumber/get_elemnumber against the "
                       "%% and // chain of get_node_indices; literal check of node_numbering.",
    },
    "C14": {
        "quick": ["R-KIND", "R-DIR-VALID"],
        "thorough": ["R-CLONE-OVERHANG"],
        "technique": "static reaching-definitions kind lint, must-pass-through of validation, clone comparison of sweep set-up",
        "claim": "Decides structural clauses of C14: no string test is evaluated on a name that can only hold the parsed "
                 "numeric direction (sign of string directions is not lost); every path of the set-up normalises the "
                 "direction, asserts axis alignment, asserts z=0 for 2-D and validates the number of support points; "
                 "(thorough) response and sensitivity sweeps use identical stencils and opposite traversal. Smooth min/max "
                 "values and the overshoot bound (numeric) are not decided.",
        "explanation": "Reaching definitions per use site over the CFG; must-pass-through in OverhangFilter._prepare.",
    },
    "C16": {
        "quick": ["R-NEGSLICE"],
        "thorough": ["R-BAND"],
        "technique": "static range lint on negative slice bounds with guard dominance",
        "claim": "Decides the structural clause 'a fraction that rounds to zero entries removes nothing': every slice bound "
                 "-n with a computed count n is dominated by a test implying n >= 1 (package-wide); (thorough) the value "
                 "band uses closed comparisons on one normalised array. Bounds of the aggregation functions and the "
                 "damping recurrence (numeric) are not decided.",
        "explanation": "Package-wide scan of slice bounds; dominance of n>0-implying tests with no reassignment in between.",
    },
    "C10": {
        "quick": ["R-PROTOCOL", "R-BOUNDS", "R-ARGNAMES", "R-CUMSLICE", "R-WRITEBACK"],
        "thorough": ["R-MMA-MEM", "R-STEP-DEP"],
        "technique": "static typestate analysis of the MMA driver, bound-set (LB/UB) reasoning, argument-binding and slice lints",
        "claim": "Decides the structural clauses of C10: the sensitivity protocol inside MMA.response (reset / seed / "
                 "sensitivity / read / reset per response, no stale adjoints, no adjoint of a stale response); the "
                 "variable bounds handed to the subproblem solver are the element-wise max/min over {user bound, move "
                 "limit, asymptote offset} and are bound to the solver's bound parameters; the returned design is the "
                 "solver's result unmodified; long positional calls bind no name to a different parameter; every "
                 "variable slice is the extent c[i]:c[i+1] of its own signal; the variables are written before each "
                 "response; (thorough) the iteration memory shifts correctly and the line-search step length depends on "
                 "every step ratio of a quantity that must stay positive. P/Q coefficients, KKT accuracy and convergence "
                 "(numeric) are not decided.",
        "explanation": "Rules over MMA.response, the design-update method (located by role: its result is written back "
                       "to the design vector) and the subproblem solver (located by role: its first result is returned).",
    },
    "C17": {
        "quick": ["R-PROTOCOL", "R-BOUNDS", "R-CUMSLICE", "R-WRITEBACK"],
        "thorough": ["R-BISECT"],
        "technique": "static typestate analysis of minimize_oc, bound-set reasoning, must-pass-through, monotonicity lattice",
        "claim": "Decides the structural clauses of C17: reset -> seed objective -> sensitivity -> read in minimize_oc; the "
                 "new design is np.clip(., lo, hi) with lo the element-wise maximum over {xmin, x - move} and hi the "
                 "minimum over {xmax, x + move}, and the current design is updated to it; every non-converged path "
                 "writes the extent c[i]:c[i+1] of the new vector back to variable i; (thorough) the bisection moves the "
                 "end of the bracket that the monotonicity of the candidate in the multiplier requires. The volume "
                 "tolerance and convergence to the analytic optimum (numeric) are not decided.",
        "explanation": "Typestate automaton over the CFG of minimize_oc, LB/UB term sets with single-definition name "
                       "expansion, and a sign/monotonicity lattice through /, sqrt, *, clip, sum for the bisection.",
    },
    "C12": {
        "quick": ["R-TRANSPOSE-PAIR", "R-EINSUM-VJP", "R-SCATTER", "R-CONSTIT", "R-SHARED-STATE"],
        "thorough": ["R-GAUSS-SIB"],
        "technique": "static einsum subscript algebra and gather/scatter role comparison of sibling operators",
        "claim": "Decides the structural clause 'NodalOperation is the transpose of ElementOperation': the response "
                 "contraction of each is the sensitivity contraction of the other (same subscripts up to letter "
                 "renaming, same roles of element matrix and data), the gather/scatter index attributes swap roles, "
                 "scatters through the connectivity accumulate, and each class's own sensitivity contraction is the VJP "
                 "of its response. Exactness on affine fields, centroid values, and the Strain/Stress shear scaling are "
                 "numeric; the structural part 'the operator multiplied with the constitutive matrix is get_B combined only "
                 "linearly' is decided by R-CONSTIT, whose single report (Strain's doubled engineering shear feeding "
                 "Stress) is a known finding pinned by an existing test.",
        "explanation": "Literal einsum specifications are parsed, canonicalised modulo bijective renaming with the data "
                       "operand in a fixed position, and compared across ElementOperation/NodalOperation.",
    },
    "C01": {
        "quick": ["R-ARITY", "R-NULL-SEED", "R-ADJ-TRANS", "R-SCATTER", "R-INDEX-PAIR", "R-EINSUM-VJP", "R-FRESH",
                  "R-EFF-SEED"],
        "thorough": ["R-CONV-PAIR", "R-FILTER-ORDER", "R-CLONE-OVERHANG"],
        "technique": "static response/sensitivity agreement rules: arity tables, nullness dataflow, call-site facts, "
                     "index provenance, einsum subscript algebra, attribute typestate",
        "claim": "Decides necessary structural conditions of the adjoint identity for every Module subclass: value/seed "
                 "and input/result counts agree on every return path; partially seeded outputs (None) are never "
                 "dereferenced unguarded (interprocedural); every adjoint solve is transposed; stores through index "
                 "tables with repeats accumulate (np.add.at); gather and scatter index attributes of response and "
                 "sensitivity mirror each other; literal einsum contractions of the sensitivity are the VJP of the "
                 "response's; what _sensitivity reads is what this _response wrote; seeds are not mutated; (thorough) "
                 "convolution/correlation and normalisation order of the filters pair up and the duplicated overhang "
                 "sweep set-up agrees. A wrong factor or sign inside a formula (numeric) is not decided.",
        "explanation": "Per concrete Module subclass (39 classes, all options at once, including the modules the suite "
                       "never touches): rules compare resolved facts of the _response closure with those of the "
                       "_sensitivity closure.",
    },
    "C05": {
        "quick": ["R-SOLVER-SIG", "R-TRANS-EXH", "R-EFF-SOLVE", "R-AUTO-GUARD"],
        "thorough": [],
        "technique": "static signature / exhaustiveness / guard-dominance rules and effect analysis over all solver classes",
        "claim": "Decides the structural clauses of C05 for all 16 solver classes: every solver implements "
                 "update(A) and solve(rhs, x0=None, trans='N') with the contract's signature; each of the modes N/T/H "
                 "reaches a return and is not routed into a raise; no solve() mutates rhs/x0 or returns memory aliasing "
                 "them and no update() mutates the matrix; every class returned by auto_determine_solver is dominated "
                 "by its applicability guards. Whether the factorisations produce the right numbers is not decided.",
        "explanation": "Three-valued evaluation of the mode tests on each solve() CFG for trans in {N,T,H}; may-alias "
                       "effect analysis of solve/update with interprocedural summaries; guard facts (dominating tests, "
                       "conjunct-split) for each return of auto_determine_solver against a frozen applicability table.",
    },
    "C06": {
        "quick": ["R-UFUNC-ARITY", "R-DIAG-DEP", "R-DB-CLEAR", "R-DB-PAIR", "R-LATCH-LDA", "R-EFF-SOLVE"],
        "thorough": ["R-INNER-GUARD", "R-LDA-DEFAULT"],
        "technique": "static must-pass-through, dependence slicing through operand positions, argument-triple tables",
        "claim": "Decides the structural clauses of C06: the decoupled-dof mask depends on row AND column non-zero counts "
                 "as operands (no ufunc takes a condition in its out= slot anywhere in the package); update() clears "
                 "every database the solve helper appends to, reassigns every per-matrix attribute and updates the "
                 "inner solver on every path; each database solve gets a consistent (matrix mode, database pair, inner "
                 "mode) triple with disjoint pairs; nothing is latched from the first matrix; rhs/x0 are never mutated; "
                 "(thorough) the inner solver is called only under the residual-vs-tolerance test and LinSolve wraps by "
                 "default. Residuals and the storage/conjugation truth table are not decided.",
        "explanation": "Database attributes are derived from call-site bindings to the helper's appended-to parameters; "
                       "must-pass-through on update()'s CFG; operand-position dependence slice of the mask; "
                       "classification of update()'s conditional assignments.",
    },
    "C15": {
        "quick": ["R-DYAD-PURE", "R-DYAD-OWN", "R-EMPTY-IDX", "R-ACC-DTYPE"],
        "thorough": [],
        "technique": "static effect/ownership analysis of every DyadCarrier method",
        "claim": "Decides the operand-safety and ownership clauses of C15 for all 36 DyadCarrier methods: only the "
                 "in-place methods store attributes or mutate stored vectors, no method mutates an argument or returns "
                 "self unless in-place, every vector stored in the carrier is fresh memory, no constant index into a "
                 "possibly empty vector list, accumulators take their dtype from the carrier/result type. Dense "
                 "equivalence of the arithmetic (numeric) is not decided.",
        "explanation": "May-alias origins and mutation sinks per method with callee summaries; append-site ownership; "
                       "dominance of non-emptiness tests; allocation dtype provenance of accumulators.",
    },
    "C19": {
        "quick": ["R-PROTOCOL", "R-RESTORE", "R-FD-WRITEBACK", "R-SIBLING-EXC", "R-EFF-SEED"],
        "thorough": [],
        "technique": "static typestate analysis over the CFG of finite_difference with correlated-guard refinement; alias analysis",
        "claim": "Decides the non-destructiveness and protocol clauses of C19 on every feasible path of "
                 "finite_difference: reset -> seed -> sensitivity -> read -> reset per output and CLEAN at every normal "
                 "exit; every perturbation of an input is undone from a saved fresh copy before the iterator advances; "
                 "in-place edits of the local snapshot are written back before the next response(); the real and "
                 "imaginary passes catch the same exceptions; the reference outputs and analytical sensitivities are "
                 "fresh copies; no module mutates the seed array that finite_difference keeps for the numerical side. "
                 "That the numerical value approximates the derivative (numeric) is not decided.",
        "explanation": "Typestate automata (sensitivity protocol, perturb/restore per target, dirty/synced snapshot) run "
                       "over the CFG of finite_difference; branches on the same un-reassigned flag (is_iterable) are "
                       "analysed per flag value so that infeasible mixed paths are not reported.",
    },
    "C02": {
        "quick": ["R-NET-ORDER", "R-ACCUMULATE", "R-SKIP-UNSEEDED", "R-COPY-FIRST", "R-SEED-ORDER"],
        "thorough": [],
        "technique": "static control-flow rules (must-pass-through, dominance, who-may-write) on the dispatch skeleton",
        "claim": "Decides the skeleton of the induction behind C02 in core_objects.py for every path: Network runs "
                 "responses forward and sensitivities in reverse over all modules in both the timed and the plain "
                 "branch; the only writers of '.sensitivity' in the package are the Signal classes and the drivers' "
                 "seeding sites, every module contribution goes through add_sensitivity (first contribution stored "
                 "fresh under the is-None test, all others accumulated), input k receives result k, unseeded "
                 "modules and None contributions are skipped. Correctness of each module's own adjoint (numeric) is "
                 "not decided here.",
        "explanation": "CFG rules over Network.response/sensitivity/reset, Module.response/sensitivity, "
                       "AutoMod.sensitivity, Signal/SignalSlice.add_sensitivity plus a package-wide table of every "
                       "store to a '.sensitivity' attribute.",
    },
    "C18": {
        "quick": ["R-COPY-FIRST", "R-ACCUMULATE", "R-SLICE-SIB", "R-RESET"],
        "thorough": [],
        "technique": "static alias analysis, typestate over the CFG of reset(), sibling agreement of accessors",
        "claim": "Decides the structural clauses of C18: the first contribution stored by add_sensitivity never aliases "
                 "the argument; all later contributions accumulate; every SignalSlice accessor reaches the base only "
                 "through [self.slice] on the matching attribute and creates a missing base sensitivity as zeros of "
                 "the base state; on every exit of Signal.reset the sensitivity is None or zero-filled in place and "
                 "SignalSlice.reset clears only through its own slice. Equivalence with array semantics over "
                 "arbitrary histories (numeric) is not decided.",
        "explanation": "Alias analysis of add_sensitivity, typestate of Signal.reset over all paths including the "
                       "exception edges of its nested try blocks, and an agreement check over the SignalSlice "
                       "accessors.",
    },
    "C03": {
        "quick": ["R-FRESH", "R-LATCH", "R-UPDATE-BEFORE-SOLVE", "R-RESET", "R-EFF-RESP", "R-EFF-SELF", "R-SHARED-STATE"],
        "thorough": ["R-LATCH-LDA"],
        "technique": "static attribute def/use typestate (must/may-write over CFGs), dependence slices STRUCT/VALUE, dominance",
        "claim": "Decides the cache-typestate clauses behind C03 for every Module subclass: every attribute a "
                 "_sensitivity closure reads is configuration, written on every path of the _response closure, written "
                 "under configuration-only tests, or lazily initialised; every lazily initialised attribute is classified "
                 "by dependence on the inputs (none / structure / values) and value latches are reported (five are "
                 "known findings: LinSolve and EigenSolve decide solver class and symmetry from the first matrix); a "
                 "held solver is always updated with the current matrix before it solves; reset() clears every "
                 "sensitivity on every path; _response leaves its inputs untouched and _sensitivity carries no state. "
                 "Numerical equality 'to solver tolerance' is not decided.",
        "explanation": "Per concrete class: backward must-write analysis over the CFGs of the _response closure (helper "
                       "calls included), deciding tests per attribute, taint of lazily written values w.r.t. the "
                       "response inputs with a structure-only filter (.shape/.dtype/len/issparse...), and dominance of "
                       "solver.update over solver.solve with monotone-flag discharge.",
    },
    "C04": {
        "quick": ["R-EFF-SEED", "R-EFF-STATE", "R-EFF-RESP", "R-EFF-SELF", "R-STATE-WRITERS", "R-LINEAR"],
        "thorough": [],
        "technique": "static effect analysis: may-alias origins + mutation sinks over CFGs, callee summaries",
        "claim": "Decides, for every path of every _response/_sensitivity/_reset of every Module subclass in the "
                 "current source, the structural clauses C04 rests on: seeds are never written (zero masks excepted), "
                 "no state or state-aliasing attribute is written by sensitivity/reset, _response never writes an input "
                 "state or a sensitivity, and _sensitivity carries no state between calls. It does not decide numerical "
                 "linearity of the formulas; with read-only seeds, untouched states and no carried state the twice-call "
                 "clause follows.",
        "explanation": "Effect analysis (may-alias-memory origins + mutation sinks, interprocedural through callee "
                       "summaries) over every _response/_sensitivity/_reset of every Module subclass in the current "
                       "source: seeds, input/output states and state-aliasing attributes are never written; "
                       "_sensitivity carries no state between calls. Decides the structural clauses of C04 "
                       "(read-only seeds, untouched states, no carried state), not numerical linearity.",
    },
}
