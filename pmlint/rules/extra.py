"""Rules added after the second round of independently seeded changes (see DESIGN.md section 5):
R-INDEX-ORDER (C07), R-LAYOUT (C08/C20), R-PAD-RANGE, R-TRUNC-RADIUS (C09), R-STALE-PERM, R-SHIFT-GUARD (C11),
R-POLY (C13), R-SWEEP-TOTAL (C14), R-SELFDOT (C15), R-MEM-HOLD (C16), R-RUN-OFFSET (C17/C10), R-SLICE-ARITH (C18),
R-NPMATRIX, R-OVERLAP-SYM (C19), R-SAME-WALK (C20)."""
from __future__ import annotations

import ast
from typing import Dict, List, Optional, Set, Tuple

from ..cfg import STMT, TEST
from ..model import stmt_key, AnalysisError, FuncInfo, parent
from ..report import rule, Collector
from .common import untag, RuleCtx, where_of, line_of, dedupe, expand_names
from .eff import _functions, module_methods

U = ast.unparse


def norm(e) -> str:
    return "".join(U(e).split())


def _names(e: ast.AST) -> Set[str]:
    return {x.id for x in ast.walk(e) if isinstance(x, ast.Name)}


def _dependent_names(fn: ast.AST, seeds: Set[str], attr_seeds: Set[str] = frozenset(), selfn: Optional[str] = None) -> Set[str]:
    """Locals of `fn` whose value (transitively, flow-insensitively) depends on one of `seeds` (names) or on a
    `self.<attr>` in attr_seeds.  Loop targets depend on what they iterate over; augmented assignments on both sides;
    subscript / attribute stores make the container depend on the stored value."""
    dep = set(seeds)

    def uses(e) -> bool:
        for x in ast.walk(e):
            if isinstance(x, ast.Name) and x.id in dep:
                return True
            if selfn and isinstance(x, ast.Attribute) and isinstance(x.value, ast.Name) and x.value.id == selfn and x.attr in attr_seeds:
                return True
        return False

    def tnames(t) -> List[str]:
        out = []
        for x in ast.walk(t):
            if isinstance(x, ast.Name) and isinstance(x.ctx, ast.Store):
                out.append(x.id)
        # container stores: a[i] = v makes a dependent
        if isinstance(t, (ast.Subscript, ast.Attribute)):
            b = t
            while isinstance(b, (ast.Subscript, ast.Attribute)):
                b = b.value
            if isinstance(b, ast.Name) and b.id != selfn:
                out.append(b.id)
        return out
    changed = True
    while changed:
        changed = False
        for n in ast.walk(fn):
            src, tg = None, []
            if isinstance(n, ast.Assign):
                src, tg = n.value, [x for t in n.targets for x in tnames(t)]
            elif isinstance(n, ast.AugAssign):
                src, tg = n.value, tnames(n.target)
            elif isinstance(n, ast.AnnAssign) and n.value is not None:
                src, tg = n.value, tnames(n.target)
            elif isinstance(n, (ast.For, ast.comprehension)):
                src, tg = n.iter, tnames(n.target)
            elif isinstance(n, ast.NamedExpr):
                src, tg = n.value, tnames(n.target)
            if src is not None and uses(src):
                for t in tg:
                    if t not in dep:
                        dep.add(t)
                        changed = True
    return dep


# ---------------------------------------------------------------------------------------------------- C07
ORDER_DESTROYING = {"unique", "sort", "sorted", "union1d", "intersect1d", "argsort", "set", "frozenset", "flip", "roll",
                    "shuffle", "permutation", "partition"}


@rule("R-INDEX-ORDER", floor=2)
def r_index_order(ctx: RuleCtx, col: Collector):
    """Index attributes that pair positionally with an input vector (x[self.p] = x_p, b[self.f] = b_f) keep the order
    the user gave them: no definition of such an attribute passes its own previous value (or the constructor argument
    it comes from) through a sorting / de-duplicating / reordering function.  The complement computed for an index set
    that was not given (setdiff1d of all dofs with the *other* set) carries no user order and is accepted."""
    m = ctx.model
    for c in m.module_classes():
        resp = m.resolve_method(c, "_response")
        if resp is None or resp.cls is m.module_base() or resp.cls is not c:
            continue
        selfn = m.self_name(resp)
        params = set(resp.pos_params())
        if not params:
            continue
        # attributes used as the leading index of a store / load that is paired with a response parameter
        paired: Dict[str, ast.AST] = {}
        for n in ast.walk(resp.node):
            if isinstance(n, ast.Assign) and isinstance(n.targets[0], ast.Subscript) and isinstance(n.value, ast.Name) and \
                    n.value.id in params:
                sl = n.targets[0].slice
                first = sl.elts[0] if isinstance(sl, ast.Tuple) and sl.elts else sl
                if isinstance(first, ast.Attribute) and isinstance(first.value, ast.Name) and first.value.id == selfn:
                    paired.setdefault(first.attr, n)
        if not paired:
            continue
        closure = m.closure(c, "_response") + [g for g in (m.resolve_method(c, "_prepare"), m.resolve_method(c, "__init__")) if g is not None and g.cls is c]
        for attr, use in sorted(paired.items()):
            bad = None
            ndefs = 0
            for g in closure:
                sg = m.self_name(g)
                for n in ast.walk(g.node):
                    tv = []
                    if isinstance(n, ast.Assign):
                        ts = n.targets[0].elts if isinstance(n.targets[0], ast.Tuple) and isinstance(n.value, ast.Tuple) and \
                            len(n.targets[0].elts) == len(n.value.elts) else None
                        if ts is not None:
                            tv = list(zip(ts, n.value.elts))
                        else:
                            tv = [(t, n.value) for t in n.targets]
                    for t, v in tv:
                        if isinstance(t, ast.Attribute) and isinstance(t.value, ast.Name) and t.value.id == sg and t.attr == attr:
                            ndefs += 1
                            for call in [x for x in ast.walk(v) if isinstance(x, ast.Call)]:
                                fname = call.func.attr if isinstance(call.func, ast.Attribute) else (call.func.id if isinstance(call.func, ast.Name) else "")
                                if fname in ORDER_DESTROYING:
                                    args = list(call.args) + ([call.func.value] if isinstance(call.func, ast.Attribute) and fname == "sort" else [])
                                    for a in args:
                                        own = any(isinstance(x, ast.Attribute) and isinstance(x.value, ast.Name) and x.value.id == sg and x.attr == attr for x in ast.walk(a))
                                        from_param = any(isinstance(x, ast.Name) and x.id in set(g.pos_params()) for x in ast.walk(a))
                                        if own or from_param:
                                            bad = (g, n, fname)
                    # in-place sort of the attribute
                    if isinstance(n, ast.Expr) and isinstance(n.value, ast.Call) and isinstance(n.value.func, ast.Attribute) and \
                            n.value.func.attr == "sort" and norm(n.value.func.value) == f"{sg}.{attr}":
                        bad = (g, n, "sort")
            construct = f"{c.name}: order of index set self.{attr} (paired with '{U(use.value)}')"
            if ndefs == 0:
                raise AnalysisError(f"{c.name}: no definition of index attribute self.{attr} found")
            if bad:
                g, n, fname = bad
                col.bad(where_of(g), g.rel, line_of(n), construct,
                        f"self.{attr} is passed through '{fname}', which reorders it, but entry i of '{U(use.value)}' belongs "
                        f"to entry i of the index set as the user gave it: values land on the wrong dofs for an unsorted set")
            else:
                col.ok(where_of(resp), resp.rel, line_of(use), construct, f"{ndefs} definition(s), none reorders the user's index set")
    dedupe(col)


# ---------------------------------------------------------------------------------------------------- C08 / C20
@rule("R-LAYOUT", floor=0, witness_min=1)
def r_layout(ctx: RuleCtx, col: Collector):
    """Results do not depend on the memory layout of the caller's arrays: no flatten / ravel / reshape / copy-free
    iteration in memory order (order='K' or 'A') of data that is paired with index tables or names built in logical
    (C) order."""
    m = ctx.model
    for f in _functions(m):
        for n in ast.walk(f.node):
            if not isinstance(n, ast.Call):
                continue
            for k in n.keywords:
                if k.arg == "order" and isinstance(k.value, ast.Constant) and k.value.value in ("K", "A", "k", "a"):
                    fname = n.func.attr if isinstance(n.func, ast.Attribute) else (n.func.id if isinstance(n.func, ast.Name) else "?")
                    if fname in ("ravel", "flatten", "reshape", "nditer", "array", "asarray", "copy"):
                        if fname in ("array", "asarray", "copy"):
                            continue      # layout of a copy does not change logical indexing
                        col.bad(where_of(f), f.rel, line_of(n), stmt_key(n),
                                f"'{fname}(order={k.value.value!r})' walks the array in memory order: for a Fortran-ordered or "
                                f"transposed input the flattened values no longer line up with index tables built in row-major "
                                f"order (the result is silently transposed)")
    dedupe(col)


@rule("R-BASE-COPY", floor=1)
def r_base_copy(ctx: RuleCtx, col: Collector):
    """OverhangFilter: the base layer (and every layer the sweep does not reach) of the printed density is the input
    itself: the array the response returns starts, in every call and on every path, as a fresh copy of this call's input.
    A work buffer kept on the module and filled from the input only when it is (re)allocated carries the base layer of an
    earlier design into the result."""
    m = ctx.model
    oh = m.public_class("OverhangFilter")
    f = m.resolve_method(oh, "_response")
    params = f.pos_params()
    if not params:
        raise AnalysisError("OverhangFilter._response: input parameter not found")
    x = params[0]
    selfn_ = m.self_name(f)
    rets = [n for n in ast.walk(f.node) if isinstance(n, ast.Return) and (isinstance(n.value, ast.Name) or (
        isinstance(n.value, ast.Attribute) and isinstance(n.value.value, ast.Name) and n.value.value.id == selfn_))]
    if not rets:
        raise AnalysisError("OverhangFilter._response: returned array not recognised")
    cfg = ctx.flow.cfg(f)
    for r in rets:
        name = norm(r.value)          # a local, or an attribute of the module that the method hands out
        defs = [n for n in ast.walk(f.node) if isinstance(n, ast.Assign) and len(n.targets) == 1 and norm(n.targets[0]) == name]
        if not defs:
            raise AnalysisError(f"OverhangFilter._response: definition of the returned array '{name}' not found")

        def from_input(v: ast.AST) -> Optional[bool]:
            """True: fresh copy of the input; False: recognised as something else that persists; None: unknown"""
            t = norm(v)
            if t in (f"{x}.copy()", f"np.copy({x})", f"np.array({x})", f"np.array({x},copy=True)", f"{x}.astype({x}.dtype)", f"{x}+0", f"1*{x}", f"{x}*1"):
                return True
            if isinstance(v, ast.Attribute) and isinstance(v.value, ast.Name) and v.value.id == m.self_name(f):
                return False
            if isinstance(v, ast.Name) and v.id == x:
                return False
            return None
        verdicts = [(d, from_input(d.value)) for d in defs]
        construct = f"OverhangFilter._response: returned array '{name}' starts as a copy of the input"
        if any(v is None for _, v in verdicts):
            raise AnalysisError(f"OverhangFilter._response: initialisation '{stmt_key([d for d, v in verdicts if v is None][0])}' of the "
                                f"returned array not recognised")
        good = [cfg.node_of(d) for d, v in verdicts if v]
        badd = [d for d, v in verdicts if v is False]
        rn = cfg.node_of(r)
        if badd:
            col.bad(where_of(f), f.rel, line_of(badd[0]), construct,
                    f"'{stmt_key(badd[0])}' makes the result {'the input array itself' if norm(badd[0].value) == x else 'an array kept on the module'}: "
                    f"the layers the sweep does not write (the base layer) are not this call's input "
                    f"{'and the result aliases it' if norm(badd[0].value) == x else 'but whatever an earlier call left there'}")
        elif good and all(g is not None for g in good) and rn is not None and cfg.must_pass(cfg.entry, rn, good):
            col.ok(where_of(f), f.rel, line_of(defs[0]), construct, stmt_key(defs[0]))
        else:
            col.bad(where_of(f), f.rel, line_of(r), construct,
                    f"'{name}' is filled from the input on some paths only ('{stmt_key(defs[0])}' is conditional): on the others the "
                    f"layers the sweep does not write (the base layer) still hold what an earlier call left there")


@rule("R-BLOCK-AXIS", floor=1)
def r_block_axis(ctx: RuleCtx, col: Collector):
    """write_to_vti accepts block-vectors in either orientation: which axis holds the per-entity data is *searched*
    (`vecax`, the axis whose length is a multiple of the node / element count), so the i-th sub-vector must be selected
    along the other axis - the selection depends on that searched axis.  A selection along a fixed axis (vec32[i] after a
    reshape) silently interleaves the vectors of a column-wise block."""
    m = ctx.model
    dd = m.public_class("DomainDefinition")
    w = m.resolve_method(dd, "write_to_vti")
    if w is None:
        raise AnalysisError("DomainDefinition.write_to_vti not found")
    # the writer itself, or the helper of the class that splits block-vectors for it (wherever the axis search lives)
    cands = [w] + [g for name, defs in sorted(dd.methods.items()) for g in defs if g is not w and name.startswith("_") and
                   any(isinstance(x, ast.Attribute) and x.attr == name for x in ast.walk(w.node))]
    total = 0
    found_axis = False
    for f in cands:
        r_ = _block_axis_in(ctx, col, f)
        if r_ is not None:
            found_axis = True
            total += r_
    if not found_axis:
        raise AnalysisError("write_to_vti: search for the vector axis of a block-vector not recognised")
    if total == 0:
        raise AnalysisError("write_to_vti: selection of the sub-vectors not recognised")
    dedupe(col)


def _block_axis_in(ctx: RuleCtx, col: Collector, f: FuncInfo) -> Optional[int]:
    """number of sub-vector selections judged in f, or None when f does not search for the vector axis"""
    m = ctx.model
    # the searched axis: assigned from a scan over <array>.shape with a divisibility test
    axis_vars: Set[str] = set()
    arrays: Set[str] = set()
    for n in ast.walk(f.node):
        if isinstance(n, ast.Assign) and isinstance(n.targets[0], ast.Name):
            t = norm(n.value)
            if "enumerate(" in t and ".shape" in t and "%" in t:
                axis_vars.add(n.targets[0].id)
                for x in ast.walk(n.value):
                    if isinstance(x, ast.Attribute) and x.attr == "shape" and isinstance(x.value, ast.Name):
                        arrays.add(x.value.id)
    if not axis_vars or not arrays:
        return None

    import copy as _copy

    class _NoRangeBound(ast.NodeTransformer):
        # a counter does not "hold" the axis just because its range is bounded by a length that was read along it
        def visit_Call(self, x):
            self.generic_visit(x)
            if norm(x.func) == "range":
                x.args = [ast.Constant(value=0)]
            return x
    fnode_nb = _NoRangeBound().visit(_copy.deepcopy(f.node))

    def dependents(seeds: Set[str], fnode=None) -> Set[str]:
        # data dependence, where storing at an index that depends on a seed makes the container depend on it too
        fnode = fnode if fnode is not None else f.node
        dep = _dependent_names(fnode, set(seeds))
        grew = True
        while grew:
            grew = False
            for n in ast.walk(fnode):
                if isinstance(n, ast.Assign) and isinstance(n.targets[0], ast.Subscript) and isinstance(n.targets[0].value, ast.Name) \
                        and n.targets[0].value.id not in dep and (_names(n.targets[0].slice) & dep):
                    dep.add(n.targets[0].value.id)
                    grew = True
            dep2 = _dependent_names(fnode, dep)
            if dep2 != dep:
                dep, grew = dep2, True
        return dep
    dep_axis = dependents(axis_vars, fnode_nb)
    dep_arr = dependents(arrays) | arrays
    # counters of the sub-vectors: targets of loops over range(<number of vectors>)
    counters: Set[str] = set()
    for n in ast.walk(f.node):
        it, tg = None, None
        if isinstance(n, (ast.For, ast.comprehension)):
            it, tg = n.iter, n.target
        if it is not None and isinstance(it, ast.Call) and norm(it.func) == "range" and isinstance(tg, ast.Name) and it.args and \
                (_names(it.args[0]) & dep_arr):
            counters.add(tg.id)
    if not counters:
        raise AnalysisError("write_to_vti: loop over the sub-vectors of a block-vector not recognised")
    dep_cnt = dependents(counters) | counters
    n_sel = 0
    for n in ast.walk(f.node):
        if not (isinstance(n, ast.Subscript) and isinstance(n.ctx, ast.Load)):
            continue
        root = n.value
        while isinstance(root, (ast.Subscript, ast.Attribute, ast.Call)):
            root = root.func if isinstance(root, ast.Call) else root.value
        if not (isinstance(root, ast.Name) and root.id in dep_arr):
            continue
        if not (_names(n.slice) & dep_cnt):
            continue
        if isinstance(parent(n), ast.Subscript) and parent(n).value is n:
            continue
        if isinstance(n.value, ast.Attribute) and n.value.attr in ("shape", "strides"):
            continue        # a length, not data
        n_sel += 1
        guarded = False
        p_ = parent(n)
        while p_ is not None and p_ is not f.node:
            if isinstance(p_, (ast.IfExp, ast.If)) and (_names(p_.test) & axis_vars):
                guarded = True          # a branch on the searched axis itself (vec[:, i] if vecax == 0 else vec[i, :])
            p_ = parent(p_)
        construct = f"write_to_vti: sub-vector selection '{norm(n)}'"
        if guarded or (_names(n.slice) & (dep_axis | axis_vars)):
            col.ok(where_of(f), f.rel, line_of(n), construct, f"selected along the axis derived from {sorted(axis_vars)}")
        else:
            col.bad(where_of(f), f.rel, line_of(n), construct,
                    f"the sub-vector is selected with '{norm(n.slice)}' along a fixed axis although the axis that holds the "
                    f"per-entity data is searched at run time ({sorted(axis_vars)}): for a block-vector in the other orientation "
                    f"the vectors are interleaved in the file")
    return n_sel


# ---------------------------------------------------------------------------------------------------- C09
def _doubles_pad(comp: ast.ListComp, src: ast.AST, selfn: str) -> bool:
    """the per-axis extent `<domain size> + 2 * <pad size of that axis>`: either the iterated list holds it for each axis,
    or the element expression forms it from the axis' (size, pad) pair walked in lockstep"""
    from .common import LoopElems
    g = comp.generators[0]
    le = LoopElems(g.target, src)
    pad_vars = {nm for nm, seq in le.elems.items() if f"{selfn}.pad_sizes" in norm(seq)}

    def mentions_pad(e):
        return f"{selfn}.pad_sizes" in norm(e) or bool(_names(e) & pad_vars)

    def doubled(e):
        return any(isinstance(x, ast.BinOp) and isinstance(x.op, ast.Mult) and (
            (norm(x.left) == "2" and mentions_pad(x.right)) or (norm(x.right) == "2" and mentions_pad(x.left))) for x in ast.walk(e))
    if isinstance(src, (ast.List, ast.Tuple)) and len(src.elts) == 3:
        return all(doubled(e) and f"{selfn}.pad_sizes[{k}]" in norm(e) for k, e in enumerate(src.elts))
    if pad_vars and len(le.elems) >= 2:
        # an addition of the lockstep partner (the domain size) and twice the pad size
        return any(isinstance(x, ast.BinOp) and isinstance(x.op, ast.Add) and doubled(x) and
                   (_names(x) & (set(le.elems) - pad_vars)) for x in ast.walk(comp.elt))
    return False


@rule("R-PAD-RANGE", floor=2)
def r_pad_range(ctx: RuleCtx, col: Collector):
    """FilterConv: the index ranges of padded entries that are overridden with a constant are stored for use on the
    *fully* padded array, so they are built from the final padded sizes (domain size + 2*pad size of each axis), not
    from the shape of an intermediate array that later calls pad further."""
    m = ctx.model
    c = m.public_class("FilterConv")
    f = m.resolve_method(c, "_process_padding")
    if f is None:
        raise AnalysisError("FilterConv._process_padding not found")
    selfn = m.self_name(f)
    calls = [n for n in ast.walk(f.node) if isinstance(n, ast.Call) and isinstance(n.func, ast.Attribute) and
             n.func.attr == "override_padded_values" and norm(n.func.value) == selfn]
    if len(calls) < 2:
        raise AnalysisError("FilterConv._process_padding: override_padded_values calls not found")
    for call in calls:
        # the index argument <- meshgrid(*R) <- R = [np.arange(..) for s in S]
        st = call
        while not isinstance(st, ast.stmt):
            st = parent(st)
        blk = parent(st)
        body = None
        for fld in ("body", "orelse"):
            if st in getattr(blk, fld, []):
                body = getattr(blk, fld)
        if body is None:
            raise AnalysisError("override call not in a statement list")
        comps = [x for b in body[:body.index(st)] for x in ast.walk(b) if isinstance(x, ast.ListComp)]
        if not comps:
            raise AnalysisError(f"{f.short}: range list for the override at line {call.lineno} not recognised")
        comp = comps[-1]
        src = expand_names(f.node, comp.generators[0].iter)
        t = norm(src)
        construct = f"override ranges before '{untag(stmt_key(st))}' (edge {'1' if 'edge1' in norm(st) + norm(getattr(blk, 'test', st)) else '0'})"
        shapes = [x for x in ast.walk(src) if isinstance(x, ast.Attribute) and x.attr == "shape"]
        if shapes:
            col.bad(where_of(f), f.rel, line_of(comp), construct,
                    f"the ranges are taken from '{U(shapes[0])}', the shape of the array as padded so far: directions padded by "
                    f"later calls are missing, so the stored indices address the wrong entries of the final padded array")
        elif _doubles_pad(comp, src, selfn):
            col.ok(where_of(f), f.rel, line_of(comp), construct, "ranges over the final padded sizes (domain + 2*pad per axis)")
        else:
            raise AnalysisError(f"{f.short}: cannot tell what sizes '{t}' are")


@rule("R-TRUNC-RADIUS", floor=1)
def r_trunc_radius(ctx: RuleCtx, col: Collector):
    """DensityFilter: the integer-truncated radius only sizes the search window; which neighbours get weight is decided
    by the exact radius alone (max(0, r - dist)).  A comparison of a distance with the truncated radius, or any mask
    applied to the row / column / value arrays between the window construction and the matrix, drops neighbours with
    int(r) < dist < r."""
    m = ctx.model
    c = m.public_class("DensityFilter")
    f = m.resolve_method(c, "_calculate_h")
    if f is None:
        raise AnalysisError("DensityFilter._calculate_h not found")
    trunc: Set[str] = set()
    for n in ast.walk(f.node):
        if isinstance(n, ast.Assign) and isinstance(n.targets[0], ast.Name) and any(
                isinstance(x, ast.Call) and norm(x.func) in ("int", "np.floor", "math.floor", "np.trunc", "np.fix") for x in ast.walk(n.value)) \
                and "radius" in _names(n.value):
            trunc.add(n.targets[0].id)
    if not trunc:
        raise AnalysisError("DensityFilter._calculate_h: truncated radius (window half-width) not found")
    for n in ast.walk(f.node):
        if isinstance(n, ast.Assign) and isinstance(n.targets[0], ast.Name) and n.targets[0].id in trunc:
            extra = _names(n.value) - {"radius", "int", "np", "math"}
            if extra and any(isinstance(x, ast.Call) and norm(x.func) in ("min", "np.minimum", "np.min", "np.clip") for x in ast.walk(n.value)):
                col.bad(where_of(f), f.rel, line_of(n), stmt_key(n),
                        f"the one half-width used for all directions is clamped with {sorted(extra)}: a domain that is narrow in one "
                        f"direction shrinks the window in the long directions too, dropping neighbours within the radius")
    tr = _dependent_names(f.node, set(trunc))
    # distance names: locals built from differences of coordinates
    bad = False
    for n in ast.walk(f.node):
        if isinstance(n, ast.Compare):
            names = _names(n)
            txt = norm(n)
            if names & trunc and ("sqrt" in txt or any(isinstance(x, ast.BinOp) and isinstance(x.op, ast.Mult) and norm(x.left) == norm(x.right) for x in ast.walk(n))
                                  or any(nm.startswith("dist") or nm in ("d2", "r2") for nm in names)):
                col.bad(where_of(f), f.rel, line_of(n), stmt_key(n),
                        f"a distance is compared with the truncated radius {sorted(names & trunc)}: neighbours whose distance lies "
                        f"between int(r) and r lose their (positive) weight, so the filter is no longer the cone average over "
                        f"the radius")
                bad = True
    # the weight expression uses the exact radius
    w = [n for n in ast.walk(f.node) if isinstance(n, ast.Call) and norm(n.func) in ("np.maximum", "np.clip", "np.fmax") and "radius" in _names(n)]
    if not w:
        raise AnalysisError("DensityFilter._calculate_h: cone weight max(0, radius - dist) not found")
    for x in w:
        if _names(x) & (tr - {"radius"}) & trunc:
            col.bad(where_of(f), f.rel, line_of(x), stmt_key(x), "the cone weight uses the truncated radius")
            bad = True
    if not bad:
        col.ok(where_of(f), f.rel, line_of(w[0]), f"truncated radius {sorted(trunc)} only sizes the window",
               f"weights '{stmt_key(w[0])}' use the exact radius; no distance test against the truncated one")


# ---------------------------------------------------------------------------------------------------- C11
@rule("R-STALE-PERM", floor=1)
def r_stale_perm(ctx: RuleCtx, col: Collector):
    """EigenSolve: per-mode quantities (norms, signs) that are used after the sorting permutation are computed from the
    permuted eigenvectors; a per-column array computed from the unsorted matrix and indexed by the sorted position
    belongs to a different mode."""
    from .eig import _eig
    es, resp = _eig(ctx)
    rets = [n for n in ast.walk(resp.node) if isinstance(n, ast.Return) and isinstance(n.value, ast.Tuple) and len(n.value.elts) == 2]
    if not rets:
        raise AnalysisError("EigenSolve._response does not return (values, vectors)")
    wname, qname = [norm(x) for x in rets[-1].value.elts]
    perm = None
    for n in ast.walk(resp.node):
        if isinstance(n, ast.Assign):
            pairs = list(zip(n.targets[0].elts, n.value.elts)) if isinstance(n.targets[0], ast.Tuple) and isinstance(n.value, ast.Tuple) \
                and len(n.targets[0].elts) == len(n.value.elts) else [(n.targets[0], n.value)]
            for t, v in pairs:
                if norm(t) == qname and isinstance(v, ast.Subscript) and isinstance(v.value, ast.Name) and \
                        isinstance(v.slice, ast.Tuple) and len(v.slice.elts) == 2 and isinstance(v.slice.elts[0], ast.Slice):
                    perm = n          # Q = <vectors>[:, order]
                    src_q = v.value.id
    if perm is None:
        raise AnalysisError("EigenSolve._response: permutation of the eigenvectors not found")
    # top-level statement order
    body = resp.node.body

    def top(n):
        while parent(n) is not resp.node:
            n = parent(n)
        return body.index(n)
    ip = top(perm)
    # names defined before the permutation from the (unsorted) spectrum
    stale: Dict[str, ast.AST] = {}
    for st in body[:ip]:
        for n in ast.walk(st):
            if isinstance(n, ast.Assign) and isinstance(n.targets[0], ast.Name) and n.targets[0].id not in (wname, qname, src_q) and \
                    (_names(n.value) & {wname, qname, src_q}) and not (isinstance(n.value, ast.Subscript) and isinstance(n.value.slice, ast.Constant)):
                stale[n.targets[0].id] = n
    # the permutation index itself and anything re-permuted afterwards is fine
    idx_names = _names(perm.value) - {wname, qname}
    n_checked = 0
    for st in body[ip + 1:]:
        for n in ast.walk(st):
            if isinstance(n, ast.Name) and isinstance(n.ctx, ast.Load) and n.id in stale and n.id not in idx_names:
                # redefined after the permutation?
                redefined = any(isinstance(x, ast.Assign) and isinstance(x.targets[0], ast.Name) and x.targets[0].id == n.id
                                for s2 in body[ip:] for x in ast.walk(s2) if getattr(x, "lineno", 0) < n.lineno)
                if redefined:
                    continue
                d = stale[n.id]
                col.bad(where_of(resp), resp.rel, line_of(n), f"'{n.id}' computed before the sort, used after it",
                        f"'{stmt_key(d)}' is evaluated on the unsorted eigenvectors, but it is used after '{stmt_key(perm)}' "
                        f"reordered them: entry i then belongs to a different mode (non-identity sorting functions)")
                n_checked += 1
    if n_checked == 0:
        col.ok(where_of(resp), resp.rel, line_of(perm), "no per-mode data carried across the sorting permutation",
               f"{len(stale)} name(s) derived from the unsorted spectrum, none used after '{stmt_key(perm)}'")
    dedupe(col)


@rule("R-SHIFT-GUARD", floor=1)
def r_shift_guard(ctx: RuleCtx, col: Collector):
    """Sparse shift-and-invert: the un-shifted matrix is factorised only when sigma == 0 (the eigensolver always gets
    sigma); the decision must be an (in)equality with zero, not an ordering test that sends negative shifts down the
    un-shifted branch."""
    from .eig import _eig, _af
    from .solver import guard_facts
    m = ctx.model
    es, resp = _eig(ctx)
    f = None
    for g in _af(ctx, es).closure(resp):
        if any(isinstance(x, ast.Call) and isinstance(x.func, ast.Attribute) and x.func.attr in ("eigsh", "eigs") for x in ast.walk(g.node)):
            f = g
    if f is None:
        raise AnalysisError("sparse eigensolver call not found")
    selfn = m.self_name(f)
    shift = None
    for n in ast.walk(f.node):
        if isinstance(n, ast.Assign) and isinstance(n.value, ast.BinOp) and isinstance(n.value.op, ast.Sub) and \
                isinstance(n.value.right, ast.BinOp) and isinstance(n.value.right.op, ast.Mult) and "sigma" in norm(n.value.right):
            shift = n
    if shift is None:
        raise AnalysisError(f"{f.short}: shifted matrix (A - sigma*M) not found")
    tname = norm(shift.targets[0])
    plain = [n for n in ast.walk(f.node) if isinstance(n, ast.Assign) and norm(n.targets[0]) == tname and n is not shift]
    cfg = ctx.flow.cfg(f)
    sig = f"{selfn}.sigma"
    n_ok = 0
    for p in plain:
        nd = cfg.node_of(p)
        facts = []
        for t, pol in guard_facts(cfg, nd):
            if t.isidentifier():
                defs = [x.value for x in ast.walk(f.node) if isinstance(x, ast.Assign) and any(isinstance(y, ast.Name) and y.id == t for y in x.targets)]
                if len(defs) == 1:
                    t2 = norm(defs[0])
                    if t2.startswith("not"):
                        t2, pol = t2[3:].strip("()"), not pol
                    t = t2
            facts.append((t, pol))
        rel = [(t, pol) for t, pol in facts if sig in t]
        construct = f"un-shifted operator '{stmt_key(p)}'"
        zero = {f"{sig}==0.0", f"{sig}==0", f"0=={sig}", f"0.0=={sig}"}
        nonzero = {f"{sig}!=0", f"{sig}!=0.0", sig, f"0!={sig}"}
        if any((t in zero and pol) or (t in nonzero and not pol) for t, pol in rel):
            col.ok(where_of(f), f.rel, line_of(p), construct, "only when sigma == 0")
            n_ok += 1
        elif any(any(op in t for op in (">", "<")) for t, _ in rel):
            bt = [t for t, _ in rel if any(op in t for op in (">", "<"))][0]
            col.bad(where_of(f), f.rel, line_of(p), construct,
                    f"the un-shifted matrix is used when '{bt}' decides so: for shifts on the other side of zero the operator is "
                    f"A^-1 while the eigensolver is told sigma, so the returned values are not eigenvalues of the pencil")
        elif not rel:
            col.bad(where_of(f), f.rel, line_of(p), construct,
                    "the un-shifted matrix is used without a test that sigma is zero, while sigma is passed to the eigensolver")
        else:
            raise AnalysisError(f"{f.short}: cannot interpret the guard {rel} of the un-shifted operator")
    if not plain:
        col.ok(where_of(f), f.rel, line_of(shift), "operator always shifted", stmt_key(shift))


# ---------------------------------------------------------------------------------------------------- C13
@rule("R-POLY", floor=2)
def r_poly(ctx: RuleCtx, col: Collector):
    """Shape functions and their derivatives are polynomials in the evaluation point: neither function divides by a
    quantity that depends on the point (a quotient N/(w/2 +- x) is singular on element faces, where the derivative is
    well defined)."""
    m = ctx.model
    dd = m.public_class("DomainDefinition")
    for name in ("eval_shape_fun", "eval_shape_fun_der"):
        f = m.resolve_method(dd, name)
        if f is None:
            raise AnalysisError(f"DomainDefinition.{name} not found")
        pos = f.pos_params()
        if not pos:
            raise AnalysisError(f"{name} has no point parameter")
        # calls of the sibling shape-function evaluator with the point make the result point-dependent
        dep = _dependent_names(f.node, set(pos))
        bad = False
        for n in ast.walk(f.node):
            den = None
            if isinstance(n, ast.BinOp) and isinstance(n.op, (ast.Div, ast.FloorDiv)):
                den = n.right
            elif isinstance(n, ast.AugAssign) and isinstance(n.op, (ast.Div, ast.FloorDiv)):
                den = n.value
            elif isinstance(n, ast.Call) and norm(n.func) in ("np.divide", "np.true_divide", "np.reciprocal") and n.args:
                den = n.args[-1] if norm(n.func) != "np.reciprocal" else n.args[0]
            elif isinstance(n, ast.BinOp) and isinstance(n.op, ast.Pow) and isinstance(n.right, ast.UnaryOp) and isinstance(n.right.op, ast.USub):
                den = n.left
            if den is not None and (_names(den) & dep):
                col.bad(where_of(f), f.rel, line_of(n), f"{name}: {stmt_key(n) if isinstance(n, ast.stmt) else norm(n)}",
                        f"division by '{U(den)}', which depends on the evaluation point: the expression is singular (0/0 or "
                        f"masked to 0) where that factor vanishes, i.e. on element faces, edges and corners")
                bad = True
        if not bad:
            col.ok(where_of(f), f.rel, line_of(f.node), f"{name}: polynomial in the point", "no division by a point-dependent quantity")
    dedupe(col)


# ---------------------------------------------------------------------------------------------------- C14
@rule("R-SWEEP-TOTAL", floor=1)    # at least one layer sweep written as a while loop
def r_sweep_total(ctx: RuleCtx, col: Collector):
    """Layer sweeps of modules visit every layer: the continuation test of a `while` sweep and the guard of every
    `break` inside a sweep of a module's _response/_sensitivity depend only on counters and configuration, never on the
    data being filtered (layers skipped by a data-dependent exit keep their initial, unfiltered values)."""
    m = ctx.model
    for c, f in module_methods(ctx, "_response") + module_methods(ctx, "_sensitivity"):
        if f.cls is not c:
            continue
        selfn = m.self_name(f)
        seeds = set(f.pos_params()) | ({f.vararg()} if f.vararg() else set())
        # signal states read directly are data as well
        dep = _dependent_names(f.node, seeds, selfn=selfn)
        for n in ast.walk(f.node):
            if isinstance(n, ast.Assign) and any(isinstance(x, ast.Attribute) and x.attr in ("state", "sensitivity") for x in ast.walk(n.value)):
                for t in n.targets:
                    for x in ast.walk(t):
                        if isinstance(x, ast.Name) and x.id != selfn:
                            dep.add(x.id)
        # attributes written from data in this method are data when read back
        data_attrs = set()
        for n in ast.walk(f.node):
            if isinstance(n, ast.Assign) and (_names(n.value) & dep):
                for t in n.targets:
                    b = t
                    while isinstance(b, ast.Subscript):
                        b = b.value
                    if isinstance(b, ast.Attribute) and isinstance(b.value, ast.Name) and b.value.id == selfn:
                        data_attrs.add(b.attr)
        dep = _dependent_names(f.node, dep, attr_seeds=data_attrs, selfn=selfn)
        dep.discard(selfn)
        loops = [n for n in ast.walk(f.node) if isinstance(n, (ast.While, ast.For))]
        for lp in loops:
            # only sweeps that store into subscripted arrays per iteration
            stores = [x for b in lp.body for x in ast.walk(b) if isinstance(x, (ast.Assign, ast.AugAssign)) and
                      isinstance((x.targets[0] if isinstance(x, ast.Assign) else x.target), ast.Subscript)]
            if not stores:
                continue
            exits: List[Tuple[ast.AST, ast.AST, str]] = []
            if isinstance(lp, ast.While) and not (isinstance(lp.test, ast.Constant) and lp.test.value is True):
                exits.append((lp, lp.test, "continuation test"))
            for b in lp.body:
                for x in ast.walk(b):
                    if isinstance(x, ast.Break):
                        # innermost enclosing loop must be lp
                        p = parent(x)
                        guard = None
                        inner = False
                        while p is not lp and p is not None:
                            if isinstance(p, (ast.While, ast.For)):
                                inner = True
                            if isinstance(p, ast.If) and guard is None:
                                guard = p.test
                            p = parent(p)
                        if not inner:
                            exits.append((x, guard, "break"))
            for at, guard, kind in exits:
                construct = f"{c.name}.{f.name}: {kind} '{norm(guard) if guard is not None else 'unconditional'}'"
                attr_dep = guard is not None and any(
                    isinstance(x, ast.Attribute) and isinstance(x.value, ast.Name) and x.value.id == selfn and x.attr in data_attrs
                    for x in ast.walk(guard))
                if guard is not None and ((_names(guard) & dep) or attr_dep):
                    col.bad(where_of(f), f.rel, line_of(at), construct,
                            f"the sweep is left depending on the data ({sorted(_names(guard) & dep)}): the layers not visited keep "
                            f"the values they were initialised with instead of the filtered ones")
                else:
                    col.ok(where_of(f), f.rel, line_of(at), construct, "exit decided by counters / configuration only")
    dedupe(col)


# ---------------------------------------------------------------------------------------------------- C15
def _same_expr_product(n: ast.AST) -> Optional[ast.AST]:
    """X if `n` is a bilinear self-product of X without conjugation: X.dot(X), X @ X, np.dot(X, X), np.inner(X, X),
    np.sum(X*X), (X*X).sum(), np.sum(X**2), X.T @ X."""
    def strip_t(e):
        return e.value if isinstance(e, ast.Attribute) and e.attr == "T" else e
    if isinstance(n, ast.BinOp) and isinstance(n.op, ast.MatMult) and norm(strip_t(n.left)) == norm(strip_t(n.right)):
        return n.right
    if isinstance(n, ast.Call):
        fn = norm(n.func)
        if isinstance(n.func, ast.Attribute) and n.func.attr == "dot" and len(n.args) == 1 and norm(strip_t(n.func.value)) == norm(strip_t(n.args[0])) \
                and fn not in ("np.dot",):
            return n.args[0]
        if fn in ("np.dot", "np.inner", "numpy.dot") and len(n.args) == 2 and norm(strip_t(n.args[0])) == norm(strip_t(n.args[1])):
            return n.args[0]
        inner = None
        if fn in ("np.sum", "sum") and n.args:
            inner = n.args[0]
        elif isinstance(n.func, ast.Attribute) and n.func.attr == "sum":
            inner = n.func.value
        if inner is not None:
            if isinstance(inner, ast.BinOp) and isinstance(inner.op, ast.Mult) and norm(inner.left) == norm(inner.right):
                return inner.left
            if isinstance(inner, ast.BinOp) and isinstance(inner.op, ast.Pow) and isinstance(inner.right, ast.Constant) and inner.right.value == 2:
                return inner.left
    return None


def _real_by_construction(f: FuncInfo, e: ast.AST) -> bool:
    t = norm(e)
    if any(k in t for k in ("abs(", ".real", "np.real(", "np.absolute(", "np.linalg.norm(")):
        return True
    # differences of integer index arrays / coordinates are real; accept names defined from integer-typed expressions
    if isinstance(e, ast.Name):
        defs = [x.value for x in ast.walk(f.node) if isinstance(x, ast.Assign) and any(isinstance(y, ast.Name) and y.id == e.id for y in x.targets)]
        if defs and all(any(k in norm(d) for k in ("abs(", ".real", "np.real(", "arange(", "meshgrid(", "int(", "astype(int", "dtype=int", "np.sign(")) for d in defs):
            return True
    return False


@rule("R-SELFDOT", floor=0, witness_min=1)
def r_selfdot(ctx: RuleCtx, col: Collector):
    """In code that handles complex data (DyadCarrier, the iterative solvers), a vector is tested for being zero, or
    its size measured, with a norm or a conjugated product - never with the bilinear self-product x.x (x @ x, x.dot(x),
    sum(x*x)), which vanishes for non-zero complex vectors such as [1, 1j]."""
    m = ctx.model
    scope = []
    dc = m.public_class("DyadCarrier")
    for defs in dc.methods.values():
        scope += defs
    for f in _functions(m):
        if f.rel.startswith("pymoto/solvers/") or f.rel == "pymoto/_pmlint_witness.py":
            scope.append(f)
    seen = set()
    for f in scope:
        if id(f) in seen:
            continue
        seen.add(id(f))
        for n in ast.walk(f.node):
            if not isinstance(n, ast.Compare) or len(n.ops) != 1:
                continue
            for side, other in ((n.left, n.comparators[0]), (n.comparators[0], n.left)):
                x = _same_expr_product(side)
                if x is None:
                    continue
                if not (isinstance(other, ast.Constant) or isinstance(other, (ast.Name, ast.Attribute, ast.BinOp))):
                    continue
                if _real_by_construction(f, x):
                    col.ok(where_of(f), f.rel, line_of(n), norm(n), "operand is real by construction")
                    continue
                col.bad(where_of(f), f.rel, line_of(n), norm(n),
                        f"'{norm(side)}' is the un-conjugated self-product of '{U(x)}': for complex data it is not a norm (it "
                        f"is 0 for non-zero vectors like [1, 1j], and complex otherwise), so the test drops or mis-sizes valid "
                        f"vectors; use np.linalg.norm / np.vdot / x @ x.conj()")
    dedupe(col)


# ---------------------------------------------------------------------------------------------------- C16
@rule("R-MEM-HOLD", floor=1)
def r_mem_hold(ctx: RuleCtx, col: Collector):
    """Aggregation keeps, as its only memory, the value returned by the scaling strategy for the current call: every
    write of the scale-factor attribute in _response is a plain assignment of the strategy's result, whose arguments do
    not read the attribute (the damping recurrence lives in AggScaling alone and is fed the un-scaled aggregate)."""
    m = ctx.model
    c = m.get_class("Aggregation")
    f = m.resolve_method(c, "_response")
    selfn = m.self_name(f)
    # the attribute that multiplies the returned aggregate
    # the scale-factor attribute: written from a call of a strategy object held by the module (self.<obj>(...))
    attrs = set()
    strategy = {x.attr for x in ast.walk(f.node) if isinstance(x, ast.Attribute) and isinstance(x.value, ast.Name) and x.value.id == selfn
                and isinstance(parent(x), ast.Call) and parent(x).func is x and m.resolve_method(c, x.attr) is None}
    for n in ast.walk(f.node):
        tgt = n.targets[0] if isinstance(n, ast.Assign) else (n.target if isinstance(n, ast.AugAssign) else None)
        if isinstance(tgt, ast.Attribute) and isinstance(tgt.value, ast.Name) and tgt.value.id == selfn:
            v = expand_names(f.node, n.value)
            if any(isinstance(x, ast.Call) and isinstance(x.func, ast.Attribute) and isinstance(x.func.value, ast.Name) and
                   x.func.value.id == selfn and x.func.attr in strategy for x in ast.walk(v)):
                # ... and used as a multiplicative factor of the result
                if any(isinstance(b, ast.BinOp) and isinstance(b.op, ast.Mult) and any(
                        isinstance(sd, ast.Attribute) and isinstance(sd.value, ast.Name) and sd.value.id == selfn and sd.attr == tgt.attr
                        for sd in (b.left, b.right)) for b in ast.walk(f.node)):
                    attrs.add(tgt.attr)
    writes = []
    for n in ast.walk(f.node):
        tgt = None
        if isinstance(n, ast.Assign):
            tgt = n.targets[0]
        elif isinstance(n, ast.AugAssign):
            tgt = n.target
        if isinstance(tgt, ast.Attribute) and isinstance(tgt.value, ast.Name) and tgt.value.id == selfn and tgt.attr in attrs:
            writes.append(n)
    if not writes:
        raise AnalysisError("Aggregation._response: write of the scale factor not found")
    for w in writes:
        if isinstance(w, ast.Assign):
            w = ast.copy_location(ast.Assign(targets=w.targets, value=expand_names(f.node, w.value)), w)
        attr = (w.targets[0] if isinstance(w, ast.Assign) else w.target).attr
        construct = f"Aggregation._response: write of self.{attr}"
        reads_self = any(isinstance(x, ast.Attribute) and isinstance(x.value, ast.Name) and x.value.id == selfn and x.attr == attr
                         for x in ast.walk(w.value))
        if isinstance(w, ast.AugAssign):
            col.bad(where_of(f), f.rel, line_of(w), construct,
                    f"'{stmt_key(w)}' updates the scale factor from its own previous value: the module then carries a second "
                    f"recurrence on top of AggScaling's, and the factor no longer follows s_k = d*s_(k-1) + (1-d)*true/approx")
        elif reads_self:
            col.bad(where_of(f), f.rel, line_of(w), construct,
                    f"'{stmt_key(w)}' feeds the previous scale factor back into the strategy: it is defined on the un-scaled "
                    f"aggregate")
        elif isinstance(w.value, ast.Call) and isinstance(w.value.func, ast.Attribute) and isinstance(w.value.func.value, ast.Name) and \
                w.value.func.value.id == selfn:
            col.ok(where_of(f), f.rel, line_of(w), construct, f"plain assignment of the strategy result '{U(w.value.func)}(...)'")
        elif isinstance(w.value, ast.Constant):
            col.ok(where_of(f), f.rel, line_of(w), construct, "constant")
        else:
            raise AnalysisError(f"Aggregation._response: unrecognised scale-factor update '{stmt_key(w)}'")


# ---------------------------------------------------------------------------------------------------- C17 / C10
@rule("R-RUN-OFFSET", floor=0, witness_min=1)
def r_run_offset(ctx: RuleCtx, col: Collector):
    """A running offset that addresses consecutive extents x[o:o+n] inside a loop is advanced by accumulation
    (o += n, or o = o + n): assigning the size (o = n) addresses the extent of the second variable for every later
    one."""
    m = ctx.model
    for f in _functions(m):
        offs: Dict[Tuple[int, str], Tuple[ast.AST, ast.AST]] = {}
        for x in ast.walk(f.node):
            if isinstance(x, ast.Subscript) and isinstance(x.slice, ast.Slice) and isinstance(x.slice.lower, ast.Name) and \
                    isinstance(x.slice.upper, ast.BinOp) and isinstance(x.slice.upper.op, ast.Add) and \
                    x.slice.lower.id in {norm(x.slice.upper.left), norm(x.slice.upper.right)}:
                lp = parent(x)
                while lp is not None and not isinstance(lp, (ast.For, ast.While)):
                    lp = parent(lp) if lp is not f.node else None
                if lp is not None:
                    offs.setdefault((id(lp), x.slice.lower.id), (lp, x))
        for (_, o), (lp, use) in offs.items():
            if isinstance(lp, ast.For) and o in _names(lp.target):
                continue
            upd = [x for b in lp.body for x in ast.walk(b) if (isinstance(x, ast.AugAssign) and norm(x.target) == o) or
                   (isinstance(x, ast.Assign) and any(norm(t) == o for t in x.targets))]
            for u in upd:
                construct = f"{f.short}: running offset '{o}' for '{norm(use)}'"
                if isinstance(u, ast.AugAssign) and isinstance(u.op, ast.Add):
                    col.ok(where_of(f), f.rel, line_of(u), construct, f"advanced by '{stmt_key(u)}'")
                elif isinstance(u, ast.Assign) and o in _names(u.value):
                    col.ok(where_of(f), f.rel, line_of(u), construct, f"advanced by '{stmt_key(u)}'")
                else:
                    col.bad(where_of(f), f.rel, line_of(u), construct,
                            f"'{stmt_key(u)}' replaces the offset instead of advancing it: from the third extent on, the "
                            f"slice '{norm(use)}' addresses data of another variable")
    dedupe(col)


# ---------------------------------------------------------------------------------------------------- C18
@rule("R-SLICE-ARITH", floor=0, witness_min=1)
def r_slice_arith(ctx: RuleCtx, col: Collector):
    """Slice bounds are never combined arithmetically (start + offset, min(stop, ..)) unless they were normalised with
    slice.indices(len): raw .start/.stop may be None or negative (counted from the end), for which such arithmetic
    addresses a different range."""
    m = ctx.model
    for f in _functions(m):
        norm_names: Set[str] = set()
        for n in ast.walk(f.node):
            if isinstance(n, ast.Assign) and isinstance(n.value, ast.Call) and isinstance(n.value.func, ast.Attribute) and n.value.func.attr == "indices":
                for t in n.targets:
                    norm_names |= {x.id for x in ast.walk(t) if isinstance(x, ast.Name)}
        for n in ast.walk(f.node):
            ops = []
            if isinstance(n, ast.BinOp) and isinstance(n.op, (ast.Add, ast.Sub, ast.Mult)):
                ops = [n.left, n.right]
            elif isinstance(n, ast.Call) and isinstance(n.func, ast.Name) and n.func.id in ("min", "max"):
                ops = list(n.args)
            elif isinstance(n, ast.Compare) and any(isinstance(o, (ast.Lt, ast.Gt, ast.LtE, ast.GtE)) for o in n.ops):
                ops = [n.left] + list(n.comparators)
            for o in ops:
                if isinstance(o, ast.Attribute) and o.attr in ("start", "stop") and not isinstance(parent(n), ast.JoinedStr):
                    col.bad(where_of(f), f.rel, line_of(n), norm(n),
                            f"'{U(o)}' is used in arithmetic without normalisation through slice.indices(len): for None or "
                            f"negative (from-the-end) bounds the computed range is a different one")
    dedupe(col)


# ---------------------------------------------------------------------------------------------------- C19
@rule("R-NPMATRIX", floor=2)
def r_npmatrix(ctx: RuleCtx, col: Collector):
    """finite_difference forms its difference quotients with ndarray semantics: sparse outputs are converted with
    .toarray() (ndarray), never with .todense() / np.matrix / np.asmatrix, whose `*` is the matrix product - the
    contraction sum(df * df_an) would silently become a different number."""
    m = ctx.model
    f = m.public_function("finite_difference")
    n_conv = 0
    for n in ast.walk(f.node):
        if isinstance(n, ast.Call):
            fn = norm(n.func)
            if isinstance(n.func, ast.Attribute) and n.func.attr == "todense" or fn in ("np.matrix", "np.asmatrix", "numpy.matrix", "np.mat"):
                wrapped = isinstance(parent(n), ast.Call) and norm(parent(n).func) in ("np.asarray", "np.array")
                if wrapped:
                    n_conv += 1
                    col.ok(where_of(f), f.rel, line_of(n), norm(n), "converted back to ndarray at once")
                else:
                    n_conv += 1
                    col.bad(where_of(f), f.rel, line_of(n), norm(n),
                            f"'{norm(n)}' yields an np.matrix for scipy sparse data; the quotient built from it is multiplied "
                            f"element-wise with the analytical sensitivity further on, which for np.matrix is a matrix product")
            elif isinstance(n.func, ast.Attribute) and n.func.attr in ("toarray",):
                n_conv += 1
                col.ok(where_of(f), f.rel, line_of(n), norm(n), "ndarray conversion")
    if n_conv == 0:
        raise AnalysisError("finite_difference: sparse-output conversion not found")
    dedupe(col)


@rule("R-OVERLAP-SYM", floor=1)
def r_overlap_sym(ctx: RuleCtx, col: Collector):
    """The helper that decides which modules lie between the perturbed and the observed signals compares *base*
    signals on both sides: a SignalSlice among the arguments and a SignalSlice among a module's own inputs / outputs
    both stand for their base signal."""
    m = ctx.model
    f = None
    for g in _functions(m):
        if g.rel == "pymoto/routines.py" and g.name == "_has_signal_overlap":
            f = g
    if f is None:
        raise AnalysisError("routines._has_signal_overlap not found")
    params = f.pos_params()
    if len(params) != 2:
        raise AnalysisError("_has_signal_overlap: expected two signal lists")
    def strips_slices(fn_node) -> bool:
        for x in ast.walk(fn_node):
            if isinstance(x, ast.While) and isinstance(x.test, ast.Call) and norm(x.test.func) == "isinstance" and len(x.test.args) == 2 \
                    and isinstance(x.test.args[0], ast.Name) and "SignalSlice" in norm(x.test.args[1]):
                v = x.test.args[0].id
                if any(isinstance(y, ast.Assign) and norm(y) == f"{v}={v}.base" for y in ast.walk(x)):
                    return True
        return False
    resolving_funcs = {g.name for g in _functions(m) if g.rel == f.rel and g is not f and strips_slices(g.node) and
                       any(isinstance(r, ast.Return) for r in ast.walk(g.node))}
    # function-level names that hold a base signal
    resolved: Set[str] = set()
    for x in ast.walk(f.node):
        if isinstance(x, ast.While) and isinstance(x.test, ast.Call) and norm(x.test.func) == "isinstance" and len(x.test.args) == 2 \
                and isinstance(x.test.args[0], ast.Name) and "SignalSlice" in norm(x.test.args[1]):
            v = x.test.args[0].id
            if any(isinstance(y, ast.Assign) and norm(y) == f"{v}={v}.base" for y in ast.walk(x)):
                resolved.add(v)
    comp_targets = {y.id for n in ast.walk(f.node) if isinstance(n, ast.comprehension) for y in ast.walk(n.target) if isinstance(y, ast.Name)}

    def is_res(e, renv: Set[str]) -> bool:
        """expression denotes (the identity of) a base signal, or a container of such"""
        if isinstance(e, ast.Name):
            return e.id in renv
        if isinstance(e, ast.Attribute) and e.attr == "base_signal":
            return True
        if isinstance(e, ast.Call):
            if isinstance(e.func, ast.Name) and e.func.id in resolving_funcs:
                return True
            if isinstance(e.func, ast.Name) and e.func.id in ("id", "set", "list", "tuple", "frozenset") and e.args:
                return is_res(e.args[0], renv)
        if isinstance(e, (ast.SetComp, ast.ListComp, ast.GeneratorExp)):
            return is_res(e.elt, renv)
        return False

    def org(e, oenv: Dict[str, Set[str]]) -> Set[str]:
        if isinstance(e, ast.Name):
            return set(oenv.get(e.id, ()))
        if isinstance(e, (ast.SetComp, ast.ListComp, ast.GeneratorExp)):
            o = set()
            for g in e.generators:
                o |= org(g.iter, oenv)
            return o
        o = set()
        for ch in ast.iter_child_nodes(e):
            o |= org(ch, oenv)
        return o
    origin: Dict[str, Set[str]] = {p: {p} for p in params}
    changed = True
    while changed:
        changed = False
        for n in ast.walk(f.node):
            tg, src = [], None
            if isinstance(n, ast.For):
                tg, src = [n.target], n.iter
            elif isinstance(n, ast.Assign):
                tg, src = n.targets, n.value
            elif isinstance(n, ast.Call) and isinstance(n.func, ast.Attribute) and n.func.attr in ("append", "add") and \
                    isinstance(n.func.value, ast.Name) and len(n.args) == 1:
                # a list / set filled element by element: it holds what is appended
                cname = n.func.value.id
                o_ = org(n.args[0], origin)
                if not o_ <= origin.get(cname, set()):
                    origin[cname] = origin.get(cname, set()) | o_
                    changed = True
                others = [x for x in ast.walk(f.node) if isinstance(x, ast.Call) and isinstance(x.func, ast.Attribute) and
                          x.func.attr in ("append", "add", "extend", "update", "insert") and isinstance(x.func.value, ast.Name)
                          and x.func.value.id == cname]
                if cname not in resolved and all(len(x.args) == 1 and is_res(x.args[0], resolved) for x in others):
                    resolved.add(cname)
                    changed = True
                continue
            if src is None:
                continue
            o = org(src, origin)
            for t in tg:
                for y in ast.walk(t):
                    if isinstance(y, ast.Name) and y.id not in comp_targets and not o <= origin.get(y.id, set()):
                        origin[y.id] = origin.get(y.id, set()) | o
                        changed = True
            if isinstance(n, ast.Assign) and len(n.targets) == 1 and isinstance(n.targets[0], ast.Name) and \
                    n.targets[0].id not in resolved and is_res(n.value, resolved):
                resolved.add(n.targets[0].id)
                changed = True
    # comparisons between elements of the two lists, with comprehension variables scoped
    comps = []

    def visit(n, oenv, renv):
        if isinstance(n, (ast.SetComp, ast.ListComp, ast.GeneratorExp)):
            oenv2, renv2 = dict(oenv), set(renv)
            for g in n.generators:
                o = org(g.iter, oenv2)
                for y in ast.walk(g.target):
                    if isinstance(y, ast.Name):
                        oenv2[y.id] = o
                        renv2.discard(y.id)
                        if is_res(g.iter, renv2):
                            renv2.add(y.id)
                for c_ in g.ifs:
                    visit(c_, oenv2, renv2)
            visit(n.elt, oenv2, renv2)
            return
        if isinstance(n, ast.Compare) and len(n.ops) == 1 and isinstance(n.ops[0], (ast.Eq, ast.Is, ast.In)):
            sides = [n.left, n.comparators[0]]
            so = [org(sd, oenv) for sd in sides]
            if so[0] and so[1] and so[0] != so[1]:
                comps.append((n, sides, so, [is_res(sd, renv) for sd in sides]))
        for ch in ast.iter_child_nodes(n):
            visit(ch, oenv, renv)
    visit(f.node, origin, resolved)
    if not comps:
        raise AnalysisError("_has_signal_overlap: comparison between the two signal lists not recognised")
    for p in params:
        construct = f"_has_signal_overlap: elements of '{p}' compared as base signals"
        bad = None
        seen = False
        for n, sides, so, rs in comps:
            for sd, o, r in zip(sides, so, rs):
                if p in o:
                    seen = True
                    if not r:
                        bad = n
        if not seen:
            raise AnalysisError(f"_has_signal_overlap: iteration over '{p}' not recognised")
        if bad is None:
            col.ok(where_of(f), f.rel, line_of(f.node), construct, "resolved through .base while it is a SignalSlice")
        else:
            col.bad(where_of(f), f.rel, line_of(bad), construct,
                    f"in '{norm(bad)}' the elements of '{p}' are compared as they are: a module reading or writing a slice of the "
                    f"signal is not recognised as connected to it, so it is left out of the sub-network that finite_difference "
                    f"re-evaluates")


# ---------------------------------------------------------------------------------------------------- C20
@rule("R-SAME-WALK", floor=1)
def r_same_walk(ctx: RuleCtx, col: Collector):
    """ScalarToFile: for a multi-valued signal, the values of a row and the column names of the header come from one
    and the same traversal of the array (same loop / same iterator), so that name k labels value k whatever the memory
    layout of the state."""
    m = ctx.model
    stf = m.public_class("ScalarToFile")
    f = m.resolve_method(stf, "_response")
    # the two lists: joined and written
    lists = []
    for n in ast.walk(f.node):
        if isinstance(n, ast.Call) and isinstance(n.func, ast.Attribute) and n.func.attr == "join" and n.args and isinstance(n.args[0], ast.Name):
            if n.args[0].id not in lists:
                lists.append(n.args[0].id)
    if len(lists) != 2:
        # one list of (name, value) pairs, projected twice when written: sep.join(n for n, _ in cols) / (v for _, v in cols)
        proj = {}
        for n in ast.walk(f.node):
            if isinstance(n, ast.Call) and isinstance(n.func, ast.Attribute) and n.func.attr == "join" and n.args and \
                    isinstance(n.args[0], (ast.GeneratorExp, ast.ListComp)) and len(n.args[0].generators) == 1:
                g = n.args[0].generators[0]
                if isinstance(g.iter, ast.Name) and isinstance(g.target, ast.Tuple) and len(g.target.elts) == 2 and isinstance(n.args[0].elt, ast.Name):
                    names_ = [norm(e) for e in g.target.elts]
                    if n.args[0].elt.id in names_:
                        proj.setdefault(g.iter.id, set()).add(names_.index(n.args[0].elt.id))
        for lst, comps in proj.items():
            appended = [x for x in ast.walk(f.node) if isinstance(x, ast.Call) and isinstance(x.func, ast.Attribute) and x.func.attr == "append"
                        and norm(x.func.value) == lst]
            if comps == {0, 1} and appended and all(len(x.args) == 1 and isinstance(x.args[0], ast.Tuple) and len(x.args[0].elts) == 2 for x in appended):
                col.ok(where_of(f), f.rel, line_of(appended[0]), "ScalarToFile: names and values of a multi-valued signal come from one traversal",
                       f"'{lst}' holds (name, value) pairs: every name is appended together with its value")
                return
        raise AnalysisError("ScalarToFile._response: header and row lists not recognised")
    # both produced together as (name, value) pairs and split afterwards (T, D = zip(*pairs)): one walk by construction
    for n in ast.walk(f.node):
        if isinstance(n, ast.Assign) and isinstance(n.targets[0], ast.Tuple) and [norm(e) for e in n.targets[0].elts] in (lists, lists[::-1]) \
                and isinstance(n.value, ast.Call) and norm(n.value.func) == "zip" and len(n.value.args) == 1 and \
                isinstance(n.value.args[0], ast.Starred):
            col.ok(where_of(f), f.rel, line_of(n), "ScalarToFile: names and values of a multi-valued signal come from one traversal",
                   f"{lists[0]} and {lists[1]} are the two halves of one sequence of (name, value) pairs")
            return

    def producers(name):
        out = []
        for n in ast.walk(f.node):
            if isinstance(n, ast.Call) and isinstance(n.func, ast.Attribute) and n.func.attr in ("append", "extend") and \
                    isinstance(n.func.value, ast.Name) and n.func.value.id == name:
                out.append(n)
            if isinstance(n, ast.AugAssign) and isinstance(n.target, ast.Name) and n.target.id == name:
                out.append(n)
        return out

    def loop_of(n):
        p = parent(n)
        chain = []
        while p is not None and p is not f.node:
            if isinstance(p, (ast.For, ast.While)):
                chain.append(p)
            p = parent(p)
        return chain
    a, b = lists
    pa, pb = producers(a), producers(b)
    per_sig = [lp for lp in ast.walk(f.node) if isinstance(lp, ast.For) and "sig_in" in norm(lp.iter)]
    if not per_sig:
        raise AnalysisError("ScalarToFile._response: loop over the input signals not found")
    outer = per_sig[0]
    bad = False
    n_inner = 0
    for x in pa + pb:
        ch = loop_of(x)
        inner = [lp for lp in ch if lp is not outer and outer in loop_of(lp) + [None] and lp in [y for y in ast.walk(outer)]]
        bulk = isinstance(x, ast.AugAssign) or (isinstance(x, ast.Call) and x.func.attr == "extend")
        if not inner and not bulk:
            continue
        n_inner += 1
        mine, others = (pa, pb) if x in pa else (pb, pa)
        other_name = b if x in pa else a
        if bulk:
            partner = [y for y in others if (isinstance(y, ast.AugAssign) or (isinstance(y, ast.Call) and y.func.attr == "extend")) and
                       loop_of(y) == ch]
            itx = [norm(g.iter) for g in ast.walk(x) if isinstance(g, ast.comprehension)]
            ok = any([norm(g.iter) for g in ast.walk(y) if isinstance(g, ast.comprehension)] == itx and itx for y in partner)
        else:
            ok = any(loop_of(y)[:1] == ch[:1] for y in others)
        if not ok:
            bad = True
            col.bad(where_of(f), f.rel, line_of(x), f"ScalarToFile: traversal feeding '{norm(x)[:60]}'",
                    f"the entries of a multi-valued signal are collected here by one traversal, but '{other_name}' is filled by "
                    f"a different one (another loop / iterator): np.nditer walks in memory order, .flat and comprehensions in "
                    f"logical order, so for a reversed or transposed state the header names label other values")
    if n_inner == 0:
        raise AnalysisError("ScalarToFile._response: traversal of multi-valued signals not recognised")
    if not bad:
        col.ok(where_of(f), f.rel, line_of(outer), "ScalarToFile: names and values of multi-valued signals share one traversal",
               f"{n_inner} producer(s) of '{a}' / '{b}' inside the same inner loop")
    dedupe(col)


# ---------------------------------------------------------------------------------------------------- C06
def _db_helper(ctx: RuleCtx):
    from .solver import _db_calls
    lda, solve, update, calls = _db_calls(ctx)
    g = calls[0][1]
    appended = set()
    for _, _, _, ap in calls:
        appended |= set(ap)
    return g, appended


def _db_entry_vars(g: FuncInfo, dbs: Set[str]) -> Set[str]:
    """Loop variables that iterate over entries of the database lists (directly or through zip)."""
    out = set()
    for n in ast.walk(g.node):
        if isinstance(n, (ast.For, ast.comprehension)):
            if _names(n.iter) & dbs:
                out |= {x.id for x in ast.walk(n.target) if isinstance(x, ast.Name)}
    return out


@rule("R-DB-DTYPE", floor=3)
def r_db_dtype(ctx: RuleCtx, col: Collector):
    """LDAWrapper database helper: vectors stored by earlier calls may be complex while the arrays of the current call
    are real (real matrix, complex then real right-hand side).  Every *in-place* update of a current-call array with a
    term built from a database entry is therefore preceded, in the same block, by the complex-into-real test
    (np.iscomplexobj on the term / entry and on the accumulator) - otherwise NumPy refuses the cast and a call fails
    that succeeds on a fresh wrapper.  Out-of-place updates (a = a - t) promote and are fine."""
    g0, dbs0 = _db_helper(ctx)
    ev = _db_entry_vars(g0, dbs0)
    # the helper and the self-methods it hands the database lists to (one level)
    units = [(g0, set(dbs0))]
    lda = ctx.model.public_class("LDAWrapper")
    for c_ in ast.walk(g0.node):
        if isinstance(c_, ast.Call) and isinstance(c_.func, ast.Attribute) and norm(c_.func.value) == ctx.model.self_name(g0):
            for h in ctx.model.resolve_call(g0, c_, concrete=lda):
                if h is g0 or h.cls is None:
                    continue
                hp = h.pos_params()
                sub = {hp[i] for i, a in enumerate(c_.args) if i < len(hp) and isinstance(a, ast.Name) and a.id in dbs0}
                sub |= {k.arg for k in c_.keywords if k.arg and isinstance(k.value, ast.Name) and k.value.id in dbs0}
                if sub:
                    units.append((h, sub))
                    ev |= _db_entry_vars(h, sub)
    if not ev:
        raise AnalysisError(f"{g0.short}: no loop over the database entries found")
    n_sites = 0
    for g, dbs in units:
      for n in ast.walk(g.node):
          if not isinstance(n, ast.AugAssign) or not isinstance(n.op, (ast.Sub, ast.Add)):
              continue
          # term depends on a database entry variable of an enclosing loop (directly or via locals defined in that loop)
          lp = parent(n)
          loops = []
          while lp is not None and lp is not g.node:
              if isinstance(lp, ast.For):
                  loops.append(lp)
              lp = parent(lp)
          entry_here = set()
          for l in loops:
              if _names(l.iter) & dbs:
                  entry_here |= {x.id for x in ast.walk(l.target) if isinstance(x, ast.Name)}
          if not entry_here:
              continue
          inner = [l for l in loops if _names(l.iter) & dbs][0]
          dep = _dependent_names(inner, set(entry_here))
          if not (_names(n.value) & dep):
              continue
          tgt = n.target
          base = tgt
          while isinstance(base, ast.Subscript):
              base = base.value
          if not isinstance(base, ast.Name) or base.id in entry_here:
              continue
          n_sites += 1
          construct = f"{g.short}: '{stmt_key(n)}'"
          # arrays of the same dtype as the accumulator: what it was sliced / copied from (acc = arr[rows, ...])
          same_dtype = {base.id}
          grew = True
          while grew:
              grew = False
              for a_ in ast.walk(g.node):
                  if isinstance(a_, ast.Assign) and len(a_.targets) == 1 and isinstance(a_.targets[0], ast.Name) and a_.targets[0].id in same_dtype:
                      v_ = a_.value
                      while isinstance(v_, ast.Subscript) or (isinstance(v_, ast.Call) and isinstance(v_.func, ast.Attribute) and v_.func.attr == "copy" and not v_.args):
                          v_ = v_.value if isinstance(v_, ast.Subscript) else v_.func.value
                      if isinstance(v_, ast.Name) and v_.id not in same_dtype:
                          same_dtype.add(v_.id)
                          grew = True
          # preceding statements of the same block (and enclosing blocks inside the entry loop): complex-into-real test
          guarded = False
          st = n
          while st is not inner and st is not None:
              blk = parent(st)
              for fld in ("body", "orelse"):
                  lst = getattr(blk, fld, None)
                  if isinstance(lst, list) and st in lst:
                      for prev in lst[:lst.index(st)]:
                          if isinstance(prev, ast.If):
                              t = norm(prev.test)
                              term_names = (_names(n.value) & dep) | entry_here | (_names(prev.test) & dep)
                              if "iscomplexobj(" in t and any(f"iscomplexobj({v})" in t for v in term_names - same_dtype) and any(f"iscomplexobj({b_})" in t for b_ in same_dtype):
                                  guarded = True
              st = blk
          if guarded:
              col.ok(where_of(g), g.rel, line_of(n), construct, "preceded by the complex-into-real test on term and accumulator")
          else:
              col.bad(where_of(g), g.rel, line_of(n), construct,
                      f"'{base.id}' (dtype of the current call) is updated in place with a term built from a stored vector "
                      f"({sorted(_names(n.value) & dep)}) without the complex-into-real test its sibling updates have: after a "
                      f"complex right-hand side on a real matrix, a real one raises a casting error here")
    if n_sites == 0:
        col.ok(where_of(g0), g0.rel, line_of(g0.node), f"{g0.short}: no in-place update with database terms", "")
    dedupe(col)


@rule("R-GS-RANK", floor=1)
def r_gs_rank(ctx: RuleCtx, col: Collector):
    """LDAWrapper database helper: a new pair is stored only if what is left of its right-hand side after
    orthogonalisation against the stored ones is significant *relative to what it was* (or to a tolerance): the
    remainder of a linearly dependent vector is rounding noise, never exactly 0, and normalising it stores a junk pair
    that corrupts later solves.  The iterative solvers' orth() is the sibling (ratio < zero_rtol)."""
    g, dbs = _db_helper(ctx)
    appends = [n for n in ast.walk(g.node) if isinstance(n, ast.Call) and isinstance(n.func, ast.Attribute) and
               n.func.attr == "append" and isinstance(n.func.value, ast.Name) and n.func.value.id in dbs]
    if not appends:
        raise AnalysisError(f"{g.short}: database appends not found")
    # the normalisation: V /= N for an appended V
    appended_vars = {a.args[0].id for a in appends if a.args and isinstance(a.args[0], ast.Name)}
    # a pair stored as one tuple: basis.append((x, b))
    appended_vars |= {e.id for a in appends if a.args and isinstance(a.args[0], ast.Tuple) for e in a.args[0].elts if isinstance(e, ast.Name)}
    norms = {}
    for n in ast.walk(g.node):
        if isinstance(n, ast.AugAssign) and isinstance(n.op, ast.Div) and isinstance(n.target, ast.Name) and n.target.id in appended_vars \
                and isinstance(n.value, ast.Name):
            norms[n.value.id] = n
        if isinstance(n, ast.Assign) and isinstance(n.targets[0], ast.Name) and n.targets[0].id in appended_vars and \
                isinstance(n.value, ast.BinOp) and isinstance(n.value.op, ast.Div) and isinstance(n.value.right, ast.Name):
            norms[n.value.right.id] = n
    if not norms:
        raise AnalysisError(f"{g.short}: normalisation of the stored pair not found")
    for nn, at in sorted(norms.items()):
        # enclosing loop body of the normalisation; skip tests (if ...: continue) before it that mention the norm
        blk = parent(at)
        lst = blk.body if at in getattr(blk, "body", []) else getattr(blk, "orelse", [])
        tests = []
        for prev in lst[:lst.index(at)]:
            if isinstance(prev, ast.If) and any(isinstance(x, ast.Continue) for x in ast.walk(prev)) and nn in _names(prev.test):
                tests.append(prev)
        construct = f"{g.short}: significance test of the remainder norm '{nn}' before it is stored"
        rel = False
        exact = False
        for t in tests:
            for c in ast.walk(t.test):
                if isinstance(c, ast.Compare) and nn in _names(c):
                    others = [c.left] + list(c.comparators)
                    for o in others:
                        if nn in _names(o) and not (isinstance(o, ast.Name) and o.id == nn):
                            rel = True          # norm scaled / divided inside the comparison
                        elif not (isinstance(o, ast.Name) and o.id == nn):
                            if isinstance(o, ast.Constant) and o.value == 0:
                                exact = True
                            else:
                                rel = True
        # the reference is the norm of the *same* vector before orthogonalisation
        wrong_ref = None
        vec = None
        for d in ast.walk(g.node):
            if isinstance(d, ast.Assign) and isinstance(d.targets[0], ast.Name) and d.targets[0].id == nn and isinstance(d.value, ast.Call) \
                    and norm(d.value.func).endswith("norm") and d.value.args:
                vec = norm(d.value.args[0])
        if rel and vec is not None:
            for t in tests:
                for nm in _names(t.test) - {nn}:
                    for d in ast.walk(g.node):
                        if isinstance(d, ast.Assign) and isinstance(d.targets[0], ast.Name) and d.targets[0].id == nm and \
                                isinstance(d.value, ast.Call) and norm(d.value.func).endswith("norm") and d.value.args and \
                                norm(d.value.args[0]) != vec:
                            wrong_ref = (nm, norm(d.value.args[0]))
        if rel and wrong_ref is not None:
            col.bad(where_of(g), g.rel, line_of(tests[0]), construct,
                    f"the remainder norm of '{vec}' is compared with '{wrong_ref[0]}', the norm of a different vector ('{wrong_ref[1]}'): "
                    f"the test is not scale invariant (for a badly scaled matrix nothing is ever stored, or noise is)")
        elif rel:
            col.ok(where_of(g), g.rel, line_of(tests[0]), construct, "compared against a scaled reference / tolerance")
        elif exact:
            col.bad(where_of(g), g.rel, line_of(tests[0]), construct,
                    f"the only rank test is '{norm(tests[0].test)}': after Gram-Schmidt the remainder of a linearly dependent "
                    f"right-hand side is rounding noise (never exactly 0); it is normalised to unit length and stored with a "
                    f"solution that does not belong to it, so later solves on the same matrix are wrong")
        else:
            col.bad(where_of(g), g.rel, line_of(at), construct, "the remainder is normalised and stored without any significance test")


# ---------------------------------------------------------------------------------------------------- C07 / C01
SPARSE_ONLY = {"todense", "toarray", "tocsr", "tocsc", "tocoo", "tolil", "todia", "tobsr", "getrow", "getcol", "getnnz",
               "eliminate_zeros", "sum_duplicates", "setdiag", "nonzero"} - {"nonzero"}


def _linsys_modules(ctx: RuleCtx):
    """Module classes that solve linear systems: they own a LinearSolver-typed attribute or an inner module, or call
    np.linalg.solve/inv in their response (role, not name)."""
    m = ctx.model
    sb = m.solver_base()
    mb = m.module_base()
    out = []
    for c in m.module_classes():
        resp = m.resolve_method(c, "_response")
        if resp is None or resp.cls is mb:
            continue
        at = ctx.flow.attr_types(c)
        owns = any(m.classes.get(t) is not None and (m.is_subclass(m.classes[t], sb) or m.is_subclass(m.classes[t], mb))
                   for ts in at.values() for t in ts)
        direct = any(isinstance(x, ast.Call) and norm(x.func) in ("np.linalg.solve", "np.linalg.inv", "spla.solve", "spla.inv")
                     for g in m.closure(c, "_response") for x in ast.walk(g.node))
        if owns or direct:
            out.append(c)
    return out


@rule("R-SPARSE-GUARD", floor=1)
def r_sparse_guard(ctx: RuleCtx, col: Collector):
    """A module documented for dense *or* sparse input calls sparse-only methods (.todense(), .toarray(), .tocsr() ...)
    on data derived from its inputs only under a sparsity test; unguarded, the documented dense input raises
    AttributeError."""
    from .solver import guard_facts
    m = ctx.model
    mb = m.module_base()
    for c in m.module_classes():
        doc = ast.get_docstring(c.node) or ""
        if "dense" not in doc.lower():
            continue
        for name in ("_response", "_sensitivity"):
            f = m.resolve_method(c, name)
            if f is None or f.cls is not c:
                continue
            selfn = m.self_name(f)
            seeds = set(f.pos_params()) if name == "_response" else set()
            dep = _dependent_names(f.node, seeds, selfn=selfn)
            for n in ast.walk(f.node):
                if isinstance(n, ast.Assign) and any(isinstance(x, ast.Attribute) and x.attr == "state" for x in ast.walk(n.value)):
                    dep |= {x.id for t in n.targets for x in ast.walk(t) if isinstance(x, ast.Name) and x.id != selfn}
            dep = _dependent_names(f.node, dep, selfn=selfn)
            cfg = ctx.flow.cfg(f)
            for n in ast.walk(f.node):
                if not (isinstance(n, ast.Call) and isinstance(n.func, ast.Attribute) and n.func.attr in SPARSE_ONLY):
                    continue
                recv = n.func.value
                if not (_names(recv) & dep):
                    continue
                st = n
                while not isinstance(st, ast.stmt):
                    st = parent(st)
                nd = cfg.node_of(st)
                facts = guard_facts(cfg, nd) if nd is not None else []
                guarded = any(("issparse" in t or "is_sparse" in t or "isspmatrix" in t or "hasattr(" in t) and pol for t, pol in facts)
                # conditional expression:  x.toarray() if issparse(x) else x
                p = parent(n)
                while p is not None and not isinstance(p, ast.stmt):
                    if isinstance(p, ast.IfExp) and any(k in norm(p.test) for k in ("issparse", "is_sparse", "isspmatrix", "hasattr(")) and \
                            any(y is n for y in ast.walk(p.body)):
                        guarded = True
                    p = parent(p)
                construct = f"{c.name}.{name}: {norm(n)}"
                if guarded:
                    col.ok(where_of(f), f.rel, line_of(n), construct, "under a sparsity test")
                else:
                    col.bad(where_of(f), f.rel, line_of(n), construct,
                            f"'{n.func.attr}()' exists only on scipy sparse matrices, but {c.name} documents dense input as well "
                            f"and nothing tests the input here: a dense matrix raises AttributeError")
    dedupe(col)


REAL_LITERALS = {"float", "np.float64", "np.float32", "np.float_", "np.double", "'float'", "'float64'", "int", "np.int64"}
ALLOC = {"np.zeros", "np.ones", "np.empty", "np.full"}
ALLOC_LIKE = {"np.zeros_like", "np.ones_like", "np.empty_like", "np.full_like"}


def _alloc_sources(e: ast.AST) -> Optional[Tuple[List[ast.AST], bool]]:
    """(expressions the dtype of the allocation is taken from, always-complex) or None if `e` is not an allocation."""
    if isinstance(e, ast.IfExp):
        a, b = _alloc_sources(e.body), _alloc_sources(e.orelse)
        if a is None or b is None:
            return None
        return (a[0] + b[0] + [e.test], a[1] and b[1])
    if not isinstance(e, ast.Call):
        return None
    fn = norm(e.func)
    dt = [k.value for k in e.keywords if k.arg == "dtype"]
    if fn in ALLOC:
        if not dt and len(e.args) >= 2 and fn != "np.full":
            dt = [e.args[1]]
        if not dt:
            return ([], False)
        t = norm(dt[0])
        if t in ("complex", "np.complex128", "np.complex64", "'complex'"):
            return ([], True)
        if t in REAL_LITERALS:
            return ([], False)
        return ([dt[0]], False)
    if fn in ALLOC_LIKE:
        if dt:
            t = norm(dt[0])
            if t in ("complex", "np.complex128"):
                return ([], True)
            if t in REAL_LITERALS:
                return ([], False)
            return ([dt[0]] + ([e.args[0]] if "result_type" not in t else []), False)
        return ([e.args[0]] if e.args else [], False)
    return None


def _param_deps(fn: ast.AST, params: Set[str], selfn: Optional[str], attr_deps: Dict[str, Set[str]], everything: Set[str]) -> Dict[str, Set[str]]:
    """local name -> set of parameters (or pseudo-sources) its value depends on."""
    deps: Dict[str, Set[str]] = {p: {p} for p in params}

    def of(e) -> Set[str]:
        out: Set[str] = set()
        for x in ast.walk(e):
            if isinstance(x, ast.Name) and x.id in deps:
                out |= deps[x.id]
            elif isinstance(x, ast.Attribute) and isinstance(x.value, ast.Name) and x.value.id == selfn and x.attr in attr_deps:
                out |= attr_deps[x.attr]
            elif isinstance(x, ast.Attribute) and x.attr == "state":
                out |= everything
        return out
    changed = True
    while changed:
        changed = False
        for n in ast.walk(fn):
            src, tg = None, []
            if isinstance(n, ast.Assign):
                src, tg = n.value, n.targets
            elif isinstance(n, ast.AugAssign):
                src, tg = n.value, [n.target]
            elif isinstance(n, (ast.For, ast.comprehension)):
                src, tg = n.iter, [n.target]
            if src is None:
                continue
            d = of(src)
            for t in tg:
                for x in ast.walk(t):
                    if isinstance(x, ast.Name) and isinstance(x.ctx, ast.Store):
                        if not d <= deps.get(x.id, set()):
                            deps[x.id] = deps.get(x.id, set()) | d
                            changed = True
    deps["__of__"] = of       # type: ignore
    return deps


@rule("R-ALLOC-DTYPE", floor=3)
def r_alloc_dtype(ctx: RuleCtx, col: Collector):
    """Modules that solve linear systems accept real and complex data in every input.  An array they allocate and then
    fill (subscript stores, in-place updates) takes its dtype from *all* inputs whose data ends up in it: an array
    typed from the matrix alone (or with a literal real dtype) silently discards the imaginary part of a complex
    right-hand side / prescribed value / stored solution.  In _sensitivity only data remembered from the response is
    considered (the seeds follow the state's type by convention)."""
    m = ctx.model
    def _produces_state(k):
        r = m.resolve_method(k, '_response')
        return r is not None and r.cls is not m.module_base() and any(
            isinstance(n, ast.Return) and n.value is not None for n in ast.walk(r.node))
    # figure / file writers (no output state) colour pixels and format text: not numerical results
    for c in [k for k in m.module_classes() if _produces_state(k)]:
        resp = m.resolve_method(c, "_response")
        selfn = m.self_name(resp)
        rparams = set(resp.pos_params()) | ({resp.vararg()} if resp.vararg() else set())
        # attributes written by the response closure and what they depend on
        attr_deps: Dict[str, Set[str]] = {}
        attr_alloc: Dict[str, Tuple[Set[str], bool]] = {}
        prep_alloc: Dict[str, ast.AST] = {}
        for g in m.closure(c, "_response"):
            sg = m.self_name(g)
            gp = set(g.pos_params()) if g is resp else set()
            deps = _param_deps(g.node, gp, sg, attr_deps, rparams)
            of = deps["__of__"]
            for n in ast.walk(g.node):
                if isinstance(n, ast.Assign):
                    for t in n.targets:
                        if isinstance(t, ast.Attribute) and isinstance(t.value, ast.Name) and t.value.id == sg:
                            attr_deps[t.attr] = attr_deps.get(t.attr, set()) | of(n.value)
                            al = _alloc_sources(n.value)
                            if al is not None:
                                srcs = set()
                                for ex in al[0]:
                                    srcs |= of(ex)
                                attr_alloc[t.attr] = (srcs, al[1])
        prep = m.resolve_method(c, "_prepare")
        if prep is not None and prep.cls is not m.module_base():
            sp = m.self_name(prep)
            for n in ast.walk(prep.node):
                if isinstance(n, ast.Assign) and len(n.targets) == 1 and isinstance(n.targets[0], ast.Attribute) and \
                        isinstance(n.targets[0].value, ast.Name) and n.targets[0].value.id == sp:
                    al = _alloc_sources(n.value)
                    if al is not None and n.targets[0].attr not in attr_alloc:
                        attr_alloc[n.targets[0].attr] = (set(), al[1])       # typed from configuration only
                        prep_alloc[n.targets[0].attr] = n
        for name in ("_response", "_sensitivity"):
            f = m.resolve_method(c, name)
            if f is None or f.cls is not c:
                continue
            sf = m.self_name(f)
            params = rparams if name == "_response" else set()
            deps = _param_deps(f.node, params, sf, attr_deps if name == "_sensitivity" else {}, rparams)
            of = deps["__of__"]
            seed_params = set(f.pos_params()) | ({f.vararg()} if f.vararg() else set()) if name == "_sensitivity" else set()
            allocs: Dict[str, Tuple[Set[str], bool, ast.AST]] = {}
            if name == "_response":
                for a_, n_ in prep_alloc.items():
                    allocs[f"{sf}.{a_}"] = (set(), attr_alloc[a_][1], n_)

            def key_of(t):
                if isinstance(t, ast.Name):
                    return t.id
                if isinstance(t, ast.Attribute) and isinstance(t.value, ast.Name) and t.value.id == sf:
                    return f"{sf}.{t.attr}"
                return None
            for n in ast.walk(f.node):
                if isinstance(n, ast.Assign) and len(n.targets) == 1:
                    k = key_of(n.targets[0])
                    al = _alloc_sources(n.value)
                    if k and al is not None:
                        srcs: Set[str] = set()
                        for ex in al[0]:
                            for x in ast.walk(ex):
                                if isinstance(x, ast.Name) and x.id in allocs:
                                    srcs |= allocs[x.id][0]
                                elif isinstance(x, ast.Name) and name == "_sensitivity" and x.id in seed_params:
                                    srcs |= rparams          # a seed has the type of the output state (convention)
                                elif isinstance(x, ast.Name) and x.id in deps:
                                    srcs |= deps[x.id]
                                elif isinstance(x, ast.Attribute) and isinstance(x.value, ast.Name) and x.value.id == sf:
                                    kk = f"{sf}.{x.attr}"
                                    if kk in allocs:
                                        srcs |= allocs[kk][0]
                                    elif x.attr in attr_alloc:
                                        srcs |= attr_alloc[x.attr][0]
                                    elif x.attr in attr_deps:
                                        srcs |= attr_deps[x.attr]
                                elif isinstance(x, ast.Attribute) and x.attr == "state":
                                    srcs |= rparams
                        allocs[k] = (srcs, al[1], n)
            # local aliases of an allocated attribute / local:  buf = self.values; buf[:n] = ...
            for n in ast.walk(f.node):
                if isinstance(n, ast.Assign) and len(n.targets) == 1 and isinstance(n.targets[0], ast.Name):
                    kv = key_of(n.value) if isinstance(n.value, (ast.Name, ast.Attribute)) else None
                    if kv is not None and kv in allocs and n.targets[0].id not in allocs:
                        allocs[n.targets[0].id] = allocs[kv]
            for n in ast.walk(f.node):
                tgt = val = None
                if isinstance(n, ast.Assign) and isinstance(n.targets[0], ast.Subscript):
                    tgt, val = n.targets[0], n.value
                elif isinstance(n, ast.AugAssign):
                    tgt, val = n.target, n.value
                if tgt is None:
                    continue
                base = tgt
                while isinstance(base, ast.Subscript):
                    base = base.value
                k = key_of(base)
                if k is None or k not in allocs:
                    continue
                srcs, always_complex, at = allocs[k]
                if always_complex:
                    continue
                vt = norm(val)
                if any(vt.startswith(p) for p in ("np.real(", "np.imag(", "abs(", "np.abs(")):
                    continue
                need = of(val)
                missing = need - srcs
                construct = f"{c.name}.{name}: dtype of '{k}' vs data stored by '{stmt_key(n)}'"
                if missing:
                    col.bad(where_of(f), f.rel, line_of(n), construct,
                            f"'{k}' is allocated by '{stmt_key(at)}' (dtype taken from {sorted(srcs) or 'a real literal'}), but this "
                            f"statement stores data that depends on {sorted(missing)}: if that input is complex and the others are "
                            f"real, NumPy casts to real and discards the imaginary part")
                else:
                    col.ok(where_of(f), f.rel, line_of(n), construct, f"dtype covers {sorted(need) or 'constants'}")
    dedupe(col)


@rule("R-ADJ-SOLVE", floor=3, witness_min=1)
def r_adj_solve(ctx: RuleCtx, col: Collector):
    """The adjoint of x = A^-1 b needs A^-T: a module whose response solves a linear system with an input-derived
    matrix has, somewhere in its sensitivity closure, a transposed solve (trans='T'/'H'), a transposed explicit
    inverse, or a symmetry test - re-using only the forward solution on both sides of the seed (C s C^T) is the
    adjoint of a symmetric system only."""
    m = ctx.model
    for c in _linsys_modules(ctx):
        sens = m.resolve_method(c, "_sensitivity")
        resp = m.resolve_method(c, "_response")
        if sens is None or sens.cls is m.module_base():
            continue
        rclos = m.closure(c, "_response")
        solves = [x for g in rclos for x in ast.walk(g.node) if isinstance(x, ast.Call) and (
            (isinstance(x.func, ast.Attribute) and x.func.attr in ("solve", "response") and not norm(x.func).startswith("np.") and norm(x.func.value) != m.self_name(g))
            or norm(x.func) in ("np.linalg.solve", "np.linalg.inv", "spla.solve", "spla.inv"))]
        if not solves:
            continue
        rq = {g.qual for g in rclos}
        sclos = [g for g in m.closure(c, "_sensitivity") if g.qual not in rq or g is sens]
        txt = " ".join(norm(g.node) for g in sclos)
        trans_solve = any(isinstance(x, ast.Call) and isinstance(x.func, ast.Attribute) and x.func.attr == "solve" and
                          any(k.arg == "trans" and isinstance(k.value, ast.Constant) and k.value.value in ("T", "H") for k in x.keywords)
                          for g in sclos for x in ast.walk(g.node))
        inv_t = False
        if any(norm(x.func) in ("np.linalg.inv", "spla.inv") for x in solves):
            # explicit inverse kept as the output: its transpose must appear in the sensitivity
            inv_t = ".T@" in txt or ".T)" in txt
        sym_test = any(k in txt for k in ("issymmetric", "is_symmetric", "ishermitian", "is_hermitian"))
        lin_t = "np.linalg.solve(" in txt and ".T" in txt
        construct = f"{c.name}: adjoint of the linear solve in _response"
        if trans_solve:
            col.ok(where_of(sens), sens.rel, line_of(sens.node), construct, "transposed solve in the sensitivity closure")
        elif inv_t:
            col.ok(where_of(sens), sens.rel, line_of(sens.node), construct, "transposed explicit inverse")
        elif sym_test or lin_t:
            col.ok(where_of(sens), sens.rel, line_of(sens.node), construct, "symmetry test / transposed dense solve")
        else:
            col.bad(where_of(sens), sens.rel, line_of(sens.node), construct,
                    f"_response solves a linear system ('{norm(solves[0])[:60]}') but the sensitivity contains no transposed solve, "
                    f"no transposed inverse and no symmetry test: it re-uses the forward solution, which is the adjoint only for a "
                    f"symmetric matrix")
