"""Rules on the framework skeleton in core_objects.py (C02, C03, C18): R-NET-ORDER, R-ACCUMULATE,
R-SKIP-UNSEEDED, R-COPY-FIRST, R-SEED-ORDER, R-RESET, R-SLICE-SIB."""
from __future__ import annotations

import ast
from typing import Dict, List, Optional, Set, Tuple

from ..cfg import CFG, Node, STMT, TEST, FOR, run_typestate, fmt_path
from ..flow import o_param, fmt_origin
from ..model import stmt_key, AnalysisError, FuncInfo
from ..report import rule, Collector
from .common import RuleCtx, where_of, line_of, hits, chain, LoopElems, flat_sequence_parts
from .eff import _functions

U = ast.unparse


def norm(e: ast.AST) -> str:
    return "".join(U(e).split())


# --------------------------------------------------------------------------------------- iteration events
def iteration_events(fn: ast.FunctionDef, selfn: str, container: str):
    """Find iterations over `self.<container>`: returns list of dicts with the enclosing statement, the direction
    ('fwd' / 'rev' / 'partial'), the loop variable and the set of method names invoked on the loop variable
    (called directly, or passed as a bound-method callback to another call), and whether a filter is present.
    The container may be walked alone, in lockstep with others (zip / enumerate), as one part of a concatenation
    (A + B, (*A, *B)), or by position (range(len(...)))."""
    out = []
    full = f"{selfn}.{container}"

    def classify(it: ast.AST):
        if isinstance(it, ast.Name):
            # a local holding the sequence (single definition in this function)
            defs = [n.value for n in ast.walk(fn) if isinstance(n, ast.Assign) and len(n.targets) == 1
                    and isinstance(n.targets[0], ast.Name) and n.targets[0].id == it.id]
            bound_elsewhere = [n for n in ast.walk(fn) if isinstance(n, ast.Name) and n.id == it.id
                               and isinstance(n.ctx, ast.Store)]
            if len(defs) == 1 and len(bound_elsewhere) == 1:
                it = defs[0]
        t = norm(it)
        parts = flat_sequence_parts(it)
        if parts is not None:
            ps = [norm(x) for x in parts]
            if full in ps or f"list({full})" in ps:
                return "fwd"
        if t == full or t in (f"list({full})", f"iter({full})", f"tuple({full})"):
            return "fwd"
        if t in (f"reversed({full})", f"{full}[::-1]", f"reversed(list({full}))", f"list(reversed({full}))"):
            return "rev"
        if full in t:
            return "partial"
        return None

    def classify_index(it: ast.AST):
        """for i in range(len(self.X)) / reversed(range(len(self.X))) / range(len(self.X)-1, -1, -1)"""
        t = norm(it)
        if t == f"range(len({full}))":
            return "fwd"
        if t in (f"reversed(range(len({full})))", f"range(len({full})-1,-1,-1)"):
            return "rev"
        if f"len({full})" in t and t.startswith(("range(", "reversed(range(")):
            return "partial"
        return None

    def invoked(body_nodes, var: str):
        called, passed = set(), set()
        for b in body_nodes:
            for n in ast.walk(b):
                if isinstance(n, ast.Call):
                    if isinstance(n.func, ast.Attribute) and isinstance(n.func.value, ast.Name) and n.func.value.id == var:
                        called.add(n.func.attr)
                    for a in list(n.args) + [k.value for k in n.keywords]:
                        if isinstance(a, ast.Attribute) and isinstance(a.value, ast.Name) and a.value.id == var:
                            passed.add((a.attr, U(n.func)))
        return called, passed

    def has_exit(body):
        return any(isinstance(x, (ast.Break, ast.Continue, ast.Return)) for b in body for x in ast.walk(b))

    for n in ast.walk(fn):
        if isinstance(n, (ast.ListComp, ast.GeneratorExp, ast.SetComp)):
            if len(n.generators) != 1:
                continue
            g = n.generators[0]
            le = LoopElems(g.target, g.iter)
            for var, seq in le.elems.items():
                d = classify(seq)
                if d is None:
                    continue
                called, passed = invoked([n.elt], var)
                out.append({"node": n, "dir": d, "called": called, "passed": passed, "filtered": bool(g.ifs)})
        elif isinstance(n, ast.For):
            di = classify_index(n.iter) if isinstance(n.target, ast.Name) else None
            if di is not None:
                # calls on self.X[i]
                called, passed = set(), set()
                for b in n.body:
                    for x in ast.walk(b):
                        if isinstance(x, ast.Call) and isinstance(x.func, ast.Attribute) and \
                                norm(x.func.value) == f"{full}[{n.target.id}]":
                            called.add(x.func.attr)
                out.append({"node": n, "dir": di, "called": called, "passed": passed, "filtered": has_exit(n.body)})
                continue
            le = LoopElems(n.target, n.iter)
            for var, seq in le.elems.items():
                d = classify(seq)
                if d is None:
                    continue
                called, passed = invoked(n.body, var)
                out.append({"node": n, "dir": d, "called": called, "passed": passed, "filtered": has_exit(n.body)})
    return out


def callback_invoked(ctx: RuleCtx, cls, callee_text: str, selfn: str) -> bool:
    """`self.timefn(m.response, ...)`: does the helper call its first parameter on every normal path?"""
    if not callee_text.startswith(selfn + "."):
        return False
    g = ctx.model.resolve_method(cls, callee_text.split(".", 1)[1])
    if g is None:
        return False
    params = g.pos_params()
    if not params:
        return False
    p = params[0]
    cfg = ctx.flow.cfg(g)
    call_nodes = []
    for nd in cfg.simple_nodes():
        if nd.ast is None:
            continue
        for x in ast.walk(nd.ast):
            if isinstance(x, ast.Call) and isinstance(x.func, ast.Name) and x.func.id == p:
                call_nodes.append(nd)
    return bool(call_nodes) and cfg.must_pass(cfg.entry, cfg.exit, call_nodes)


def _closure_run_nodes(ctx: RuleCtx, cls, f: FuncInfo, cfg: CFG, inner: ast.AST, selfn: str) -> List[Node]:
    """CFG nodes of `f` at which the statement `inner` (located in a closure defined directly in f) is certain to run"""
    for g in [n for n in ast.walk(f.node) if isinstance(n, ast.FunctionDef) and n is not f.node]:
        if not any(x is inner for x in ast.walk(g)):
            continue
        if g.args.args or g.args.kwonlyargs or g.args.vararg or g.args.kwarg:
            return []
        gcfg = CFG(g)
        gn = gcfg.node_of(inner)
        if gn is None or not gcfg.must_pass(gcfg.entry, gcfg.exit, [gn]):
            return []
        out = []
        for nd in cfg.simple_nodes():
            if nd.ast is None:
                continue
            for x in ast.walk(nd.ast):
                if not isinstance(x, ast.Call):
                    continue
                if isinstance(x.func, ast.Name) and x.func.id == g.name and not x.args:
                    out.append(nd)
                elif x.args and isinstance(x.args[0], ast.Name) and x.args[0].id == g.name and \
                        callback_invoked(ctx, cls, U(x.func), selfn):
                    out.append(nd)
        return out
    return []


@rule("R-NET-ORDER", floor=6)
def r_net_order(ctx: RuleCtx, col: Collector):
    """On every path, Network.response runs every module's response() iterating the module list forward,
    Network.sensitivity runs sensitivity() iterating it in reverse, Network.reset resets every module."""
    m = ctx.model
    net = m.public_class("Network")
    # the attribute holding the module list: the one `append` extends
    for meth, want_dir in (("response", "fwd"), ("sensitivity", "rev"), ("reset", "any")):
        f = m.resolve_method(net, meth)
        if f is None or f.cls is not net:
            raise AnalysisError(f"Network.{meth} is not defined on Network")
        selfn = m.self_name(f)
        cfg = ctx.flow.cfg(f)
        evs = iteration_events(f.node, selfn, "mods")
        good_nodes = []
        bad = False
        for ev in evs:
            inv = set(ev["called"]) | {a for a, callee in ev["passed"] if callback_invoked(ctx, net, callee, selfn)}
            if meth not in inv:
                continue
            st_nodes = [cfg.node_of(ev["node"])]
            if st_nodes[0] is None:
                # the sweep sits in a local closure: it runs where the closure is invoked (directly, or handed to a
                # helper that calls its first parameter on every path), provided every path through the closure sweeps
                st_nodes = _closure_run_nodes(ctx, net, f, cfg, ev["node"], selfn)
                if not st_nodes:
                    continue
            construct = stmt_key(ev["node"])
            if ev["filtered"] or ev["dir"] == "partial":
                bad = True
                col.bad(where_of(f), f.rel, line_of(ev["node"]), construct,
                        f"Network.{meth} does not visit every module (filtered or partial iteration)")
            elif want_dir != "any" and ev["dir"] != want_dir:
                bad = True
                col.bad(where_of(f), f.rel, line_of(ev["node"]), construct,
                        f"Network.{meth} iterates the modules {'forward' if ev['dir'] == 'fwd' else 'in reverse'}; "
                        f"{'back-propagation must run in reverse order of the response' if meth == 'sensitivity' else 'the response must run in construction order'}")
            else:
                good_nodes += st_nodes
                col.ok(where_of(f), f.rel, line_of(ev["node"]), construct, f"{meth}() over all modules, direction {ev['dir']}")
        if not cfg.must_pass(cfg.entry, cfg.exit, good_nodes):
            path = cfg.find_path(cfg.entry, cfg.exit, blocked=good_nodes)
            col.bad(where_of(f), f.rel, line_of(f.node), f"Network.{meth}: path without module {meth}()",
                    f"a path through Network.{meth} reaches the exit without invoking {meth}() on the modules: "
                    f"{fmt_path(path)}")
        elif not bad:
            col.ok(where_of(f), f.rel, line_of(f.node), f"Network.{meth}: every path runs the modules",
                   f"{len(good_nodes)} branch(es)")


# ----------------------------------------------------------------------------------- sensitivity writers
def sens_store_sites(f: FuncInfo):
    """Statements in `f` that store to an attribute named `sensitivity` (directly, augmented, or through a
    subscript of it)."""
    out = []
    for n in ast.walk(f.node):
        tg = []
        if isinstance(n, ast.Assign):
            tg = n.targets
        elif isinstance(n, (ast.AugAssign, ast.AnnAssign)):
            tg = [n.target]
        for t in tg:
            for x in (t.elts if isinstance(t, (ast.Tuple, ast.List)) else [t]):
                base = x
                sub = False
                while isinstance(base, ast.Subscript):
                    base = base.value
                    sub = True
                if isinstance(base, ast.Attribute) and base.attr == "sensitivity":
                    out.append((n, x, base, sub))
    return out


def _inlined_callers(m, h: FuncInfo) -> Set[str]:
    """functions of h's module into which the load-time inliner expanded a call of h (the call itself is gone)"""
    out = set()
    for owner, helper in getattr(h.module.tree, "_pmlint_inlined", []):
        if helper == h.name:
            for g in _functions(m):
                if g.module is h.module and g.name == owner:
                    out.add(g.qual)
    return out


@rule("R-ACCUMULATE", floor=8, witness_min=1)
def r_accumulate(ctx: RuleCtx, col: Collector):
    """Who may write `.sensitivity`: only the Signal classes and the seeding sites of the drivers
    (finite_difference, MMA, minimize_oc).  Modules must go through add_sensitivity, which Module.sensitivity
    calls once per input, pairing input i with result i.  Inside add_sensitivity the first contribution is stored
    under the `is None` test; every other store accumulates."""
    m = ctx.model
    sig = m.public_class("Signal")
    mma = m.public_class("MMA")
    drivers = {m.public_function("finite_difference").qual, m.public_function("minimize_oc").qual}
    # ... and the private helpers of their module that only they call (a driver split into steps is still the driver)
    work = [m.public_function("finite_difference"), m.public_function("minimize_oc")]
    while work:
        g0 = work.pop()
        called = {x.func.id for x in ast.walk(g0.node) if isinstance(x, ast.Call) and isinstance(x.func, ast.Name)}
        called |= {helper for owner, helper in getattr(g0.module.tree, "_pmlint_inlined", []) if owner == g0.name}
        for nm_ in sorted(called):
            if nm_.startswith("_"):
                h = g0.module.functions.get(nm_)
                if h is not None and h.qual not in drivers:
                    callers = {f2.qual for f2 in _functions(m) if f2 is not h and any(
                        isinstance(y, ast.Call) and isinstance(y.func, ast.Name) and y.func.id == h.name and f2.module is h.module
                        for y in ast.walk(f2.node))}
                    callers |= _inlined_callers(m, h)
                    if callers and callers <= drivers | {g0.qual}:
                        drivers.add(h.qual)
                        work.append(h)
    for f in _functions(m):
        for st, tgt, base, sub in sens_store_sites(f):
            where = where_of(f)
            if f.cls is not None and m.is_subclass(f.cls, sig):
                continue  # checked in detail below
            if f.qual in drivers or (f.cls is not None and m.is_subclass(f.cls, mma)):
                col.ok(where, f.rel, line_of(st), stmt_key(st), "driver seeding an output sensitivity")
                continue
            col.bad(where, f.rel, line_of(st), stmt_key(st),
                    f"{f.short} writes a '.sensitivity' directly; contributions must be accumulated through "
                    f"add_sensitivity (an overwrite loses the terms arriving along other paths)")
    # inside the add_sensitivity implementations
    for c in m.subclasses(sig):
        f = c.method("add_sensitivity")
        if f is None:
            continue
        cfg = ctx.flow.cfg(f)
        for st, tgt, base, sub in sens_store_sites(f):
            nd = cfg.node_of(st)
            where = where_of(f)
            if isinstance(st, ast.AugAssign) and isinstance(st.op, ast.Add):
                col.ok(where, f.rel, line_of(st), stmt_key(st), "accumulation (+=)")
                continue
            # plain store: must be on a branch where the stored-to sensitivity is known to be None
            from .common import none_facts
            facts = none_facts(cfg, nd)
            if isinstance(st, ast.Assign) and facts.get(norm(base)) is True:
                col.ok(where, f.rel, line_of(st), stmt_key(st), f"first contribution: '{U(base)} is None' holds here")
            else:
                col.bad(where, f.rel, line_of(st), stmt_key(st),
                        "plain overwrite of an existing sensitivity inside add_sensitivity (must accumulate)")
        # the non-None path must accumulate: an augmented add or a delegated add_sensitivity
        acc = []
        for nd in cfg.simple_nodes():
            if nd.kind == STMT and isinstance(nd.ast, ast.AugAssign) and isinstance(nd.ast.op, ast.Add) and \
                    "sensitivity" in U(nd.ast.target):
                acc.append(nd)
        if not acc:
            col.bad(where_of(f), f.rel, line_of(f.node), f"{f.short}: no accumulating store",
                    "add_sensitivity contains no '+=' on the sensitivity")
    # Module.sensitivity / AutoMod.sensitivity: add_sensitivity once per input with matching index
    mod = m.module_base()
    for c in [mod] + [k for k in m.module_classes() if k.method("sensitivity") is not None and k.name != "Network"]:
        f = c.method("sensitivity")
        if f is None:
            continue
        _check_dispatch_pairing(ctx, col, f, call_attr="add_sensitivity", container="sig_in")


def _check_dispatch_pairing(ctx: RuleCtx, col: Collector, f: FuncInfo, call_attr: str, container: str):
    """Every call `<sig>.<call_attr>(<value>)` in `f` sits in a loop that pairs input signal k with value k:
    enumerate over the values or over the signals, zip of both, or a common range index."""
    selfn = ctx.model.self_name(f)
    full = f"{selfn}.{container}"
    found = 0
    for loop in [n for n in ast.walk(f.node) if isinstance(n, ast.For)]:
        calls = [x for b in loop.body for x in ast.walk(b)
                 if isinstance(x, ast.Call) and isinstance(x.func, ast.Attribute) and x.func.attr == call_attr]
        if not calls:
            continue
        it = loop.iter
        form = None
        idx = elem = None
        zsig = zval = None
        if isinstance(it, ast.Call) and isinstance(it.func, ast.Name) and it.func.id == "enumerate" and \
                isinstance(loop.target, ast.Tuple) and len(loop.target.elts) == 2:
            idx, elem = U(loop.target.elts[0]), U(loop.target.elts[1])
            form = "enum-signals" if norm(it.args[0]) == full else "enum-values"
        elif isinstance(it, ast.Call) and isinstance(it.func, ast.Name) and it.func.id == "zip" and \
                isinstance(loop.target, ast.Tuple) and len(loop.target.elts) == len(it.args) == 2:
            names = [U(x) for x in loop.target.elts]
            srcs = [norm(a) for a in it.args]
            if full in srcs:
                k = srcs.index(full)
                zsig, zval = names[k], names[1 - k]
                form = "zip"
        elif isinstance(it, ast.Call) and isinstance(it.func, ast.Name) and it.func.id == "range" and isinstance(loop.target, ast.Name):
            idx = loop.target.id
            form = "range"
        for c in calls:
            found += 1
            recv = c.func.value
            arg = c.args[0] if c.args else None
            r, a = norm(recv), (norm(arg) if arg is not None else "")
            verdict = None       # True ok / False proven mismatch / None not recognised
            why = ""
            if form == "enum-signals":
                if r == elem and isinstance(arg, ast.Subscript):
                    verdict = norm(arg.slice) == idx
                    why = "signal k paired with value[k]"
            elif form == "enum-values":
                if a == elem and isinstance(recv, ast.Subscript) and norm(recv.value) == full:
                    verdict = norm(recv.slice) == idx
                    why = "value k paired with signal k"
            elif form == "zip":
                if r == zsig:
                    verdict = a == zval
                    why = "zip(signals, values)"
            elif form == "range":
                if isinstance(recv, ast.Subscript) and norm(recv.value) == full and isinstance(arg, ast.Subscript):
                    verdict = norm(recv.slice) == idx and norm(arg.slice) == idx
                    why = "common range index"
            if verdict is True:
                col.ok(where_of(f), f.rel, line_of(c), stmt_key(c), why)
            elif verdict is False:
                col.bad(where_of(f), f.rel, line_of(c), stmt_key(c),
                        f"{f.short}: input signal and result are selected with different indices (receiver "
                        f"'{U(recv)}', value '{U(arg) if arg is not None else ''}'): input k does not receive result k")
            else:
                raise AnalysisError(f"{f.short}: dispatch loop '{stmt_key(loop)}' is in a form this rule does not recognise "
                                    f"(receiver '{U(recv)}', value '{U(arg) if arg is not None else ''}')")
    if not found:
        col.bad(where_of(f), f.rel, line_of(f.node), f"{f.short}: no {call_attr} dispatch loop",
                f"{f.short} never calls {call_attr} on its input signals")


# -------------------------------------------------------------------------------------- skip when unseeded
def _flag_means_some_set(fn: ast.AST, name: str) -> Optional[bool]:
    """A boolean local that records whether some element was not None: True when `name` starts False and is only set True
    under an `<x> is not None` test (any_set); False for the mirrored flag (starts True, set False there: all_none);
    None when `name` is not such a flag."""
    defs = [n for n in ast.walk(fn) if isinstance(n, ast.Assign) and len(n.targets) == 1 and isinstance(n.targets[0], ast.Name)
            and n.targets[0].id == name]
    if len(defs) < 2 or not all(isinstance(d.value, ast.Constant) and isinstance(d.value.value, bool) for d in defs):
        return None
    others = [n for n in ast.walk(fn) if isinstance(n, ast.Name) and n.id == name and isinstance(n.ctx, ast.Store)]
    if len(others) != len(defs):
        return None

    def under_not_none(d) -> bool:
        p = getattr(d, "_parent", None)
        child = d
        while p is not None and p is not fn:
            if isinstance(p, ast.If):
                t = p.test
                is_not = isinstance(t, ast.Compare) and len(t.ops) == 1 and isinstance(t.comparators[0], ast.Constant) and \
                    t.comparators[0].value is None
                if is_not and ((isinstance(t.ops[0], ast.IsNot) and child in p.body) or (isinstance(t.ops[0], ast.Is) and child in p.orelse)):
                    return True
            child, p = p, getattr(p, "_parent", None)
        return False
    init = [d for d in defs if not under_not_none(d)]
    sets = [d for d in defs if under_not_none(d)]
    if len(init) != 1 or not sets:
        return None
    iv = init[0].value.value
    if all(d.value.value == (not iv) for d in sets):
        return (not iv)          # init False / set True -> "some set" flag ; init True / set False -> "all none" flag
    return None


def _none_test_kind(test: ast.AST, fn: Optional[ast.AST] = None) -> Optional[str]:
    """'all-none' for `all([x is None for x in S])`-like tests (possibly and-ed with others), 'is-none:<x>'."""
    # not any(x is not None for x in S)  /  not any_set  /  all_none   (flags gathered in a loop)
    for n in ast.walk(test):
        if isinstance(n, ast.UnaryOp) and isinstance(n.op, ast.Not):
            o = n.operand
            if isinstance(o, ast.Call) and U(o.func).split(".")[-1] == "any" and o.args and isinstance(o.args[0], (ast.ListComp, ast.GeneratorExp)):
                e = o.args[0].elt
                if isinstance(e, ast.Compare) and isinstance(e.ops[0], ast.IsNot) and isinstance(e.comparators[0], ast.Constant) and \
                        e.comparators[0].value is None:
                    return "all-none"
            if isinstance(o, ast.Name) and fn is not None and _flag_means_some_set(fn, o.id) is True:
                return "all-none"
        if isinstance(n, ast.Name) and fn is not None and _flag_means_some_set(fn, n.id) is False:
            par = getattr(n, "_parent", None)
            if not (isinstance(par, ast.UnaryOp) and isinstance(par.op, ast.Not)):
                return "all-none"
    for n in ast.walk(test):
        if isinstance(n, ast.Call) and U(n.func).split(".")[-1] == "all" and n.args:
            a = n.args[0]
            if isinstance(a, (ast.ListComp, ast.GeneratorExp)) and isinstance(a.elt, ast.Compare) and \
                    isinstance(a.elt.ops[0], ast.Is) and isinstance(a.elt.comparators[0], ast.Constant) and \
                    a.elt.comparators[0].value is None:
                return "all-none"
    if isinstance(test, ast.Compare) and len(test.ops) == 1 and isinstance(test.ops[0], ast.Is) and \
            isinstance(test.comparators[0], ast.Constant) and test.comparators[0].value is None:
        return "is-none:" + norm(test.left)
    return None


def _guarded_by_skip(cfg: CFG, target: Node, kind_pred, fn: Optional[ast.AST] = None) -> Optional[Node]:
    """A TEST node t of the wanted kind such that `target` is dominated by t and is not reachable from t's
    true-branch (the true branch leaves the function)."""
    for t in cfg.dominators().get(target, ()):
        if t.kind != TEST or t.ast is None:
            continue
        k = _none_test_kind(t.ast, fn)
        if k is None or not kind_pred(k):
            continue
        tsucc = [s for s, lab in t.succ if lab == "T"]
        if tsucc and target not in cfg.reachable(tsucc, labels_excluded=("exc",)):
            return t
    return None


@rule("R-SKIP-UNSEEDED", floor=6)
def r_skip_unseeded(ctx: RuleCtx, col: Collector):
    """Branches without a seed contribute nothing: Module.sensitivity (and AutoMod.sensitivity) only back-propagate
    when some output sensitivity is set; add_sensitivity(None) returns before any write."""
    m = ctx.model
    mod = m.module_base()
    sig = m.public_class("Signal")
    for c in [mod] + [k for k in m.module_classes() if k.method("sensitivity") is not None and k.name != "Network"]:
        f = c.method("sensitivity")
        if f is None:
            continue
        cfg = ctx.flow.cfg(f)
        targets = []
        for nd in cfg.simple_nodes():
            if nd.ast is None:
                continue
            for x in ast.walk(nd.ast):
                if isinstance(x, ast.Call) and isinstance(x.func, ast.Attribute) and \
                        x.func.attr in ("_sensitivity", "vjp_fn"):
                    targets.append((nd, x))
        if not targets:
            raise AnalysisError(f"{f.short}: cannot locate the call that computes the input sensitivities")
        for nd, x in targets:
            t = _guarded_by_skip(cfg, nd, lambda k: k == "all-none", f.node)
            if t is not None:
                col.ok(where_of(f), f.rel, line_of(x), stmt_key(x), f"skipped when '{U(t.ast)}'")
            else:
                col.bad(where_of(f), f.rel, line_of(x), stmt_key(x),
                        f"{f.short} back-propagates even when no output sensitivity is set (the 'all None' early "
                        f"return does not dominate this call)")
    for c in m.subclasses(sig):
        f = c.method("add_sensitivity")
        if f is None:
            continue
        params = f.pos_params()
        p = params[0] if params else "ds"
        cfg = ctx.flow.cfg(f)
        from .common import none_facts
        for st, tgt, base, sub in sens_store_sites(f):
            nd = cfg.node_of(st)
            t = _guarded_by_skip(cfg, nd, lambda k: k == "is-none:" + p)
            if t is not None or none_facts(cfg, nd).get(p) is False:
                col.ok(where_of(f), f.rel, line_of(st), stmt_key(st), f"unreachable when '{p} is None'")
            else:
                col.bad(where_of(f), f.rel, line_of(st), stmt_key(st),
                        f"{f.short} writes the sensitivity even when the contribution is None")
        # also delegated adds
        for nd in cfg.simple_nodes():
            if nd.ast is None:
                continue
            for x in ast.walk(nd.ast):
                if isinstance(x, ast.Call) and isinstance(x.func, ast.Attribute) and x.func.attr == "add_sensitivity":
                    t = _guarded_by_skip(cfg, nd, lambda k: k == "is-none:" + p)
                    if t is None and none_facts(cfg, nd).get(p) is not False:
                        col.bad(where_of(f), f.rel, line_of(x), stmt_key(x),
                                f"{f.short} forwards a None contribution")
                    else:
                        col.ok(where_of(f), f.rel, line_of(x), stmt_key(x), f"unreachable when '{p} is None'")


# ------------------------------------------------------------------------------------------- copy on first add
@rule("R-COPY-FIRST", floor=2)
def r_copy_first(ctx: RuleCtx, col: Collector):
    """The value stored as the first contribution shares no memory with the contribution passed in (deep copy /
    fresh zero array): later in-place accumulation must not reach the caller's object or another signal."""
    m = ctx.model
    sig = m.public_class("Signal")
    for c in m.subclasses(sig):
        f = c.method("add_sensitivity")
        if f is None:
            continue
        an = ctx.alias(f, c, role_env=False)
        params = f.pos_params()
        pats = [o_param(p) for p in params]
        n = 0
        for st in ast.walk(f.node):
            if isinstance(st, ast.Assign) and any("sensitivity" in U(t) for t in st.targets):
                n += 1
                nd = an.cfg.node_of(st)
                env = an.state_in.get(nd)
                if env is None:
                    continue
                v = an.eval(st.value, dict(env))
                h = hits(v.orig, pats)
                if h:
                    col.bad(where_of(f), f.rel, line_of(st), stmt_key(st),
                            f"the first contribution is stored by reference/shallow copy of {fmt_origin(h[0])}: later "
                            f"'+=' on this signal would modify the caller's object (and any other signal holding it)")
                else:
                    col.ok(where_of(f), f.rel, line_of(st), stmt_key(st), "stored value is fresh memory")
        if n == 0:
            raise AnalysisError(f"{f.short}: no first-contribution store found")


# ---------------------------------------------------------------------------------------------- seed order
def _reaching_simple_def(fn: ast.FunctionDef, name: str) -> List[ast.AST]:
    return [n.value for n in ast.walk(fn) if isinstance(n, ast.Assign) and len(n.targets) == 1
            and isinstance(n.targets[0], ast.Name) and n.targets[0].id == name]


def _strip_parse(e: ast.AST) -> ast.AST:
    while isinstance(e, ast.Call) and isinstance(e.func, ast.Name) and e.func.id in ("_parse_to_list", "list", "tuple") \
            and len(e.args) == 1:
        e = e.args[0]
    return e


@rule("R-SEED-ORDER", floor=3)
def r_seed_order(ctx: RuleCtx, col: Collector):
    """Module.sensitivity hands the sensitivities of *all* outputs, in order, positionally to _sensitivity;
    Module.response hands the states of all inputs, in order, to _response and assigns result k to output k."""
    m = ctx.model
    mod = m.module_base()
    for meth, hook, container, attr, out_container in (("sensitivity", "_sensitivity", "sig_out", "sensitivity", "sig_in"),
                                                       ("response", "_response", "sig_in", "state", "sig_out")):
        f = mod.method(meth)
        if f is None:
            raise AnalysisError(f"Module.{meth} not found")
        selfn = m.self_name(f)
        calls = [x for x in ast.walk(f.node) if isinstance(x, ast.Call) and isinstance(x.func, ast.Attribute)
                 and x.func.attr == hook and isinstance(x.func.value, ast.Name) and x.func.value.id == selfn]
        if not calls:
            raise AnalysisError(f"Module.{meth}: no call of {hook} found")
        for c in calls:
            ok = False
            why = "arguments are not the starred list of all signals"
            if len(c.args) == 1 and isinstance(c.args[0], ast.Starred) and not c.keywords:
                src = c.args[0].value
                defs = [src] if not isinstance(src, ast.Name) else _reaching_simple_def(f.node, src.id)
                if len(defs) == 1 and isinstance(defs[0], ast.ListComp):
                    lc = defs[0]
                    g = lc.generators[0]
                    if len(lc.generators) == 1 and not g.ifs and norm(g.iter) == f"{selfn}.{container}" and \
                            isinstance(g.target, ast.Name) and norm(lc.elt) == f"{g.target.id}.{attr}":
                        ok = True
                    else:
                        why = f"collected list '{U(lc)}' is not [s.{attr} for s in self.{container}]"
                elif isinstance(src, ast.Name) and len(defs) == 1 and isinstance(defs[0], ast.List) and not defs[0].elts:
                    # built by appending inside one full forward loop over the container:
                    #     L = []; for s in self.<container>: [v = s.<attr>;] L.append(s.<attr> | v)
                    apps = [x for x in ast.walk(f.node) if isinstance(x, ast.Call) and isinstance(x.func, ast.Attribute) and x.func.attr in
                            ("append", "extend", "insert") and norm(x.func.value) == src.id]
                    lp = None
                    if len(apps) == 1 and apps[0].func.attr == "append" and len(apps[0].args) == 1:
                        p_ = getattr(apps[0], "_parent", None)
                        while p_ is not None and not isinstance(p_, ast.For):
                            if isinstance(p_, (ast.If, ast.While, ast.Try, ast.FunctionDef)):
                                p_ = None
                                break
                            p_ = getattr(p_, "_parent", None)
                        lp = p_
                    if lp is not None and norm(lp.iter) == f"{selfn}.{container}" and isinstance(lp.target, ast.Name) and not lp.orelse and \
                            not any(isinstance(x, (ast.Break, ast.Continue)) for x in ast.walk(lp)):
                        arg = apps[0].args[0]
                        want = f"{lp.target.id}.{attr}"
                        vdefs = [d.value for d in ast.walk(lp) if isinstance(d, ast.Assign) and len(d.targets) == 1 and
                                 isinstance(arg, ast.Name) and norm(d.targets[0]) == arg.id]
                        if norm(arg) == want or (len(vdefs) == 1 and norm(vdefs[0]) == want):
                            ok = True
                        else:
                            why = f"the loop appends '{U(arg)}', not {want}"
                    else:
                        why = "the collected list is not filled by one append in a full loop over the signals"
                else:
                    why = "the collected list has no single defining comprehension"
            if ok:
                col.ok(where_of(f), f.rel, line_of(c), stmt_key(c), f"all of self.{container} in order")
            else:
                col.bad(where_of(f), f.rel, line_of(c), stmt_key(c), f"Module.{meth}: {why}")
    # response: result k -> output k
    f = mod.method("response")
    selfn = m.self_name(f)
    found = False
    for loop in [n for n in ast.walk(f.node) if isinstance(n, ast.For)]:
        le = LoopElems(loop.target, loop.iter)
        for st in loop.body:
            if isinstance(st, ast.Assign) and len(st.targets) == 1 and isinstance(st.targets[0], ast.Attribute) \
                    and st.targets[0].attr == "state":
                found = True
                # receiver and value are the elements at the same position of self.sig_out and of the result list
                recv, val = le.denotes(st.targets[0].value), le.denotes(st.value)
                ok = recv == f"{selfn}.sig_out" and val is not None
                if ok:
                    src = _strip_parse(ast.parse(val, mode="eval").body)
                    ok = isinstance(src, ast.Name)
                    if ok:
                        defs = [_strip_parse(d) for d in _reaching_simple_def(f.node, src.id)]
                        ok = len(defs) == 1 and isinstance(defs[0], ast.Call) and U(defs[0].func) == f"{selfn}._response"
                if ok:
                    col.ok(where_of(f), f.rel, line_of(st), stmt_key(st), "result k assigned to output k")
                else:
                    col.bad(where_of(f), f.rel, line_of(st), stmt_key(st),
                            "Module.response: cannot show that output k receives result k of _response")
    if not found:
        raise AnalysisError("Module.response: no loop assigning the output states found")


# -------------------------------------------------------------------------------------------------- reset
@rule("R-RESET", floor=5)
def r_reset(ctx: RuleCtx, col: Collector):
    """reset() leaves no sensitivity behind: Module.reset resets every output and input signal and calls _reset;
    on every normal exit of Signal.reset the sensitivity is None or was zero-filled in place; SignalSlice.reset
    writes only through its own slice."""
    m = ctx.model
    mod = m.module_base()
    sig = m.public_class("Signal")
    f = mod.method("reset")
    if f is None:
        raise AnalysisError("Module.reset not found")
    selfn = m.self_name(f)
    cfg = ctx.flow.cfg(f)
    for container in ("sig_out", "sig_in"):
        evs = [e for e in iteration_events(f.node, selfn, container) if "reset" in e["called"]]
        nodes = [cfg.node_of(e["node"]) for e in evs if not e["filtered"] and e["dir"] in ("fwd", "rev")]
        nodes = [n for n in nodes if n is not None]
        if nodes and cfg.must_pass(cfg.entry, cfg.exit, nodes):
            col.ok(where_of(f), f.rel, line_of(evs[0]["node"]), f"Module.reset: every signal of self.{container} reset",
                   stmt_key(evs[0]["node"]))
        else:
            col.bad(where_of(f), f.rel, line_of(f.node), f"Module.reset: self.{container} not reset on every path",
                    f"Module.reset() can return without resetting all signals in self.{container}; stale "
                    f"sensitivities would be accumulated into the next back-propagation")
    hook_nodes = [nd for nd in cfg.simple_nodes() if nd.ast is not None and any(
        isinstance(x, ast.Call) and U(x.func) == f"{selfn}._reset" for x in ast.walk(nd.ast))]
    if hook_nodes and cfg.must_pass(cfg.entry, cfg.exit, hook_nodes):
        col.ok(where_of(f), f.rel, line_of(hook_nodes[0].ast), "Module.reset: _reset hook called", "")
    else:
        col.bad(where_of(f), f.rel, line_of(f.node), "Module.reset: _reset hook not called on every path",
                "modules with internal sensitivity state rely on _reset being invoked by reset()")

    # Signal.reset typestate
    f = sig.method("reset")
    if f is None:
        raise AnalysisError("Signal.reset not found")
    selfn = m.self_name(f)
    cfg = ctx.flow.cfg(f)
    target = f"{selfn}.sensitivity"

    def step(nd: Node, st):
        return step_for(nd, st, target)

    def step_for(nd: Node, st, target):
        a = nd.ast
        if nd.kind == STMT and isinstance(a, ast.Assign):
            for t in a.targets:
                if norm(t) == target:
                    if isinstance(a.value, ast.Constant) and a.value.value is None:
                        return ["NONE"]
                    return ["SET"]
                if isinstance(t, ast.Subscript) and norm(t.value) == target:
                    if isinstance(a.value, ast.Constant) and a.value.value == 0 and \
                            isinstance(t.slice, ast.Constant) and t.slice.value is Ellipsis:
                        return ["ZEROED"]
                    if isinstance(a.value, ast.Constant) and a.value.value == 0 and isinstance(t.slice, ast.Slice) \
                            and t.slice.lower is None and t.slice.upper is None and t.slice.step is None:
                        return ["ZEROED"]
                    return ["PARTIAL" if st != "ZEROED" else st]
        if nd.kind == STMT and isinstance(a, ast.AugAssign) and norm(a.target) == target:
            if isinstance(a.op, ast.Mult) and isinstance(a.value, ast.Constant) and a.value.value == 0:
                return ["ZEROED"]
            return ["SET"]
        return [st]

    def edge_ok(nd, succ, lab, st):
        return True

    # helper methods of the class that clear the sensitivity themselves and report success as their return value
    # (`if not self._zero(): <fallback>`): summarised per (exit state, returned constant) and applied at the test
    def helper_call(test: ast.AST):
        neg = False
        while isinstance(test, ast.UnaryOp) and isinstance(test.op, ast.Not):
            test, neg = test.operand, not neg
        if isinstance(test, ast.Call) and isinstance(test.func, ast.Attribute) and isinstance(test.func.value, ast.Name) \
                and test.func.value.id == selfn and not test.args and not test.keywords:
            g = m.resolve_method(sig, test.func.attr)
            if g is not None and g.cls is not None and m.self_name(g):
                return g, neg
        return None

    _summaries: Dict[Tuple[str, str], Set[Tuple[str, Optional[bool]]]] = {}

    def summary(g: FuncInfo, st: str):
        key = (g.qual, st)
        if key in _summaries:
            return _summaries[key]
        _summaries[key] = set()
        gs = m.self_name(g)
        gcfg = ctx.flow.cfg(g)

        def gstep(nd: Node, s_):
            # same transfer function, for the helper's own `self`
            return step_for(nd, s_, f"{gs}.sensitivity")
        gat = run_typestate(gcfg, [st], gstep, flag_sensitive=True)
        out: Set[Tuple[str, Optional[bool]]] = set()
        for nd in gcfg.simple_nodes():
            if nd.kind == STMT and isinstance(nd.ast, ast.Return):
                v = nd.ast.value
                rv = bool(v.value) if isinstance(v, ast.Constant) else (False if v is None else None)
                for s_, _f in gat[nd]:
                    out.add((s_, rv))
        if not any(isinstance(x, ast.Return) for x in ast.walk(g.node)):
            for s_, _f in gat[gcfg.exit]:
                out.add((s_, False))            # falls off the end: returns None
        _summaries[key] = out
        return out

    def test_outcomes(test: ast.AST, st):
        """[(state after evaluating the test, truth of the test or None when open)]; None when no helper is involved"""
        if isinstance(test, ast.UnaryOp) and isinstance(test.op, ast.Not):
            sub = test_outcomes(test.operand, st)
            return None if sub is None else [(s_, None if tv is None else not tv) for s_, tv in sub]
        if isinstance(test, ast.BoolOp) and len(test.values) == 2:
            # <plain condition> and/or <helper call>: the helper only runs when the first operand does not decide
            first, second = test.values
            sub = test_outcomes(second, st)
            if sub is None or test_outcomes(first, st) is not None:
                return None
            short = (st, False) if isinstance(test.op, ast.And) else (st, True)
            return [short] + sub
        hc = helper_call(test)
        if hc is None:
            return None
        g, neg = hc
        return [(s_, (None if rv is None else (rv != neg))) for s_, rv in summary(g, st)] or [(st, None)]

    def step2(nd: Node, st):
        if isinstance(st, tuple):
            st = st[0]                      # the tag only lives on the edge out of the test
        if nd.kind == TEST and nd.ast is not None:
            outs = test_outcomes(nd.ast, st)
            if outs is not None:
                return outs
        return step(nd, st)

    def edge_ok2(nd, succ, lab, st):
        if isinstance(st, tuple) and st[1] is not None and lab in ("T", "F"):
            return (lab == "T") == st[1]
        return True

    at_raw = run_typestate(cfg, ["UNKNOWN"], step2, flag_sensitive=True, edge_ok=edge_ok2)
    at = {nd: {((s_[0] if isinstance(s_, tuple) else s_), fc) for s_, fc in v} for nd, v in at_raw.items()}
    # states at exit; the flag facts tell us when `self.sensitivity is None` is known true
    exit_states = set()
    for st, facts in at[cfg.exit]:
        d = dict(facts)
        if st == "UNKNOWN" and d.get(f"{target} is None") is True:
            st = "NONE"
        exit_states.add(st)
    badst = exit_states - {"NONE", "ZEROED"}
    if badst:
        col.bad(where_of(f), f.rel, line_of(f.node), "Signal.reset: sensitivity cleared on every exit",
                f"Signal.reset can return with the sensitivity in state(s) {sorted(badst)} (neither None nor "
                f"zero-filled): data of the previous back-propagation would survive reset()")
    else:
        col.ok(where_of(f), f.rel, line_of(f.node), "Signal.reset: sensitivity cleared on every exit",
               f"exit states {sorted(exit_states)}")

    # SignalSlice.reset / setter
    for c in m.subclasses(sig, strict=True):
        f = c.method("reset")
        if f is None:
            continue
        selfn = m.self_name(f)
        bad = False
        for st, tgt, base, sub in sens_store_sites(f):
            if norm(base) != f"{selfn}.sensitivity" or sub or not (isinstance(st, ast.Assign) and isinstance(st.value, ast.Constant) and st.value.value is None):
                bad = True
                col.bad(where_of(f), f.rel, line_of(st), stmt_key(st),
                        f"{c.name}.reset writes '{U(tgt)}': a slice must clear only its own entries, through its own "
                        f"sliced 'sensitivity' property")
        cfg = ctx.flow.cfg(f)
        stores = [cfg.node_of(st) for st, *_ in sens_store_sites(f)]
        if not stores:
            col.bad(where_of(f), f.rel, line_of(f.node), f"{c.name}.reset: no clearing store", "reset does not clear")
        elif not bad:
            # the only way to skip the store is the `is None` test
            blocked = [s for s in stores if s is not None]
            path = cfg.find_path(cfg.entry, cfg.exit, blocked=blocked)
            skipped_ok = True
            if path:
                tests = [n for n in path if n.kind == TEST]
                skipped_ok = all(_none_test_kind(t.ast) or (isinstance(t.ast, ast.Compare) and isinstance(t.ast.ops[0], ast.IsNot)) for t in tests) and bool(tests)
            if skipped_ok:
                col.ok(where_of(f), f.rel, line_of(f.node), f"{c.name}.reset: clears through its own slice", "")
            else:
                col.bad(where_of(f), f.rel, line_of(f.node), f"{c.name}.reset: path without clearing",
                        f"path {fmt_path(path)} skips the clearing store for a reason other than 'already None'")


# --------------------------------------------------------------------------------------------- slice siblings
@rule("R-SLICE-SIB", floor=5)
def r_slice_sib(ctx: RuleCtx, col: Collector):
    """The SignalSlice accessors agree: every access to the base's state / sensitivity inside the state /
    sensitivity accessors and add_sensitivity goes through `[self.slice]`; a missing base sensitivity is created as
    zeros derived from the base state."""
    m = ctx.model
    sig = m.public_class("Signal")
    n_acc = 0
    for c in m.subclasses(sig, strict=True):
        init = c.method("__init__")
        if init is None:
            continue
        selfn = m.self_name(init)
        # attribute names holding base and slice: assigned from the first two parameters
        ps = init.pos_params()
        base_attr = slice_attr = None
        for n in ast.walk(init.node):
            if isinstance(n, ast.Assign) and isinstance(n.value, ast.Name) and len(n.targets) == 1 and \
                    isinstance(n.targets[0], ast.Attribute) and norm(n.targets[0].value) == selfn:
                if len(ps) > 0 and n.value.id == ps[0]:
                    base_attr = n.targets[0].attr
                if len(ps) > 1 and n.value.id == ps[1]:
                    slice_attr = n.targets[0].attr
        if not base_attr or not slice_attr:
            raise AnalysisError(f"{c.name}.__init__: base/slice attributes not recognised")
        for name in ("state", "sensitivity", "add_sensitivity"):
            for f in c.methods.get(name, []):
                n_acc += 1
                sn = m.self_name(f)
                role = "sensitivity" if name != "state" else "state"
                bad = False
                n_sub = 0
                for x in ast.walk(f.node):
                    # subscript of self.base.<attr>
                    if isinstance(x, ast.Subscript) and isinstance(x.value, ast.Attribute) and \
                            norm(x.value.value) == f"{sn}.{base_attr}":
                        n_sub += 1
                        if x.value.attr != role:
                            bad = True
                            col.bad(where_of(f), f.rel, line_of(x), stmt_key(x),
                                    f"{c.name}.{name} ({'setter' if f.is_setter() else 'getter' if f.is_property() else 'method'}) "
                                    f"indexes the base's '{x.value.attr}', expected '{role}'")
                        elif norm(x.slice) != f"{sn}.{slice_attr}":
                            bad = True
                            col.bad(where_of(f), f.rel, line_of(x), stmt_key(x),
                                    f"{c.name}.{name} indexes the base with '{U(x.slice)}' instead of its own slice")
                    # whole-object store to self.base.<attr>
                    if isinstance(x, ast.Assign):
                        for t in x.targets:
                            if isinstance(t, ast.Attribute) and norm(t.value) == f"{sn}.{base_attr}":
                                v = norm(x.value)
                                okv = t.attr == "sensitivity" and v in (f"{sn}.{base_attr}.state*0", f"0*{sn}.{base_attr}.state",
                                                                        f"np.zeros_like({sn}.{base_attr}.state)")
                                if not okv:
                                    bad = True
                                    col.bad(where_of(f), f.rel, line_of(x), stmt_key(x),
                                            f"{c.name}.{name} replaces the base's whole '{t.attr}' with '{U(x.value)}' "
                                            f"(only a zero array of the base state's shape may be created)")
                                else:
                                    col.ok(where_of(f), f.rel, line_of(x), stmt_key(x), "zero sensitivity of the base's shape")
                if not bad:
                    col.ok(where_of(f), f.rel, line_of(f.node),
                           f"{c.name}.{name} {'setter' if f.is_setter() else 'getter' if f.is_property() else 'method'}",
                           f"{n_sub} base accesses, all through [self.{slice_attr}] on '{role}'")
        # getter must return the sliced value; setter must store through the slice; add must accumulate into self.sensitivity
        for name, role in (("state", "state"), ("sensitivity", "sensitivity")):
            for f in c.methods.get(name, []):
                sn = m.self_name(f)
                if f.is_setter():
                    stores = [x for x in ast.walk(f.node) if isinstance(x, ast.Assign) and any(
                        isinstance(t, ast.Subscript) and norm(t.value) == f"{sn}.{base_attr}.{role}" for t in x.targets)]
                    if not stores:
                        col.bad(where_of(f), f.rel, line_of(f.node), f"{c.name}.{name} setter: no sliced store",
                                "the setter never writes the base through the slice")
                else:
                    want = f"{sn}.{base_attr}.{role}[{sn}.{slice_attr}]"
                    rets = [x for x in ast.walk(f.node) if isinstance(x, ast.Return) and x.value is not None and want in norm(x.value)]
                    if not rets:
                        col.bad(where_of(f), f.rel, line_of(f.node), f"{c.name}.{name} getter: no sliced read",
                                "the getter never returns the sliced base value")
                    for r in rets:
                        alts = [r.value.body, r.value.orelse] if isinstance(r.value, ast.IfExp) else [r.value]
                        direct = any(norm(a) == want for a in alts)
                        if direct:
                            col.ok(where_of(f), f.rel, line_of(r), f"{c.name}.{name} getter returns the view itself", want)
                        else:
                            col.bad(where_of(f), f.rel, line_of(r), f"{c.name}.{name} getter returns the view itself",
                                    f"the getter returns '{U(r.value)}' instead of the sliced base value itself: in-place "
                                    f"updates through the returned object (nested slices, '+=' on basic slices) no longer "
                                    f"reach the base signal")
        f = c.method("add_sensitivity")
        if f is not None:
            sn = m.self_name(f)
            acc = [x for x in ast.walk(f.node) if isinstance(x, ast.AugAssign) and isinstance(x.op, ast.Add)
                   and norm(x.target) == f"{sn}.sensitivity"]
            if not acc:
                col.bad(where_of(f), f.rel, line_of(f.node), f"{c.name}.add_sensitivity: no accumulation through the slice",
                        "add_sensitivity must accumulate into its own sliced sensitivity")
    if n_acc == 0:
        raise AnalysisError("no SignalSlice accessors found")
