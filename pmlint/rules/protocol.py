"""Driver protocol rules (C10, C17, C19): R-PROTOCOL, R-RESTORE, R-FD-WRITEBACK, R-SIBLING-EXC."""
from __future__ import annotations

import ast
import re
from typing import Dict, List, Optional, Set, Tuple

from ..cfg import CFG, Node, STMT, TEST, FOR, WITH, run_typestate, fmt_path
from ..flow import Alias
from ..model import stmt_key, AnalysisError, FuncInfo
from ..report import rule, Collector
from .common import RuleCtx, where_of, line_of, hits, dedupe
from .eff import _functions

U = ast.unparse


def norm(e) -> str:
    return "".join(U(e).split())


def drivers(ctx: RuleCtx) -> List[Tuple[FuncInfo, str]]:
    m = ctx.model
    mma = m.public_class("MMA")
    out = []
    f = m.resolve_method(mma, "response")
    if f is None:
        raise AnalysisError("MMA.response not found")
    out.append((f, "MMA.response"))
    out.append((m.public_function("minimize_oc"), "minimize_oc"))
    out.append((m.public_function("finite_difference"), "finite_difference"))
    return out


def network_receiver(fn: ast.FunctionDef) -> Optional[str]:
    """The expression on which zero-argument .response(), .sensitivity() and .reset() are all called."""
    calls: Dict[str, Set[str]] = {}
    for n in ast.walk(fn):
        if isinstance(n, ast.Call) and isinstance(n.func, ast.Attribute) and not n.args and not n.keywords and \
                n.func.attr in ("response", "sensitivity", "reset"):
            calls.setdefault(norm(n.func.value), set()).add(n.func.attr)
    cands = [r for r, s in calls.items() if {"response", "sensitivity"} <= s]
    return cands[0] if len(cands) == 1 else None


def node_exprs(nd: Node) -> List[ast.AST]:
    a = nd.ast
    if a is None:
        return []
    if nd.kind == STMT:
        return [a]
    if nd.kind == TEST:
        return [a]
    if nd.kind == FOR:
        return [a.iter]
    if nd.kind == WITH:
        return [it.context_expr for it in a.items]
    return []


def protocol_events(nd: Node, net: str) -> List[Tuple[str, ast.AST]]:
    evs: List[Tuple[Tuple[int, int, int], str, ast.AST]] = []
    for ex in node_exprs(nd):
        stores = set()
        if isinstance(ex, (ast.Assign, ast.AugAssign, ast.AnnAssign)):
            tgts = ex.targets if isinstance(ex, ast.Assign) else [ex.target]
            for t in tgts:
                for x in (t.elts if isinstance(t, (ast.Tuple, ast.List)) else [t]):
                    base = x
                    while isinstance(base, ast.Subscript):
                        base = base.value
                    if isinstance(base, ast.Attribute) and base.attr == "sensitivity":
                        stores.add(id(base))
                        evs.append(((10 ** 9, 0, 0), "SEED", x))
                    elif isinstance(base, ast.Attribute) and base.attr == "state":
                        stores.add(id(base))
                        evs.append(((10 ** 9, 1, 0), "STATEWRITE", x))
        for n in ast.walk(ex):
            if isinstance(n, ast.Call):
                stores.add(id(n.func))   # a method reference is not a data read
        for n in ast.walk(ex):
            pos = (getattr(n, "end_lineno", 0) or 0, getattr(n, "end_col_offset", 0) or 0, 0)
            if isinstance(n, ast.Call) and isinstance(n.func, ast.Attribute) and not n.args and not n.keywords \
                    and norm(n.func.value) == net and n.func.attr in ("reset", "response", "sensitivity"):
                evs.append((pos, {"reset": "RESET", "response": "RESPONSE", "sensitivity": "SENS"}[n.func.attr], n))
            elif isinstance(n, ast.Call) and isinstance(n.func, ast.Name) and n.func.id == "obtain_sensitivities":
                evs.append((pos, "READ", n))
            elif isinstance(n, ast.Attribute) and n.attr == "sensitivity" and isinstance(n.ctx, ast.Load) \
                    and id(n) not in stores:
                evs.append((pos, "READ", n))
    evs.sort(key=lambda e: e[0])
    return [(k, n) for _, k, n in evs]


@rule("R-PROTOCOL", floor=10)
def r_protocol(ctx: RuleCtx, col: Collector):
    """Typestate of the network's sensitivities inside the drivers (MMA.response, minimize_oc, finite_difference):
    UNKNOWN -reset-> CLEAN -seed-> SEEDED -sensitivity()-> DONE -reset-> CLEAN.  Errors: seeding or back-propagating
    while the previous back-propagation's results are still present, reading sensitivities before sensitivity(),
    sensitivity() for a response computed before the variables were changed.  finite_difference must be CLEAN at
    every normal exit (no sensitivity is left set)."""
    for f, label in drivers(ctx):
        net = network_receiver(f.node)
        if net is None:
            raise AnalysisError(f"{label}: cannot identify the network object (response/sensitivity receiver)")
        cfg = ctx.flow.cfg(f)
        errors: Dict[Tuple[int, str], Tuple[ast.AST, str]] = {}
        sites: Dict[Tuple[int, str], ast.AST] = {}

        def step(nd: Node, st):
            ts, fresh = st
            for ev, n in protocol_events(nd, net):
                key = (id(n), ev)
                sites[key] = n
                if ev == "RESET":
                    ts = "CLEAN"
                elif ev == "RESPONSE":
                    fresh = True
                elif ev == "STATEWRITE":
                    fresh = False
                elif ev == "SEED":
                    if ts == "DONE":
                        errors[key] = (n, "a sensitivity is seeded while the results of the previous back-propagation "
                                          "are still accumulated in the network (no reset() in between)")
                    elif ts == "UNKNOWN":
                        errors[key] = (n, "a sensitivity is seeded before the network was reset (unknown leftovers "
                                          "would be added to the result)")
                    ts = "SEEDED"
                elif ev == "SENS":
                    if ts == "DONE":
                        errors[key] = (n, "sensitivity() is called again without reset(): every contribution would be "
                                          "accumulated twice")
                    elif ts == "UNKNOWN":
                        errors[key] = (n, "sensitivity() is called before the network was reset")
                    if not fresh:
                        errors.setdefault(key, (n, "sensitivity() is called although the states were changed after the "
                                                   "last response() (adjoint of a stale response)"))
                    ts = "DONE"
                elif ev == "READ":
                    if ts != "DONE":
                        errors[key] = (n, f"sensitivities are read in state {ts} (not directly after sensitivity()): "
                                          f"they are {'cleared' if ts == 'CLEAN' else 'not yet back-propagated'}")
            return [(ts, fresh)]

        at = run_typestate(cfg, [("UNKNOWN", False)], step, flag_sensitive=True, ignore_exc=True)
        for key, n in sites.items():
            ev = key[1]
            if ev == "STATEWRITE" or ev == "RESPONSE":
                continue
            construct = f"{ev} {stmt_key(n)}"
            if key in errors:
                col.bad(where_of(f), f.rel, line_of(errors[key][0]), construct, f"{label}: {errors[key][1]}")
            else:
                col.ok(where_of(f), f.rel, line_of(n), construct, "protocol state admissible on every path")
        if label == "finite_difference":
            exits = {st[0] for st, facts in at[cfg.exit]}
            if exits <= {"CLEAN"} and exits:
                col.ok(where_of(f), f.rel, line_of(f.node), "finite_difference: exit state", "CLEAN on every normal exit")
            else:
                col.bad(where_of(f), f.rel, line_of(f.node), "finite_difference: exit state",
                        f"finite_difference can return in state(s) {sorted(exits)}: sensitivities are left set on the "
                        f"caller's signals")
    dedupe(col)


# ------------------------------------------------------------------------------------------ finite_difference
def _fd_facts(f: FuncInfo):
    """Names playing the roles in finite_difference: the iterator, the local snapshot, the saved copies."""
    it_name = snap = None
    sig_state = None
    for n in ast.walk(f.node):
        if isinstance(n, ast.Assign) and len(n.targets) == 1 and isinstance(n.targets[0], ast.Name) and \
                isinstance(n.value, ast.Call) and U(n.value.func).endswith("nditer") and n.value.args and \
                isinstance(n.value.args[0], ast.Name):
            it_name = n.targets[0].id
            snap = n.value.args[0].id
    if it_name is None:
        raise AnalysisError("finite_difference: np.nditer over the input snapshot not found")
    for n in ast.walk(f.node):
        if isinstance(n, ast.Assign) and len(n.targets) == 1 and isinstance(n.targets[0], ast.Name) and \
                n.targets[0].id == snap and isinstance(n.value, ast.Attribute) and n.value.attr == "state":
            sig_state = norm(n.value)
    if sig_state is None:
        raise AnalysisError("finite_difference: snapshot is not taken from a signal state")
    saved = set()
    for n in ast.walk(f.node):
        if isinstance(n, ast.Assign) and len(n.targets) == 1 and isinstance(n.targets[0], ast.Name):
            if any(isinstance(x, ast.Subscript) and norm(x.value) == it_name for x in ast.walk(n.value)):
                saved.add(n.targets[0].id)
    return it_name, snap, sig_state, saved


@rule("R-RESTORE", floor=5)
def r_restore(ctx: RuleCtx, col: Collector):
    """finite_difference: every perturbation store is followed, on every feasible path to the iterator advance or the
    function exit, by a store of the saved original to the same target; the saved original, the reference outputs and
    the recorded analytical sensitivities are fresh copies (a view would be 'restored' to the perturbed value or
    cleared by reset())."""
    f = ctx.model.public_function("finite_difference")
    it_name, snap, sig_state, saved = _fd_facts(f)
    cfg = ctx.flow.cfg(f)
    elem = f"{it_name}[0]"

    def classify(nd: Node):
        a = nd.ast
        if nd.kind != STMT:
            return None
        if isinstance(a, ast.AugAssign) and norm(a.target) == elem:
            return ("P", elem)
        if isinstance(a, ast.Assign) and len(a.targets) == 1:
            t = norm(a.targets[0])
            if t == elem:
                return ("R", elem) if isinstance(a.value, ast.Name) and a.value.id in saved else ("P", elem)
            if t == sig_state:
                if isinstance(a.value, ast.Name) and a.value.id in saved:
                    return ("R", sig_state)
                if isinstance(a.value, ast.Name) and a.value.id == snap:
                    return None  # write-back of the snapshot (R-FD-WRITEBACK)
                return ("P", sig_state)
        return None

    advance = [nd for nd in cfg.simple_nodes() if nd.ast is not None and any(
        isinstance(x, ast.Call) and norm(x.func) == f"{it_name}.iternext" for ex in node_exprs(nd) for x in ast.walk(ex))]
    # `for _ in it:` advances the iterator each time control returns to the loop header
    advance += [nd for nd in cfg.simple_nodes() if nd.kind == FOR and nd.ast is not None and norm(nd.ast.iter) == it_name]
    if not advance:
        raise AnalysisError("finite_difference: iterator advance not found")
    for target in (elem, sig_state):
        errs: Dict[int, Tuple[Node, Node]] = {}
        pnodes = [nd for nd in cfg.simple_nodes() if classify(nd) == ("P", target)]

        def step(nd: Node, st):
            c = classify(nd)
            if c == ("P", target):
                return [("PERT", nd.id)]
            if c == ("R", target):
                return [("CLEAN", -1)]
            if nd in advance and st[0] == "PERT":
                errs[st[1]] = (cfg.nodes[st[1]], nd)
            return [st]

        at = run_typestate(cfg, [("CLEAN", -1)], step, flag_sensitive=True, ignore_exc=True)
        for st, facts in at[cfg.exit]:
            if st[0] == "PERT":
                errs[st[1]] = (cfg.nodes[st[1]], cfg.exit)
        for p in pnodes:
            if p.id in errs:
                col.bad(where_of(f), f.rel, line_of(p.ast), stmt_key(p.ast),
                        f"perturbation of '{target}' is not undone before "
                        f"{'the iterator advances' if errs[p.id][1] is not cfg.exit else 'the function returns'} "
                        f"(L{errs[p.id][1].lineno}): the caller's input state stays perturbed")
            else:
                col.ok(where_of(f), f.rel, line_of(p.ast), stmt_key(p.ast),
                       f"restored from {sorted(saved)} on every feasible path (correlated guards respected)")
    # freshness of the saved copies
    an = ctx.alias(f, None, role_env=False)
    from ..dep import DefUse
    du = DefUse(f.node)
    for nd in cfg.simple_nodes():
        a = nd.ast
        if nd.kind != STMT or not isinstance(a, ast.Assign) or len(a.targets) != 1:
            continue
        t = a.targets[0]
        interesting = None
        if isinstance(t, ast.Name) and t.id in saved:
            interesting = f"saved original '{t.id}'"
        elif isinstance(t, ast.Subscript):
            base = t
            while isinstance(base, ast.Subscript):
                base = base.value
            envb = an.state_in.get(nd) or {}
            is_list = isinstance(base, ast.Name) and base.id in envb and envb[base.id].kinds <= {"pylist"} and envb[base.id].kinds
            if is_list and _derives_from_signal_data(du, a.value):
                interesting = f"record '{U(t)}'"
        if interesting is None:
            continue
        env = an.state_in.get(nd)
        if env is None:
            continue
        v = an.eval(a.value, dict(env))
        live = [o for o in v.orig]
        if live:
            col.bad(where_of(f), f.rel, line_of(a), stmt_key(a),
                    f"{interesting} is kept as a view/reference of live data ({', '.join(sorted(map(str, live)))[:120]}): "
                    f"it changes when the input is perturbed or when reset() clears the sensitivities")
        else:
            col.ok(where_of(f), f.rel, line_of(a), stmt_key(a), f"{interesting} is a fresh copy")


def _derives_from_signal_data(du, e: ast.AST, _seen=None) -> bool:
    """Does the expression read a signal's `.state` / `.sensitivity`, directly or through local names?"""
    _seen = _seen if _seen is not None else set()
    for n in ast.walk(e):
        if isinstance(n, ast.Attribute) and n.attr in ("state", "sensitivity") and isinstance(n.ctx, ast.Load):
            return True
        if isinstance(n, ast.Name) and n.id not in _seen:
            _seen.add(n.id)
            for d in du.defs.get(n.id, []):
                if _derives_from_signal_data(du, d, _seen):
                    return True
    return False


@rule("R-FD-WRITEBACK", floor=2)    # at least one perturbation and its restoration
def r_fd_writeback(ctx: RuleCtx, col: Collector):
    """finite_difference edits a local snapshot of the input state in place; signals whose state getter returns a copy
    (slices with index arrays, properties) only see the edit if the snapshot is assigned back.  Between every in-place
    edit and the next response() / iterator advance / exit, `<signal>.state = <snapshot>` must occur."""
    f = ctx.model.public_function("finite_difference")
    it_name, snap, sig_state, saved = _fd_facts(f)
    cfg = ctx.flow.cfg(f)
    elem = f"{it_name}[0]"
    net = network_receiver(f.node)

    def is_edit(nd):
        a = nd.ast
        return nd.kind == STMT and ((isinstance(a, ast.AugAssign) and norm(a.target) == elem) or
                                    (isinstance(a, ast.Assign) and any(norm(t) == elem for t in a.targets)))

    def is_sync(nd):
        a = nd.ast
        return nd.kind == STMT and isinstance(a, ast.Assign) and any(norm(t) == sig_state for t in a.targets) and \
            isinstance(a.value, ast.Name) and a.value.id == snap

    def is_use(nd):
        if nd.kind == FOR and nd.ast is not None and norm(nd.ast.iter) == it_name:
            return True             # `for _ in it:` advances the iterator at the loop header
        for ex in node_exprs(nd):
            for x in ast.walk(ex):
                if isinstance(x, ast.Call) and isinstance(x.func, ast.Attribute) and (
                        (norm(x.func.value) == net and x.func.attr == "response") or norm(x.func) == f"{it_name}.iternext"):
                    return True
        return False

    errs: Dict[int, Node] = {}

    def step(nd: Node, st):
        if is_edit(nd):
            return [("DIRTY", nd.id)]
        if is_sync(nd):
            return [("SYNC", -1)]
        if st[0] == "DIRTY" and is_use(nd):
            errs.setdefault(st[1], nd)
        return [st]

    at = run_typestate(cfg, [("SYNC", -1)], step, flag_sensitive=True, ignore_exc=True)
    for st, facts in at[cfg.exit]:
        if st[0] == "DIRTY":
            errs.setdefault(st[1], cfg.exit)
    edits = [nd for nd in cfg.simple_nodes() if is_edit(nd)]
    if not edits:
        raise AnalysisError("finite_difference: no in-place edit of the snapshot found")
    for e in edits:
        if e.id in errs:
            u = errs[e.id]
            col.bad(where_of(f), f.rel, line_of(e.ast), stmt_key(e.ast),
                    f"in-place edit of the snapshot '{snap}' is not written back with '{sig_state} = {snap}' before "
                    f"{'the function returns' if u is cfg.exit else 'L%d (%s)' % (u.lineno, stmt_key(u.ast))}: signals "
                    f"whose state getter returns a copy never see the perturbation / restoration")
        else:
            col.ok(where_of(f), f.rel, line_of(e.ast), stmt_key(e.ast), f"followed by '{sig_state} = {snap}' on every feasible path")


def _names_of(e: ast.AST) -> Set[str]:
    return {x.id for x in ast.walk(e) if isinstance(x, ast.Name)}


@rule("R-SIBLING-EXC", floor=1)
def r_sibling_exc(ctx: RuleCtx, col: Collector):
    """Package-wide: `try` bodies of one function that are equal up to real/imag (sibling passes over the real and
    imaginary direction) must catch the same exception types."""
    import re
    for f in _functions(ctx.model):
        tries = [n for n in ast.walk(f.node) if isinstance(n, ast.Try)]
        # one implementation shared by both passes, parameterised by the part function (part = np.real / np.imag): the
        # fallback in the handler must apply the same function as the guarded statement
        partfns = {a.arg for a in f.node.args.args + f.node.args.kwonlyargs}
        for n in ast.walk(f.node):
            if isinstance(n, ast.Assign) and re.search(r"\b(real|imag)\b", U(n.value)):
                for t_ in n.targets:
                    partfns |= {x.id for x in ast.walk(t_) if isinstance(x, ast.Name)}
        # a table of directions walked by a loop: for step, part, label in [(dx, np.real, ..), (dx*1j, np.imag, ..)]
        for n in ast.walk(f.node):
            if isinstance(n, ast.For) and (_names_of(n.iter) & partfns):
                partfns |= {x.id for x in ast.walk(n.target) if isinstance(x, ast.Name)}
        for t in tries:
            def applied(stmts):
                return {x.func.id for s_ in stmts for x in ast.walk(s_) if isinstance(x, ast.Call) and isinstance(x.func, ast.Name)
                        and x.func.id in partfns and x.args}
            pb = applied(t.body)
            if not pb or not any(isinstance(x, ast.Subscript) for s_ in t.body for x in ast.walk(s_)):
                continue
            for h in t.handlers:
                ph = applied(h.body)
                parts_h = set(re.findall(r"\b(real|imag)\b", "\n".join(U(s_) for s_ in h.body)))
                if ph == pb and not parts_h:
                    col.ok(where_of(f), f.rel, line_of(h), stmt_key(h.body[0]), f"fallback applies the same part function {sorted(pb)}")
                elif ph or parts_h:
                    col.bad(where_of(f), f.rel, line_of(h), stmt_key(h.body[0]),
                            f"the guarded statement applies the part function {sorted(pb)} but the fallback in the handler applies "
                            f"{sorted(ph | parts_h)}: for values that need the fallback (scalars) the wrong component is reported")
        if len(tries) < 2:
            continue
        groups: Dict[str, List[ast.Try]] = {}
        for t in tries:
            body = "\n".join(U(s) for s in t.body)
            key = re.sub(r"\b(real|imag)\b", "PART", body)
            groups.setdefault(key, []).append(t)
        for key, lst in groups.items():
            if len(lst) < 2:
                continue

            def types(t: ast.Try):
                out = set()
                for h in t.handlers:
                    if h.type is None:
                        out.add("*")
                    elif isinstance(h.type, ast.Tuple):
                        out |= {U(x) for x in h.type.elts}
                    else:
                        out.add(U(h.type))
                return out
            # inside one try statement the fallback in the handler applies the same part function as the body
            for t in lst:
                parts_body = set(re.findall(r"\b(real|imag)\b", "\n".join(U(s_) for s_ in t.body)))
                for h in t.handlers:
                    parts_h = set(re.findall(r"\b(real|imag)\b", "\n".join(U(s_) for s_ in h.body)))
                    if parts_body and parts_h and parts_h != parts_body:
                        col.bad(where_of(f), f.rel, line_of(h), stmt_key(h.body[0]),
                                f"the fallback in the handler takes the {sorted(parts_h)} part although the guarded statement "
                                f"takes the {sorted(parts_body)} part: for values that need the fallback (scalars) the "
                                f"wrong component is reported")
                    elif parts_body and parts_h:
                        col.ok(where_of(f), f.rel, line_of(h), stmt_key(h.body[0]), f"fallback uses the same part {sorted(parts_h)}")
            ref = types(lst[0])
            for t in lst[1:]:
                if types(t) != ref:
                    col.bad(where_of(f), f.rel, line_of(t), stmt_key(t.body[0]),
                            f"sibling try blocks (L{lst[0].lineno} and L{t.lineno}) differ only in real/imag but catch "
                            f"{sorted(ref)} vs {sorted(types(t))}: one pass raises where the other falls back")
                else:
                    col.ok(where_of(f), f.rel, line_of(t), stmt_key(t.body[0]),
                           f"same exception types as its sibling at L{lst[0].lineno}: {sorted(ref)}")
