"""Solver rules (C05, C06, C07): R-SOLVER-SIG, R-TRANS-EXH, R-AUTO-GUARD, R-DB-CLEAR, R-DB-PAIR, R-DIAG-DEP,
R-INNER-GUARD, R-LDA-DEFAULT, R-RET-SHAPE."""
from __future__ import annotations

import ast
from typing import Dict, List, Optional, Set, Tuple

from .. import tables as T
from ..attrs import AttrFlow
from ..cfg import CFG, Node, STMT, TEST, FOR, fmt_path
from ..dep import DefUse
from ..model import stmt_key, AnalysisError, FuncInfo, ClassInfo
from ..report import rule, Collector
from .common import RuleCtx, where_of, line_of, dedupe
from .fresh import _af
from .lints import BINARY_UFUNCS, UNARY_UFUNCS

U = ast.unparse


def norm(e) -> str:
    return "".join(U(e).split())


def solver_methods(ctx: RuleCtx, name: str):
    m = ctx.model
    base = m.solver_base()
    out = []
    for c in m.solver_classes():
        f = m.resolve_method(c, name)
        if f is None or f.cls is base:
            continue
        out.append((c, f))
    return out


@rule("R-SOLVER-SIG", floor=30)
def r_solver_sig(ctx: RuleCtx, col: Collector):
    """Every solver overrides update(self, A) and solve(self, rhs, x0=None, trans='N') with the base class's positional
    order and defaults, so that any solver can stand in for any other (LDAWrapper, CG, multigrid call them
    positionally and by keyword)."""
    m = ctx.model
    base = m.solver_base()
    bs = base.method("solve")
    if bs is None:
        raise AnalysisError("LinearSolver.solve not found")
    ref = bs.pos_params()
    refd = {k: norm(v) for k, v in bs.defaults().items()}
    for c in m.solver_classes():
        if c.module.rel in m.overlay:
            continue
        for name in ("solve", "update"):
            f = m.resolve_method(c, name)
            if f is None or f.cls is base:
                col.bad(c.name, c.module.rel, line_of(c.node), f"{c.name}.{name}",
                        f"{c.name} does not implement {name}() (falls back to the base class, which raises)")
                continue
            if f.cls is not c:
                col.ok(c.name, f.rel, line_of(f.node), f"{c.name}.{name}", f"inherited from {f.cls.name}")
                continue
            ps = f.pos_params()
            if name == "update":
                if len(ps) == 1 and not f.kwonly():
                    col.ok(c.name, f.rel, line_of(f.node), f"{c.name}.update", f"update(self, {ps[0]})")
                else:
                    col.bad(c.name, f.rel, line_of(f.node), f"{c.name}.update",
                            f"update{tuple(ps)} does not take exactly the matrix")
                continue
            d = {k: norm(v) for k, v in f.defaults().items()}
            ok = len(ps) == 3 and ps[1:] == ref[1:] and d.get(ps[1]) == refd.get(ref[1]) and d.get(ps[2]) == refd.get(ref[2]) \
                and ps[0] not in d
            if ok:
                col.ok(c.name, f.rel, line_of(f.node), f"{c.name}.solve", f"solve(self, {ps[0]}, x0=None, trans='N')")
            else:
                col.bad(c.name, f.rel, line_of(f.node), f"{c.name}.solve",
                        f"signature solve({', '.join(ps)}) with defaults {d} deviates from the LinearSolver contract "
                        f"solve(rhs, x0=None, trans='N')")


# -------------------------------------------------------------------------------------- transpose exhaustiveness
def _eval_trans_test(test: ast.AST, pname: str, v: str) -> Optional[bool]:
    """Three-valued evaluation of a test for trans == v."""
    if isinstance(test, ast.UnaryOp) and isinstance(test.op, ast.Not):
        r = _eval_trans_test(test.operand, pname, v)
        return None if r is None else (not r)
    if isinstance(test, ast.BoolOp):
        vals = [_eval_trans_test(x, pname, v) for x in test.values]
        if isinstance(test.op, ast.And):
            if any(x is False for x in vals):
                return False
            return True if all(x is True for x in vals) else None
        if any(x is True for x in vals):
            return True
        return False if all(x is False for x in vals) else None
    if isinstance(test, ast.Compare) and len(test.ops) == 1:
        l, op, r = test.left, test.ops[0], test.comparators[0]
        if isinstance(r, ast.Name) and r.id == pname and isinstance(l, ast.Constant):
            l, r = r, l
        if isinstance(l, ast.Name) and l.id == pname:
            if isinstance(r, ast.Constant) and isinstance(r.value, str):
                if isinstance(op, ast.Eq):
                    return v == r.value
                if isinstance(op, ast.NotEq):
                    return v != r.value
            if isinstance(r, (ast.List, ast.Tuple, ast.Set)) and all(isinstance(x, ast.Constant) for x in r.elts):
                vals = [x.value for x in r.elts]
                if isinstance(op, ast.In):
                    return v in vals
                if isinstance(op, ast.NotIn):
                    return v not in vals
        if isinstance(l, ast.Call) and isinstance(l.func, ast.Attribute) and l.func.attr in ("upper", "lower") and \
                isinstance(l.func.value, ast.Name) and l.func.value.id == pname and isinstance(r, ast.Constant):
            vv = v.upper() if l.func.attr == "upper" else v.lower()
            if isinstance(op, ast.Eq):
                return vv == r.value
            if isinstance(op, ast.NotEq):
                return vv != r.value
    return None


def _reach_under(cfg: CFG, pname: str, v: str) -> Tuple[Set[Node], Set[Node]]:
    """Nodes reachable when `trans == v`; second set: nodes reachable using only *decided* or unconditional edges
    (i.e. whatever the other, unknown, tests say)."""
    seen: Set[Node] = set()
    work = [cfg.entry]
    while work:
        n = work.pop()
        if n in seen:
            continue
        seen.add(n)
        dec = _eval_trans_test(n.ast, pname, v) if n.kind == TEST and n.ast is not None else None
        for s, lab in n.succ:
            if lab == "exc":
                continue
            if dec is True and lab == "F":
                continue
            if dec is False and lab == "T":
                continue
            work.append(s)
    return seen, set()


@rule("R-TRANS-EXH", floor=45)
def r_trans_exh(ctx: RuleCtx, col: Collector):
    """Every solver's solve() handles all three modes 'N', 'T', 'H': for each mode the normal exit is reachable and the
    mode is not routed into a `raise` by the mode tests alone; the mode parameter is actually consulted (compared,
    forwarded to a delegate solve, or the class is tabled as mode-independent)."""
    m = ctx.model
    for c, f in solver_methods(ctx, "solve"):
        ps = f.pos_params()
        if len(ps) < 3:
            continue
        pname = ps[2]
        cfg = ctx.flow.cfg(f)
        uses = [n for n in ast.walk(f.node) if isinstance(n, ast.Name) and n.id == pname and isinstance(n.ctx, ast.Load)]
        if not uses:
            reason = None
            for k in m.mro(c):
                reason = reason or T.TRANS_INDEPENDENT.get(k.name)
            if reason and f.cls.name in T.TRANS_INDEPENDENT:
                for v in "NTH":
                    col.benign(c.name, f.rel, line_of(f.node), f"{f.short} trans='{v}'", "mode-independent: " + reason)
            else:
                col.bad(c.name, f.rel, line_of(f.node), f"{f.short} ignores '{pname}'",
                        f"{f.short} never looks at '{pname}': transposed and adjoint systems are answered with the "
                        f"un-transposed solve")
            continue
        for v in "NTH":
            reach, _ = _reach_under(cfg, pname, v)
            construct = f"{f.short} trans='{v}'"
            if cfg.exit not in reach:
                # find the raise it falls into
                raises = [n for n in reach if n.kind == STMT and isinstance(n.ast, ast.Raise)]
                where = f" (falls into '{stmt_key(raises[0].ast)}' at L{raises[0].lineno})" if raises else ""
                col.bad(c.name, f.rel, line_of(f.node), construct,
                        f"mode '{v}' never reaches a return{where}: the requested system cannot be solved with this solver")
                continue
            # a raise reached with every preceding test decided by the mode alone
            forced = _forced_raise(cfg, pname, v)
            if forced is not None:
                col.bad(c.name, f.rel, line_of(forced.ast), construct,
                        f"mode '{v}' is routed into '{stmt_key(forced.ast)}' by the mode tests alone")
            else:
                col.ok(c.name, f.rel, line_of(f.node), construct, "reaches a return; no mode-forced raise")
    dedupe(col)


def _forced_raise(cfg: CFG, pname: str, v: str) -> Optional[Node]:
    """A raise node reachable from the entry along a path whose every TEST is decided by trans == v."""
    seen: Set[Node] = set()
    work = [cfg.entry]
    while work:
        n = work.pop()
        if n in seen:
            continue
        seen.add(n)
        if n.kind == STMT and isinstance(n.ast, ast.Raise):
            return n
        if n.kind == TEST:
            dec = _eval_trans_test(n.ast, pname, v) if n.ast is not None else None
            if dec is None:
                continue       # an undecided test: anything beyond depends on other inputs
            for s, lab in n.succ:
                if (dec and lab == "T") or ((not dec) and lab == "F"):
                    work.append(s)
            continue
        if n.kind == FOR:
            continue
        for s, lab in n.succ:
            if lab != "exc":
                work.append(s)
    return None


# ---------------------------------------------------------------------------------------------- auto guard
def _conjuncts(test: ast.AST, truth: bool) -> List[Tuple[str, bool]]:
    """Facts implied by `test` being `truth`."""
    if isinstance(test, ast.UnaryOp) and isinstance(test.op, ast.Not):
        return _conjuncts(test.operand, not truth)
    if isinstance(test, ast.BoolOp):
        if (isinstance(test.op, ast.And) and truth) or (isinstance(test.op, ast.Or) and not truth):
            out = []
            for v in test.values:
                out += _conjuncts(v, truth)
            return out
        return [(norm(test), truth)]
    return [(norm(test), truth)]


def guard_facts(cfg: CFG, nd: Node) -> List[Tuple[str, bool]]:
    facts: List[Tuple[str, bool]] = []
    for t in cfg.dominators().get(nd, ()):
        if t.kind != TEST or t.ast is None or t is nd:
            continue
        for lab, truth in (("T", True), ("F", False)):
            succ = [s for s, l in t.succ if l == lab]
            other = [s for s, l in t.succ if l not in (lab, "exc")]
            if succ and nd in cfg.reachable(succ, labels_excluded=("exc",)) and \
                    nd not in cfg.reachable(other, blocked=[t], labels_excluded=("exc",)):
                facts += _conjuncts(t.ast, truth)
    return facts


# class -> alternatives; each alternative is a list of (predicate, polarity, how) that must all be implied by the guards
def _auto_requirements() -> Dict[str, List[List[Tuple[str, bool]]]]:
    return {
        "SolverDiagonal": [[("isdiagonal", True)]],
        "SolverDenseQR": [[("issquare", False)], [("issparse", False)]],
        "SolverDenseLU": [[("issparse", False)]],
        "SolverDenseCholesky": [[("issparse", False), ("ishermitian", True), ("<definite-diagonal>", True)]],
        "SolverDenseLDL": [[("issparse", False), ("ishermitian", True)], [("issparse", False), ("issymmetric", True)]],
        "SolverSparseLU": [[("issparse", True)]],
        "SolverSparsePardiso": [[("issparse", True), ("SolverSparsePardiso.defined", True)]],
        "SolverSparseCholeskyScikit": [[("issparse", True), ("ishermitian", True), ("ispositivedefinite", True),
                                        ("SolverSparseCholeskyScikit.defined", True)]],
        "SolverSparseCholeskyCVXOPT": [[("issparse", True), ("ishermitian", True), ("ispositivedefinite", True),
                                        ("SolverSparseCholeskyCVXOPT.defined", True)]],
    }


def _is_definite_diag_test(txt: str) -> bool:
    return ".diagonal()>0" in txt and ".diagonal()<0" in txt and "np.all" in txt


@rule("R-AUTO-GUARD", floor=8)
def r_auto_guard(ctx: RuleCtx, col: Collector):
    """auto_determine_solver: every path returns a solver constructor, and each returned class is dominated by the
    applicability guards of that class (diagonal solver only for diagonal matrices, Cholesky only for Hermitian
    matrices with a definite diagonal, LDL only for Hermitian or symmetric ones, sparse classes only for sparse input,
    optional back-ends only when available)."""
    m = ctx.model
    f = m.public_function("auto_determine_solver")
    cfg = ctx.flow.cfg(f)
    sb = m.solver_base()
    reqs = _auto_requirements()
    n_ret = 0
    for nd in cfg.simple_nodes():
        if nd.kind != STMT or not isinstance(nd.ast, ast.Return):
            continue
        n_ret += 1
        v = nd.ast.value
        cname = None
        if isinstance(v, ast.Call) and isinstance(v.func, (ast.Name, ast.Attribute)):
            d = m.resolve_name(f.module, v.func.id) if isinstance(v.func, ast.Name) else m.expr_dotted(f.module, v.func)
            k = m.classes.get(d) if d else None
            if k is not None and m.is_subclass(k, sb):
                cname = k.name
        construct = stmt_key(nd.ast)
        if cname is None:
            col.bad(where_of(f), f.rel, line_of(nd.ast), construct,
                    "auto_determine_solver returns something that is not a solver constructor")
            continue
        facts = [(_canon_pred(f, t), pol) for t, pol in guard_facts(cfg, nd)]
        # facts about assigned flags also count when the flag was assigned the test text (ispositivedefinite = <test>)
        fd = {}
        for t, pol in facts:
            fd[t] = pol
        alts = reqs.get(cname)
        if alts is None:
            col.bad(where_of(f), f.rel, line_of(nd.ast), construct,
                    f"{cname} has no applicability entry in the guard table (new solver class returned by "
                    f"auto_determine_solver)")
            continue
        ok_alt = None
        missing_best: List[str] = []
        for alt in alts:
            missing = []
            for pred, pol in alt:
                if pred == "<definite-diagonal>":
                    sat = any(_is_definite_diag_test(t) and p == pol for t, p in facts) or \
                        any(fd.get(name) == pol and _flag_defined_by_definite_diag(f, name) for name in list(fd))
                else:
                    sat = fd.get(pred) == pol
                    if not sat and pred == "ispositivedefinite":
                        sat = any(_is_definite_diag_test(t) and p == pol for t, p in facts)
                if not sat:
                    missing.append(f"{'' if pol else 'not '}{pred}")
            if not missing:
                ok_alt = alt
                break
            if not missing_best or len(missing) < len(missing_best):
                missing_best = missing
        if ok_alt is not None:
            col.ok(where_of(f), f.rel, line_of(nd.ast), construct,
                   "guards: " + ", ".join(f"{'' if p else 'not '}{t}" for t, p in ok_alt))
        else:
            col.bad(where_of(f), f.rel, line_of(nd.ast), construct,
                    f"{cname} is returned on a path that does not establish {missing_best} "
                    f"(established: {[('' if p else 'not ') + t for t, p in facts][:8]})")
    if n_ret == 0:
        raise AnalysisError("auto_determine_solver has no return")
    # every path returns (no fall-through)
    fall = [p for p, lab in cfg.exit.pred if not (p.kind == STMT and isinstance(p.ast, ast.Return))]
    if fall:
        col.bad(where_of(f), f.rel, line_of(f.node), "auto_determine_solver: fall-through path",
                "a path reaches the end of auto_determine_solver without returning a solver")
    else:
        col.ok(where_of(f), f.rel, line_of(f.node), "auto_determine_solver: every path returns a solver", f"{n_ret} returns")


def _canon_pred(f: FuncInfo, text: str) -> str:
    """Canonical name of a guard predicate: a local that is defined (only) by a recognisable classification of the
    matrix is named after that classification, whatever the local is called."""
    if not text.isidentifier() or text in f.pos_params():
        return text
    defs = [n.value for n in ast.walk(f.node) if isinstance(n, ast.Assign) and any(
        isinstance(t, ast.Name) and t.id == text for t in n.targets)]
    tags = set()
    for d in defs:
        t = norm(d)
        if "matrix_is_sparse(" in t or "issparse(" in t:
            tags.add("issparse")
        elif ".shape[0]==" in t and ".shape[1]" in t:
            tags.add("issquare")
        elif "iscomplexobj(" in t or "matrix_is_complex(" in t:
            tags.add("iscomplex")
        elif "matrix_is_diagonal(" in t:
            tags.add("isdiagonal")
        else:
            tags.add(text)
    return tags.pop() if len(tags) == 1 else text


def _flag_defined_by_definite_diag(f: FuncInfo, name: str) -> bool:
    for n in ast.walk(f.node):
        if isinstance(n, ast.Assign) and any(isinstance(t, ast.Name) and t.id == name for t in n.targets):
            if _is_definite_diag_test(norm(n.value)):
                return True
    return False


# ------------------------------------------------------------------------------------------ LDAWrapper databases
def _lda(ctx: RuleCtx):
    m = ctx.model
    lda = m.public_class("LDAWrapper")
    solve = m.resolve_method(lda, "solve")
    update = m.resolve_method(lda, "update")
    if solve is None or update is None or solve.cls is not lda or update.cls is not lda:
        raise AnalysisError("LDAWrapper.solve/update not found")
    return lda, solve, update


def _virtual_calls(fn: ast.FunctionDef, call: ast.Call) -> List[ast.Call]:
    """The call with its plain-name arguments replaced by what they stand for, once per way of reaching it: names bound
    by parallel (tuple) assignments in the two branches of one `if` give one virtual call per branch; a local closure
    `def f(b, x): return <expr>` passed by name becomes the equivalent lambda.  This makes

        if adjoint: mat, xs, bs, mode = self.A.conj().T, self.xadj, self.badj, 'H'
        else:       mat, xs, bs, mode = self.A, self.x, self.b, 'N'
        return self._helper(mat, rhs, xs, bs, solve_fn)

    the same program as two explicit calls."""
    import copy as _c
    names = {a.id for a in list(call.args) + [k.value for k in call.keywords] if isinstance(a, ast.Name)}
    # callbacks written in place (lambda b, x: self.solver.solve(b, trans=mode)): their free locals are resolved as well
    lam_args = [a for a in list(call.args) + [k.value for k in call.keywords] if isinstance(a, ast.Lambda)]
    lam_free = set()
    for lam in lam_args:
        lam_free |= {x.id for x in ast.walk(lam.body) if isinstance(x, ast.Name)} - {a.arg for a in lam.args.args}
    if not names and not lam_free:
        return [call]
    closures: Dict[str, ast.Lambda] = {}
    for st in ast.walk(fn):
        if isinstance(st, ast.FunctionDef) and st is not fn and st.name in names and len(st.body) >= 1 and isinstance(st.body[-1], ast.Return) \
                and st.body[-1].value is not None and all(isinstance(b, (ast.Expr, ast.Return)) for b in st.body):
            closures[st.name] = ast.copy_location(ast.Lambda(args=st.args, body=st.body[-1].value), st)
    # definitions of the remaining names, with the if-branch they sit in
    defs: Dict[str, List[Tuple[ast.AST, ast.AST]]] = {}
    for st in ast.walk(fn):
        if isinstance(st, ast.Assign) and len(st.targets) == 1:
            t, v = st.targets[0], st.value
            pairs = list(zip(t.elts, v.elts)) if isinstance(t, ast.Tuple) and isinstance(v, ast.Tuple) and len(t.elts) == len(v.elts) else [(t, v)]
            for a, b in pairs:
                if isinstance(a, ast.Name):
                    defs.setdefault(a.id, []).append((st, b))
    free = set()
    for lam in closures.values():
        free |= {x.id for x in ast.walk(lam.body) if isinstance(x, ast.Name)} - {a.arg for a in lam.args.args}
    wanted = (names | free | lam_free) - set(closures)
    multi = {nm for nm in wanted if len(defs.get(nm, [])) >= 2}
    cases: List[Dict[str, ast.AST]] = [{}]
    if multi:
        # every multiply-defined name must be defined once in each branch of one and the same `if`
        def branch_of(st):
            p_, ch = getattr(st, "_parent", None), st
            while p_ is not None and p_ is not fn:
                if isinstance(p_, ast.If):
                    return (id(p_), "body" if any(ch is b for b in p_.body) else "orelse")
                p_, ch = getattr(p_, "_parent", None), p_
            return None
        by_branch: Dict[Tuple[int, str], Dict[str, ast.AST]] = {}
        for nm in multi:
            for st, v in defs[nm]:
                b = branch_of(st)
                if b is None:
                    return [call]
                by_branch.setdefault(b, {})[nm] = v
        # names are grouped by the `if` that defines them (each such name once in either branch); independent `if`s combine
        ifs = sorted({k[0] for k in by_branch})
        per_if = []
        for i_ in ifs:
            brs = {k[1]: env for k, env in by_branch.items() if k[0] == i_}
            names_i = set().union(*[set(e_) for e_ in brs.values()])
            if set(brs) != {"body", "orelse"} or any(set(e_) != names_i for e_ in brs.values()):
                return [call]
            per_if.append([brs["body"], brs["orelse"]])
        import itertools as _it
        cases = []
        for combo in _it.product(*per_if):
            env = {}
            for e_ in combo:
                env.update(e_)
            cases.append(env)
        if len(cases) > 8:
            return [call]
    for env in cases:
        for nm in wanted - multi:
            if len(defs.get(nm, [])) == 1 and not isinstance(defs[nm][0][1], ast.Name):
                v = defs[nm][0][1]
                # only pure attribute chains / constants / transposes are substituted
                if all(isinstance(x, (ast.Attribute, ast.Name, ast.Constant, ast.Call, ast.Load)) for x in ast.walk(v)) and \
                        not any(isinstance(x, ast.Call) and not (isinstance(x.func, ast.Attribute) and x.func.attr in ("conj", "conjugate", "transpose")) for x in ast.walk(v)):
                    env[nm] = v

    class Sub(ast.NodeTransformer):
        def __init__(self, env):
            self.env = env

        def visit_Name(self, node):
            if isinstance(node.ctx, ast.Load) and node.id in self.env:
                return ast.copy_location(_c.deepcopy(self.env[node.id]), node)
            return node
    out = []
    for env in cases:
        full = dict(env)
        for nm, lam in closures.items():
            full[nm] = Sub(env).visit(_c.deepcopy(lam))
        if not full:
            return [call]
        vc = _c.deepcopy(call)
        def sub_arg(a):
            if isinstance(a, ast.Name):
                return Sub(full).visit(a)
            if isinstance(a, ast.Lambda):
                shadow = {p_.arg for p_ in a.args.args}
                a.body = Sub({k_: v_ for k_, v_ in full.items() if k_ not in shadow}).visit(a.body)
            return a
        vc.args = [sub_arg(a) for a in vc.args]
        for k in vc.keywords:
            k.value = sub_arg(k.value)
        ast.copy_location(vc, call)
        ast.fix_missing_locations(vc)
        from ..model import _set_parents
        _set_parents(vc)
        vc._parent = getattr(call, "_parent", None)      # type: ignore[attr-defined]
        out.append(vc)
    return out


def _db_calls(ctx: RuleCtx):
    """Calls inside LDAWrapper.solve to the helper that appends to list parameters: returns (helper, [(call, {param:
    attribute bound})])."""
    m = ctx.model
    lda, solve, update = _lda(ctx)
    selfn = m.self_name(solve)
    out = []
    helper = None
    for n0 in ast.walk(solve.node):
        if not isinstance(n0, ast.Call):
            continue
        callees = [g for g in m.resolve_call(solve, n0, concrete=lda) if g.cls is not None and g.name != "solve"]
        for g in callees:
            summ = ctx.flow.summary(g, lda)
            appended = {p for p, d in summ.mutates.items() if ".append()" in d or ".extend()" in d}
            if not appended:
                continue
            helper = g
            params = g.pos_params()
            for n in _virtual_calls(solve.node, n0):
                bound = {}
                for i, a in enumerate(n.args):
                    if i < len(params):
                        bound[params[i]] = a
                for k in n.keywords:
                    if k.arg:
                        bound[k.arg] = k.value
                out.append((n, g, bound, appended))
    if not out:
        raise AnalysisError("LDAWrapper.solve: the database helper (a self-method appending to list parameters) not found")
    return lda, solve, update, out


@rule("R-DB-CLEAR", floor=6)
def r_db_clear(ctx: RuleCtx, col: Collector):
    """Nothing stored for an earlier matrix survives update(): every database attribute (derived: the attributes
    LDAWrapper.solve binds to the list parameters its helper appends to) is cleared or re-created on every path of
    update(), every per-matrix attribute the solve closure reads is reassigned, and the inner solver is updated with
    the new matrix."""
    m = ctx.model
    lda, solve, update, calls = _db_calls(ctx)
    selfn = m.self_name(solve)
    db_attrs: Set[str] = set()
    for n, g, bound, appended in calls:
        for p in appended:
            a = bound.get(p)
            if isinstance(a, ast.Attribute) and isinstance(a.value, ast.Name) and a.value.id == selfn:
                db_attrs.add(a.attr)
    if len(db_attrs) < 2:
        raise AnalysisError(f"LDAWrapper databases not recognised (found {sorted(db_attrs)})")
    un = m.self_name(update)
    cfg = ctx.flow.cfg(update)
    for a in sorted(db_attrs):
        nodes = []
        for nd in cfg.simple_nodes():
            if nd.ast is None:
                continue
            if nd.kind == FOR and isinstance(nd.ast.iter, (ast.Tuple, ast.List)) and isinstance(nd.ast.target, ast.Name) and \
                    f"{un}.{a}" in [norm(e) for e in nd.ast.iter.elts]:
                # for db in (self.x, self.b, ...): db.clear()   -- a loop over a literal tuple always runs its body
                v = nd.ast.target.id
                if any(isinstance(x, ast.Call) and isinstance(x.func, ast.Attribute) and x.func.attr == "clear" and
                       norm(x.func.value) == v for b in nd.ast.body for x in ast.walk(b)) and \
                        not any(isinstance(x, (ast.Break, ast.Continue, ast.Return, ast.If)) for b in nd.ast.body for x in ast.walk(b)):
                    nodes.append(nd)
                continue
            for x in ast.walk(nd.ast):
                if isinstance(x, ast.Call) and isinstance(x.func, ast.Attribute) and x.func.attr == "clear" and \
                        norm(x.func.value) == f"{un}.{a}":
                    nodes.append(nd)
            if nd.kind == STMT and isinstance(nd.ast, ast.Assign) and any(norm(t) == f"{un}.{a}" for t in nd.ast.targets) \
                    and isinstance(nd.ast.value, (ast.List, ast.Call)) and \
                    (isinstance(nd.ast.value, ast.List) and not nd.ast.value.elts or norm(nd.ast.value) in ("list()", "[]")):
                nodes.append(nd)
        if nodes and cfg.must_pass(cfg.entry, cfg.exit, nodes):
            col.ok("LDAWrapper.update", update.rel, line_of(nodes[0].ast), f"database self.{a} cleared", "on every path of update()")
        else:
            path = cfg.find_path(cfg.entry, cfg.exit, blocked=nodes)
            col.bad("LDAWrapper.update", update.rel, line_of(update.node), f"database self.{a} cleared",
                    f"update() can return without clearing self.{a} (path {fmt_path(path)}): solutions stored for the "
                    f"previous matrix would be used to answer right-hand sides of the new one")
    # per-matrix attributes
    af = _af(ctx, lda)
    sreads = set(af.reads(solve))
    uwrites = af.may_write(update)
    must = af.must_write(update)
    for a in sorted((sreads & uwrites) - db_attrs):
        if a in must:
            col.ok("LDAWrapper.update", update.rel, line_of(update.node), f"per-matrix attribute self.{a} reassigned",
                   "on every path of update()")
        else:
            from .fresh import classify_attr
            cls_, detail, _ = classify_attr(ctx, lda, update, a)
            if cls_ == "CONFIG-GUARDED":
                col.ok("LDAWrapper.update", update.rel, line_of(update.node), f"per-matrix attribute self.{a} reassigned",
                       f"unless pinned at construction: {detail}")
            else:
                col.bad("LDAWrapper.update", update.rel, line_of(update.node), f"per-matrix attribute self.{a} reassigned",
                        f"self.{a} is read by solve() but update() assigns it {detail}")
    # inner solver updated
    nodes = []
    for nd in cfg.simple_nodes():
        if nd.ast is None:
            continue
        for x in ast.walk(nd.ast):
            if isinstance(x, ast.Call) and isinstance(x.func, ast.Attribute) and x.func.attr == "update" and \
                    isinstance(x.func.value, ast.Attribute) and norm(x.func.value.value) == un and x.args and \
                    isinstance(x.args[0], ast.Name) and x.args[0].id == update.pos_params()[0]:
                nodes.append(nd)
    if nodes and cfg.must_pass(cfg.entry, cfg.exit, nodes):
        col.ok("LDAWrapper.update", update.rel, line_of(nodes[0].ast), "inner solver updated with the new matrix", "")
    else:
        col.bad("LDAWrapper.update", update.rel, line_of(update.node), "inner solver updated with the new matrix",
                "update() can return without updating the inner solver with the new matrix")


def _matrix_kind(e: ast.AST, selfn: str, aattr: str) -> Optional[str]:
    t = norm(e)
    base = f"{selfn}.{aattr}"
    if t == base:
        return "N"
    if t in (f"{base}.conj().T", f"{base}.T.conj()", f"{base}.H", f"{base}.conjugate().T", f"{base}.T.conjugate()",
             f"{base}.conj().transpose()", f"{base}.transpose().conj()"):
        return "H"
    if t in (f"{base}.T", f"{base}.transpose()"):
        return "T"
    return None


def _lambda_trans(e: ast.AST) -> Optional[str]:
    """The `trans=` constant with which a callback lambda calls the inner solver."""
    for n in ast.walk(e):
        if isinstance(n, ast.Call) and isinstance(n.func, ast.Attribute) and n.func.attr == "solve":
            for k in n.keywords:
                if k.arg == "trans":
                    return k.value.value if isinstance(k.value, ast.Constant) else "?"
            if len(n.args) >= 3 and isinstance(n.args[2], ast.Constant):
                return n.args[2].value
            return "N"
    return None


@rule("R-DB-PAIR", floor=3)
def r_db_pair(ctx: RuleCtx, col: Collector):
    """Each database solve receives a consistent triple: the matrix expression, one pair of database attributes and the
    inner solver's mode - {A, pair 1, 'N'} or {conjugate-transposed A, pair 2, 'H'}; the two pairs are disjoint and
    each pair is only ever passed together."""
    m = ctx.model
    lda, solve, update, calls = _db_calls(ctx)
    selfn = m.self_name(solve)
    # the attribute holding the matrix: assigned from update's parameter
    aattr = None
    for n in ast.walk(update.node):
        if isinstance(n, ast.Assign) and isinstance(n.value, ast.Name) and n.value.id == update.pos_params()[0]:
            for t in n.targets:
                if isinstance(t, ast.Attribute) and norm(t.value) == m.self_name(update):
                    aattr = t.attr
    if aattr is None:
        raise AnalysisError("LDAWrapper.update does not store the matrix")
    triples = []
    for n, g, bound, appended in calls:
        params = g.pos_params()
        mat = bound.get(params[0])
        kind = _matrix_kind(mat, selfn, aattr) if mat is not None else None
        if kind is None and isinstance(mat, ast.Attribute) and isinstance(mat.value, ast.Name) and mat.value.id == selfn:
            # a cached transposed matrix: every assignment of the attribute is None or the conjugate transpose of the stored
            # matrix, and update() drops it together with the matrix it belongs to
            vals = []
            for k_ in m.mro(lda):
                for defs_ in k_.methods.values():
                    for g_ in defs_:
                        sn_ = m.self_name(g_)
                        for a_ in ast.walk(g_.node):
                            if isinstance(a_, ast.Assign) and any(norm(t_) == f"{sn_}.{mat.attr}" for t_ in a_.targets):
                                vals.append((g_, a_.value, sn_))
            kinds_ = {(_matrix_kind(v_, sn_, aattr) if not (isinstance(v_, ast.Constant) and v_.value is None) else "None") for g_, v_, sn_ in vals}
            dropped = any(g_.name == "update" and isinstance(v_, ast.Constant) and v_.value is None for g_, v_, sn_ in vals)
            if vals and kinds_ <= {"H", "None"} and "H" in kinds_ and dropped:
                kind = "H"
        dbs = tuple(sorted((p, norm(bound[p])) for p in appended if p in bound))
        cb = [a for a in list(n.args) + [k.value for k in n.keywords] if isinstance(a, ast.Lambda)]
        tr = _lambda_trans(cb[0]) if cb else None
        triples.append((n, kind, dbs, tr))
        construct = stmt_key(n)[:120]
        if kind is None:
            col.bad("LDAWrapper.solve", solve.rel, line_of(n), construct,
                    f"matrix argument '{U(mat) if mat is not None else '?'}' is neither the stored matrix nor its conjugate transpose")
        elif tr is None:
            col.bad("LDAWrapper.solve", solve.rel, line_of(n), construct, "no inner-solver callback found")
        elif kind != tr:
            col.bad("LDAWrapper.solve", solve.rel, line_of(n), construct,
                    f"the database is built for the matrix in mode '{kind}' ('{U(mat)}') but new solutions are computed by "
                    f"the inner solver in mode '{tr}': stored pairs (x, b) would not satisfy the stored system")
        else:
            col.ok("LDAWrapper.solve", solve.rel, line_of(n), construct, f"matrix mode '{kind}', inner solver mode '{tr}', "
                   f"databases {[d for _, d in dbs]}")
    # disjoint pairs, fixed pairing
    seen: Dict[str, Tuple] = {}
    ok = True
    for n, kind, dbs, tr in triples:
        for p, a in dbs:
            key = (kind, tuple(dbs))
            if a in seen and seen[a] != key:
                ok = False
                col.bad("LDAWrapper.solve", solve.rel, line_of(n), f"database {a} pairing",
                        f"database attribute {a} is used with two different matrix modes / partners")
            seen.setdefault(a, key)
    if ok:
        col.ok("LDAWrapper.solve", solve.rel, line_of(solve.node), "database pairs disjoint and fixed",
               f"{len(seen)} database attributes in {len({v for v in seen.values()})} pair(s)")


# ------------------------------------------------------------------------------------------------ diag dep
def _operand_deps(f: FuncInfo, e: ast.AST, du: DefUse, m, _seen=None) -> Set[str]:
    """Facts a value depends on through *operand* positions only: 'sum-axis-0', 'sum-axis-1', 'diagonal'."""
    _seen = _seen if _seen is not None else set()
    out: Set[str] = set()
    if isinstance(e, ast.Name):
        if e.id in _seen:
            return out
        _seen.add(e.id)
        for d in du.defs.get(e.id, []):
            out |= _operand_deps(f, d, du, m, _seen)
        return out
    if isinstance(e, ast.Call):
        fn = e.func
        dotted = m.expr_dotted(f.module, fn) if isinstance(fn, (ast.Name, ast.Attribute)) else None
        name = dotted[6:] if dotted and dotted.startswith("numpy.") else None
        args = list(e.args)
        if name in BINARY_UFUNCS:
            args = args[:2]
        elif name in UNARY_UFUNCS:
            args = args[:1]
        if isinstance(fn, ast.Attribute):
            if fn.attr == "sum":
                ax = None
                for k in e.keywords:
                    if k.arg == "axis" and isinstance(k.value, ast.Constant):
                        ax = k.value.value
                if ax is None and e.args and isinstance(e.args[0], ast.Constant):
                    ax = e.args[0].value
                if ax is not None:
                    out.add(f"sum-axis-{ax}")
            if fn.attr == "diagonal":
                out.add("diagonal")
            if not (dotted and dotted.startswith("numpy.")):
                out |= _operand_deps(f, fn.value, du, m, _seen)
        for a in args:
            out |= _operand_deps(f, a.value if isinstance(a, ast.Starred) else a, du, m, _seen)
        for k in e.keywords:
            if k.arg not in ("out", "where", "dtype", "axis"):
                out |= _operand_deps(f, k.value, du, m, _seen)
        return out
    for ch in ast.iter_child_nodes(e):
        if isinstance(ch, ast.expr):
            out |= _operand_deps(f, ch, du, m, _seen)
    return out


@rule("R-DIAG-DEP", floor=1)
def r_diag_dep(ctx: RuleCtx, col: Collector):
    """Degrees of freedom that LDAWrapper solves by plain division must be decoupled in their row AND their column:
    the index set computed for that shortcut depends, through operand positions, on the non-zero counts along both
    axes and on the diagonal."""
    m = ctx.model
    lda, solve, update = _lda(ctx)
    # the function whose return value flows into the index attributes assigned in update()
    target = None
    for n in ast.walk(update.node):
        if isinstance(n, ast.Assign) and isinstance(n.value, ast.Call):
            for g in m.resolve_call(update, n.value, concrete=lda):
                if g.cls is None and g.module.name.startswith("pymoto.solvers") and \
                        not g.name.startswith("matrix_is"):
                    target = g
    if target is None:
        raise AnalysisError("LDAWrapper.update: the helper computing the decoupled (diagonal) dofs not found")
    du = DefUse(target.node)
    rets = [n for n in ast.walk(target.node) if isinstance(n, ast.Return) and n.value is not None]
    if not rets:
        raise AnalysisError(f"{target.short} has no return value")
    for r in rets:
        deps = _operand_deps(target, r.value, du, m)
        need = {"sum-axis-0", "sum-axis-1", "diagonal"}
        if need <= deps:
            col.ok(where_of(target), target.rel, line_of(r), stmt_key(r), f"depends on {sorted(deps)}")
        else:
            col.bad(where_of(target), target.rel, line_of(r), stmt_key(r),
                    f"the decoupled-dof mask does not depend on {sorted(need - deps)} as an operand: dofs coupled through "
                    f"{'their column' if 'sum-axis-1' in need - deps else 'their row'} would be solved by plain division")


@rule("R-INNER-GUARD", floor=1, tier="thorough")
def r_inner_guard(ctx: RuleCtx, col: Collector):
    """The inner solver is called only for right-hand sides whose reconstructed residual exceeds the tolerance: the
    call of the solve callback is dominated by a test that depends on the comparison with `self.tol`."""
    m = ctx.model
    lda, solve, update, calls = _db_calls(ctx)
    g = calls[0][1]
    selfn = m.self_name(g)
    cb = [p for p in g.pos_params() if any(isinstance(n, ast.Call) and isinstance(n.func, ast.Name) and n.func.id == p
                                           for n in ast.walk(g.node))]
    if not cb:
        raise AnalysisError(f"{g.short}: callback parameter not found")
    cfg = ctx.flow.cfg(g)
    du = DefUse(g.node)
    for nd in cfg.simple_nodes():
        if nd.ast is None:
            continue
        for x in ast.walk(nd.ast):
            if isinstance(x, ast.Call) and isinstance(x.func, ast.Name) and x.func.id in cb:
                ok = False
                for t in cfg.dominators().get(nd, ()):
                    if t.kind == TEST and t.ast is not None and _depends_on_tol(g, t.ast, selfn):
                        tsucc = [s for s, l in t.succ if l == "T"]
                        fsucc = [s for s, l in t.succ if l == "F"]
                        if nd in cfg.reachable(tsucc, labels_excluded=("exc",)) and \
                                nd not in cfg.reachable(fsucc, blocked=[t], labels_excluded=("exc",)):
                            ok = True
                if ok:
                    col.ok(where_of(g), g.rel, line_of(x), stmt_key(x), "guarded by the residual-vs-tolerance test")
                else:
                    col.bad(where_of(g), g.rel, line_of(x), stmt_key(x),
                            "the inner solver is called without the residual-vs-tolerance test: right-hand sides in the "
                            "span of stored ones are not answered from the database")


def _depends_on_tol(g: FuncInfo, test: ast.AST, selfn: str) -> bool:
    """test mentions self.<attr> whose every assignment in the function compares against self.tol (or mentions it
    directly)."""
    for n in ast.walk(test):
        if isinstance(n, ast.Attribute) and norm(n.value) == selfn:
            if n.attr == "tol":
                return True
            for a in ast.walk(g.node):
                if isinstance(a, ast.Assign) and any(norm(t) == f"{selfn}.{n.attr}" for t in a.targets):
                    if any(isinstance(c, ast.Compare) and f"{selfn}.tol" in norm(c) for c in ast.walk(a.value)):
                        return True
    return False


@rule("R-LDA-DEFAULT", floor=2, tier="thorough")
def r_lda_default(ctx: RuleCtx, col: Collector):
    """LinSolve wraps its solver in LDAWrapper by default: the class flag is True and the wrapping branch is taken on
    that flag."""
    m = ctx.model
    ls = m.public_class("LinSolve")
    lda = m.public_class("LDAWrapper")
    flag = None
    for k in m.mro(ls):
        for a, v in k.class_attrs.items():
            if "lda" in a.lower():
                flag = (a, v)
    if flag is None:
        raise AnalysisError("LinSolve: LDA default flag not found")
    if isinstance(flag[1], ast.Constant) and flag[1].value is True:
        col.ok("LinSolve", ls.module.rel, line_of(flag[1]), f"LinSolve.{flag[0]} default", "True")
    else:
        col.bad("LinSolve", ls.module.rel, line_of(flag[1]), f"LinSolve.{flag[0]} default",
                f"LinSolve.{flag[0]} defaults to {U(flag[1])}: solvers are no longer wrapped in LDAWrapper by default")
    f = m.resolve_method(ls, "_response")
    selfn = m.self_name(f)
    cfg = ctx.flow.cfg(f)
    found = False
    for nd in cfg.simple_nodes():
        if nd.kind == STMT and isinstance(nd.ast, ast.Assign) and isinstance(nd.ast.value, ast.Call):
            d = m.resolve_name(f.module, nd.ast.value.func.id) if isinstance(nd.ast.value.func, ast.Name) else None
            if d == lda.qual:
                found = True
                from .solver import guard_facts as gf
                facts = gf(cfg, nd)
                if (f"{selfn}.{flag[0]}", True) in facts:
                    col.ok(where_of(f), f.rel, line_of(nd.ast), stmt_key(nd.ast), f"taken when self.{flag[0]}")
                else:
                    col.bad(where_of(f), f.rel, line_of(nd.ast), stmt_key(nd.ast),
                            f"wrapping in LDAWrapper is not controlled by self.{flag[0]}")
    if not found:
        col.bad(where_of(f), f.rel, line_of(f.node), "LinSolve._response: LDAWrapper wrap", "no wrapping found")


# ------------------------------------------------------------------------------------------ convergence tests
@rule("R-TOL-SIB", floor=3)
def r_tol_sib(ctx: RuleCtx, col: Collector):
    """Iterative solvers: every convergence decision compares the same measure - the residual norm relative to the norm
    of the right-hand side, reduced with max over the right-hand sides - against the tolerance (a test relative to the
    initial residual, or reduced with min, accepts unconverged columns)."""
    m = ctx.model
    for c, f in solver_methods(ctx, "solve"):
        selfn = m.self_name(f)
        tests = [n for n in ast.walk(f.node) if isinstance(n, ast.Compare) and len(n.ops) == 1 and
                 norm(n.comparators[0]) == f"{selfn}.tol" and isinstance(n.left, (ast.Call, ast.Name, ast.Attribute))]
        if len(tests) < 2:
            continue
        du = DefUse(f.node)
        lefts = {norm(t.left) for t in tests}
        from .common import expand_names, canon_arith
        measures = set()
        for t in tests:
            for x in ast.walk(t.left):
                if isinstance(x, ast.Name):
                    for d in du.defs.get(x.id, []):
                        if isinstance(d, ast.BinOp) and isinstance(d.op, ast.Div):
                            measures.add(canon_arith(expand_names(f.node, d)))
        reductions = {norm(t.left).split(".")[-1] for t in tests}
        construct = f"{f.short}: {len(tests)} convergence tests against {selfn}.tol"
        problems = []
        if len(lefts) > 1 and len(reductions) > 1:
            problems.append(f"different reductions {sorted(lefts)} (all right-hand sides must be converged: max)")
        if len(measures) > 1:
            problems.append(f"different residual measures {sorted(measures)} (the residual must be relative to the right-hand side)")
        if any("min()" in l for l in lefts):
            problems.append("a test uses min() over the right-hand sides")
        if problems:
            col.bad(where_of(f), f.rel, line_of(tests[0]), construct, "; ".join(problems))
        else:
            col.ok(where_of(f), f.rel, line_of(tests[0]), construct, f"measure {sorted(measures)} reduced with {sorted(reductions)}")
        # the measure is normalised by the right-hand side
        rhsname = f.pos_params()[0]
        okn = bool(measures) and all(any(y in mtxt for y in (f"norm({rhsname}", "norm(b")) for mtxt in measures)
        if okn:
            col.ok(where_of(f), f.rel, line_of(tests[0]), f"{f.short}: residual relative to the right-hand side", "")
        else:
            col.bad(where_of(f), f.rel, line_of(tests[0]), f"{f.short}: residual relative to the right-hand side",
                    f"the convergence measure {sorted(measures)} is not the residual norm divided by the norm of the "
                    f"right-hand side: with an initial guess the solver stops while |Ax-b|/|b| is still large")
        # ... per right-hand side: the denominator is the column-wise norm itself, not a reduction of it
        bad_den = None
        for t in tests:
            for x in ast.walk(t.left):
                if isinstance(x, ast.Name):
                    for d in du.defs.get(x.id, []):
                        if isinstance(d, ast.BinOp) and isinstance(d.op, ast.Div):
                            den = expand_names(f.node, d.right)
                            num_axis = "axis=" in norm(expand_names(f.node, d.left))
                            for y in ast.walk(den):
                                if isinstance(y, ast.Call):
                                    fn = y.func.attr if isinstance(y.func, ast.Attribute) else getattr(y.func, "id", "")
                                    if fn in ("max", "min", "sum", "mean", "amax", "amin", "prod", "median") and "norm" in norm(y):
                                        bad_den = (d, f"'{norm(den)}' reduces the norms of all right-hand sides to one number")
                                    if fn == "norm" and num_axis and not any(k.arg == "axis" for k in y.keywords):
                                        bad_den = (d, f"'{norm(den)}' is one norm for the whole block of right-hand sides")
        if bad_den is not None:
            col.bad(where_of(f), f.rel, line_of(tests[0]), f"{f.short}: residual relative to each right-hand side's own norm",
                    f"{bad_den[1]}: a column much smaller than the largest one is declared converged while its own relative "
                    f"residual is still far above the tolerance")
        elif measures:
            col.ok(where_of(f), f.rel, line_of(tests[0]), f"{f.short}: residual relative to each right-hand side's own norm", "")
        col.ok(where_of(f), f.rel, line_of(f.node), f"{f.short}: scanned", "")


# ------------------------------------------------------------------------------ values of the un-transformed matrix
@rule("R-DB-MODE", floor=2)
def r_db_mode(ctx: RuleCtx, col: Collector):
    """The database helper of LDAWrapper runs on the stored matrix and on its conjugate transpose: everything in it that
    depends on matrix *values* must come from its matrix parameter.  An attribute that update() fills from the values
    of the stored matrix (not merely from its sparsity pattern) and that the helper reads is wrong in adjoint mode."""
    from ..dep import Taint, NONE, STRUCT, VALUE
    m = ctx.model
    lda, solve, update, calls = _db_calls(ctx)
    g = calls[0][1]
    af = _af(ctx, lda)
    un = m.self_name(update)
    reads = af.reads(g)
    aparam = update.pos_params()[0]
    for attr in sorted(reads):
        sites = [s for s in af.sites(update) if s.attr == attr and not s.sub]
        if not sites:
            continue
        lvl, how = _pattern_level(m, update, lda, sites[-1].value, aparam)
        construct = f"LDAWrapper.{attr} (assigned in update, read in {g.short})"
        if lvl == "VALUE":
            col.bad("LDAWrapper", update.rel, line_of(sites[-1].stmt), construct,
                    f"self.{attr} caches values of the stored matrix ('{stmt_key(sites[-1].stmt)}') and is read by {g.short}, "
                    f"which is also called with the conjugate-transposed matrix: in 'T'/'H' mode for a general matrix the "
                    f"cached values belong to the wrong matrix (e.g. un-conjugated diagonal)")
        else:
            col.ok("LDAWrapper", update.rel, line_of(sites[-1].stmt), construct, f"depends on the matrix only through {how}")


def _pattern_level(m, f: FuncInfo, cls, e: ast.AST, aparam: str, du=None, seen=None, depth=0) -> Tuple[str, str]:
    """'NONE' | 'PATTERN' (sparsity pattern / structure only) | 'VALUE' of expression e w.r.t. the matrix parameter."""
    du = du or DefUse(f.node)
    seen = seen if seen is not None else set()
    if isinstance(e, ast.Name):
        if e.id == aparam:
            return "VALUE", "its values"
        if e.id in seen:
            return "NONE", ""
        seen.add(e.id)
        best = ("NONE", "")
        for d in du.defs.get(e.id, []):
            r = _pattern_level(m, f, cls, d, aparam, du, seen, depth)
            if r[0] == "VALUE":
                return r
            if r[0] == "PATTERN":
                best = r
        return best
    if isinstance(e, ast.Compare) and any(isinstance(c, ast.Constant) and c.value == 0 for c in e.comparators):
        inner = _pattern_level(m, f, cls, e.left, aparam, du, seen, depth)
        return ("PATTERN", "its sparsity pattern") if inner[0] != "NONE" else inner
    if isinstance(e, ast.Attribute) and e.attr in ("shape", "dtype", "ndim", "size", "nnz"):
        inner = _pattern_level(m, f, cls, e.value, aparam, du, seen, depth)
        return ("PATTERN", "its structure") if inner[0] != "NONE" else inner
    if isinstance(e, ast.Call) and depth < 3:
        callees = m.resolve_call(f, e, concrete=cls)
        if callees and all(h.cls is None for h in callees):
            # repository function: evaluate its return expression with the parameter substituted
            worst = ("NONE", "")
            for h in callees:
                ps = h.pos_params()
                for i, a in enumerate(e.args):
                    if i < len(ps) and _pattern_level(m, f, cls, a, aparam, du, set(seen), depth)[0] != "NONE":
                        hdu = DefUse(h.node)
                        for r in ast.walk(h.node):
                            if isinstance(r, ast.Return) and r.value is not None:
                                lv = _pattern_level(m, h, None, r.value, ps[i], hdu, set(), depth + 1)
                                if lv[0] == "VALUE":
                                    return lv
                                if lv[0] == "PATTERN":
                                    worst = lv
            return worst
    worst = ("NONE", "")
    for ch in ast.iter_child_nodes(e):
        if isinstance(ch, (ast.expr, ast.keyword)):
            r = _pattern_level(m, f, cls, ch.value if isinstance(ch, ast.keyword) else ch, aparam, du, seen, depth)
            if r[0] == "VALUE":
                return r
            if r[0] == "PATTERN":
                worst = r
    return worst


# ------------------------------------------------------------------------------------------------ return shape
def _ndim1_test(test: ast.AST) -> Optional[Tuple[str, bool]]:
    """(array name, polarity): test is true iff <name>.ndim == 1 (polarity True) / != 1 or > 1 (False)."""
    if isinstance(test, ast.UnaryOp) and isinstance(test.op, ast.Not):
        r = _ndim1_test(test.operand)
        return (r[0], not r[1]) if r else None
    if isinstance(test, ast.Compare) and len(test.ops) == 1 and isinstance(test.left, ast.Attribute) and \
            test.left.attr == "ndim" and isinstance(test.left.value, ast.Name) and isinstance(test.comparators[0], ast.Constant):
        c = test.comparators[0].value
        op = test.ops[0]
        if c == 1 and isinstance(op, ast.Eq):
            return test.left.value.id, True
        if (c == 1 and isinstance(op, (ast.NotEq, ast.Gt))) or (c == 2 and isinstance(op, (ast.Eq, ast.GtE))):
            return test.left.value.id, False
    return None


@rule("R-RET-SHAPE", floor=2)
def r_ret_shape(ctx: RuleCtx, col: Collector):
    """solve() returns x in the shape of b: a solver (or helper) that lifts a 1-D right-hand side to a column under an
    `rhs.ndim == 1` test must undo the lift on every return under the same test (flatten / ravel / [:, 0])."""
    m = ctx.model
    funcs = [f for _, f in solver_methods(ctx, "solve")]
    try:
        funcs.append(_db_calls(ctx)[3][0][1])
    except AnalysisError:
        pass
    seen = set()
    for f in funcs:
        if f.qual in seen:
            continue
        seen.add(f.qual)
        cfg = ctx.flow.cfg(f)
        params = set(f.pos_params())
        lifted: Dict[str, str] = {}       # local holding the lifted array -> the parameter it was lifted from
        for nd in cfg.simple_nodes():
            if nd.kind != STMT or not isinstance(nd.ast, ast.Assign) or not isinstance(nd.ast.targets[0], ast.Name):
                continue
            facts = dict(guard_facts(cfg, nd))
            for t, pol in list(facts.items()):
                pass
            # find an enclosing ndim==1 test on a parameter
            p = getattr(nd.ast, "_parent", None)
            while p is not None and p is not f.node:
                if isinstance(p, ast.If):
                    r = _ndim1_test(p.test)
                    if r and r[0] in params:
                        in_body = nd.ast in p.body
                        if (r[1] and in_body) or (not r[1] and not in_body):
                            v = norm(nd.ast.value)
                            if "reshape(" in v or ",1)" in v or "[:,None]" in v:
                                lifted[nd.ast.targets[0].id] = r[0]
                p = getattr(p, "_parent", None)
        if not lifted:
            continue
        # a local shaped like a lifted parameter (zeros_like(rhs) / a copy of a guess) that is lifted under its own
        # `<local>.ndim == 1` test is lifted from that parameter as well
        for n2 in ast.walk(f.node):
            if isinstance(n2, ast.If):
                r = _ndim1_test(n2.test)
                if r and r[0] not in params and r[1]:
                    defs = [x.value for x in ast.walk(f.node) if isinstance(x, ast.Assign) and any(
                        isinstance(t, ast.Name) and t.id == r[0] for t in x.targets)]
                    srcs = {y.id for d in defs for y in ast.walk(d) if isinstance(y, ast.Name)} & set(lifted.values())
                    for st in n2.body:
                        if isinstance(st, ast.Assign) and isinstance(st.targets[0], ast.Name) and srcs and \
                                any(k in norm(st.value) for k in ("reshape(", ",1)", "[:,None]")):
                            lifted[st.targets[0].id] = sorted(srcs)[0]
        # names derived from a lifted array that are returned: the returned names
        for nd in cfg.simple_nodes():
            if nd.kind != STMT or not isinstance(nd.ast, ast.Return) or nd.ast.value is None:
                continue
            v = nd.ast.value
            src = set(lifted.values())
            construct = f"{f.short}: {stmt_key(nd.ast)}"
            ok = False
            if isinstance(v, ast.IfExp):
                r = _ndim1_test(v.test)
                if r and r[0] in src:
                    flat = v.body if r[1] else v.orelse
                    ok = any(k in norm(flat) for k in (".flatten()", ".ravel()", "[:,0]", ".reshape(-1)", "squeeze("))
            else:
                p = getattr(nd.ast, "_parent", None)
                while p is not None and p is not f.node:
                    if isinstance(p, ast.If):
                        r = _ndim1_test(p.test)
                        if r and r[0] in src:
                            in_body = nd.ast in p.body
                            one_d = (r[1] and in_body) or (not r[1] and not in_body)
                            flat = any(k in norm(v) for k in (".flatten()", ".ravel()", "[:,0]", ".reshape(-1)", "squeeze("))
                            ok = flat if one_d else True
                    p = getattr(p, "_parent", None)
                if not ok:
                    # a return following `if rhs.ndim == 1: return x.flatten()` handles the 2-D case
                    prev = getattr(nd.ast, "_parent", None)
                    sibs = prev.body if prev is not None and hasattr(prev, "body") and nd.ast in getattr(prev, "body", []) else []
                    i = sibs.index(nd.ast) if nd.ast in sibs else -1
                    if i > 0 and isinstance(sibs[i - 1], ast.If):
                        r = _ndim1_test(sibs[i - 1].test)
                        if r and r[0] in src and r[1] and any(isinstance(x, ast.Return) for x in sibs[i - 1].body):
                            ok = True
            # returns that do not involve the lifted data at all (delegation) are not judged
            names = {x.id for x in ast.walk(v) if isinstance(x, ast.Name)}
            derived = set(lifted)
            changed = True
            while changed:
                changed = False
                for n2 in ast.walk(f.node):
                    if isinstance(n2, ast.Assign) and isinstance(n2.targets[0], ast.Name) and n2.targets[0].id not in derived and \
                            any(isinstance(x, ast.Name) and x.id in derived for x in ast.walk(n2.value)) and \
                            any(k in norm(n2.value) for k in ("zeros_like", "copy()", "zeros(")):
                        derived.add(n2.targets[0].id)
                        changed = True
            if not (names & derived):
                continue
            if ok:
                col.ok(where_of(f), f.rel, line_of(nd.ast), construct, f"1-D lift of '{sorted(src)[0]}' undone under the same test")
            else:
                col.bad(where_of(f), f.rel, line_of(nd.ast), construct,
                        f"'{sorted(src)[0]}' is lifted to a column when it is 1-D, but this return does not undo the lift under "
                        f"the same test: a 1-D right-hand side gets a 2-D solution (or a block one gets flattened)")
