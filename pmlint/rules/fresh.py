"""Cache typestate rules (C03, C01, C06): R-FRESH, R-LATCH, R-UPDATE-BEFORE-SOLVE."""
from __future__ import annotations

import ast
from typing import Dict, List, Optional, Set, Tuple

from .. import tables as T
from ..attrs import AttrFlow, test_mentions_attr, WriteSite
from ..cfg import TEST, FOR, STMT, Node, fmt_path
from ..dep import Taint, NONE, STRUCT, VALUE, LEVEL_NAME, self_attrs_in, names_in
from ..model import stmt_key, AnalysisError, FuncInfo, ClassInfo
from ..report import rule, Collector
from .common import RuleCtx, where_of, line_of, dedupe, none_entailed, dominating_tests
from .eff import module_methods

U = ast.unparse
BASE_ATTRS = {"sig_in", "sig_out", "_init_loc"}


def _af(ctx: RuleCtx, c: ClassInfo) -> AttrFlow:
    cache = ctx.__dict__.setdefault("_af_cache", {})
    if c.qual not in cache:
        cache[c.qual] = AttrFlow(ctx.flow, c)
    return cache[c.qual]


def _prepare_like(ctx: RuleCtx, c: ClassInfo) -> List[FuncInfo]:
    m = ctx.model
    out = []
    for name in ("__init__", "_prepare"):
        f = m.resolve_method(c, name)
        if f is not None:
            out += _af(ctx, c).closure(f)
    return out


def _is_documented(ctx: RuleCtx, c: ClassInfo, attr: str) -> Optional[str]:
    for k in ctx.model.mro(c):
        if (k.name, attr) in T.DOCUMENTED_MEMORY:
            return T.DOCUMENTED_MEMORY[(k.name, attr)]
    return None


def _config_attrs(ctx: RuleCtx, c: ClassInfo) -> Set[str]:
    """Attributes never assigned by the _response / _sensitivity / _reset closures (and not by other public methods
    reachable after construction is ignored: set_* helpers are user-driven reconfiguration)."""
    af = _af(ctx, c)
    m = ctx.model
    dyn: Set[str] = set()
    for name in ("_response", "_sensitivity", "_reset", "response", "sensitivity", "reset"):
        f = m.resolve_method(c, name)
        if f is not None:
            dyn |= af.may_write(f)
            for s in af.closure_sites(f):
                dyn.add(s.attr)
    allw: Set[str] = set()
    for k in m.mro(c):
        for defs in k.methods.values():
            for f in defs:
                for s in af.sites(f):
                    allw.add(s.attr)
        allw |= set(k.class_attrs)
    return allw - dyn


def classify_attr(ctx: RuleCtx, c: ClassInfo, resp: FuncInfo, attr: str):
    """-> (class, detail, lazy_sites).  class in CONFIG, FRESH, CONFIG-GUARDED, LAZY, STALE, UNWRITTEN."""
    af = _af(ctx, c)
    m = ctx.model
    may = af.may_write(resp)
    if attr not in may:
        # element-wise updates of a config container do not make it a response product
        return "CONFIG", "never assigned by the response closure", []
    if attr in af.must_write(resp):
        return "FRESH", "assigned on every path of the response closure", []
    config = _config_attrs(ctx, c)
    decs = af.deciders(resp, attr)
    if not decs:
        return "STALE", "assigned only on some paths (loop body / exceptional flow), no deciding test", []
    kinds = []
    lazy_sites = []
    for (f, t, lab) in decs:
        selfn = m.self_name(f)
        if t.kind != TEST:
            kinds.append(("STALE", f"assigned only inside the loop at {f.rel}:{t.lineno}"))
            continue
        mentioned = test_mentions_attr(t.ast, selfn)
        W = af.written_from(f)
        branch = [s for s, l in t.succ if l == lab][0]
        co_written = W.get(branch, set())
        latch_on = [b for b in mentioned if b == attr or b in co_written]
        names = {n for n in names_in(t.ast) if n != selfn}
        local_names = {n for n in names if n not in ("hasattr", "isinstance", "len", "np", "None", "True", "False",
                                                      "getattr", "callable", "type")}
        if latch_on:
            kinds.append(("LAZY", f"under '{U(t.ast)}' ({f.short}), a test of self.{latch_on[0]} which the same branch "
                                  f"assigns"))
            lazy_sites.append((f, t, lab))
        elif none_entailed(dominating_tests(ctx.flow.cfg(f), t) + [(t.ast, lab == "T")], f"{selfn}.{attr}") is True:
            # the branch is only entered while the attribute is still unset (implied by the tests passed on the way)
            kinds.append(("LAZY", f"under '{U(t.ast)}' ({f.short}), reached only while self.{attr} is None"))
            lazy_sites.append((f, t, lab))
        elif mentioned and mentioned <= config and not _test_uses_inputs(ctx, f, c, t.ast):
            kinds.append(("CONFIG-GUARDED", f"under '{U(t.ast)}' ({f.short}), which reads only construction-time "
                                            f"attributes {sorted(mentioned)}"))
        else:
            kinds.append(("STALE", f"under '{U(t.ast)}' ({f.short} at {f.rel}:{t.lineno}), which depends on the "
                                   f"inputs or on per-call state"))
    order = ["STALE", "LAZY", "CONFIG-GUARDED"]
    for k in order:
        for kk, d in kinds:
            if kk == k:
                return k, d, lazy_sites
    return "STALE", "unclassified", []


def _test_uses_inputs(ctx: RuleCtx, f: FuncInfo, c: ClassInfo, test: ast.AST) -> bool:
    t = Taint(ctx.model, f, c, attr_taint={})
    return t.level(test) > NONE


@rule("R-FRESH", floor=60, witness_min=1)
def r_fresh(ctx: RuleCtx, col: Collector):
    """Every attribute read by a `_sensitivity` closure is construction-time configuration, assigned on every path of
    the `_response` closure, assigned under a test of configuration only, lazily initialised (then judged by R-LATCH),
    or a tabled self-cache.  An attribute assigned by `_response` only on some input-dependent path may be stale."""
    m = ctx.model
    for c, f in module_methods(ctx, "_sensitivity"):
        resp = m.resolve_method(c, "_response")
        if resp is None or resp.cls is m.module_base():
            continue
        af = _af(ctx, c)
        reads = af.reads(f)
        sens_writes = af.may_write(f) | {s.attr for s in af.closure_sites(f)}
        for attr in sorted(reads):
            if attr in BASE_ATTRS:
                continue
            g, node = reads[attr][0]
            where = f"{c.name}"
            construct = f"{c.name}.{attr} read by {g.short}"
            if attr in sens_writes:
                reason = None
                for k in m.mro(c):
                    reason = reason or T.SELF_CACHE.get((k.name, attr))
                if reason:
                    col.benign(where, g.rel, line_of(node), construct, "SELF-CACHE: " + reason)
                    continue
            cls_, detail, _ = classify_attr(ctx, c, resp, attr)
            doc = _is_documented(ctx, c, attr)
            if cls_ == "STALE" and not doc:
                col.bad(where, g.rel, line_of(node), construct,
                        f"{g.short} reads self.{attr}, which the response closure of {c.name} assigns {detail}; "
                        f"after a response that skips the assignment the sensitivity would use data of an earlier call")
            else:
                col.ok(where, g.rel, line_of(node), construct,
                       (f"{cls_}: {detail}" if not (cls_ == "STALE" and doc) else f"documented memory: {doc}"))
    dedupe(col)


# ----------------------------------------------------------------------------------------------- latches
def _attr_taints(ctx: RuleCtx, c: ClassInfo, resp: FuncInfo) -> Dict[str, int]:
    """Taint of every attribute assigned in the response closure w.r.t. the response's inputs (fixpoint)."""
    af = _af(ctx, c)
    taints: Dict[str, int] = {}
    sites = af.closure_sites(resp)
    for _ in range(4):
        changed = False
        for s in sites:
            tt = _site_taint(ctx, c, resp, s, taints)
            if tt > taints.get(s.attr, NONE):
                taints[s.attr] = tt
                changed = True
        if not changed:
            break
    return taints


def _helper_param_taints(ctx: RuleCtx, c: ClassInfo, entry: FuncInfo, g: FuncInfo, attr_taint) -> Dict[str, int]:
    """Taint of helper `g`'s parameters, joined over its call sites inside the closure of `entry`."""
    af = _af(ctx, c)
    out: Dict[str, int] = {}
    for h in af.closure(entry):
        selfn = ctx.model.self_name(h)
        pt = None if h is entry else _helper_param_taints_cached(ctx, c, entry, h, attr_taint)
        th = Taint(ctx.model, h, c, attr_taint=attr_taint, param_taint=pt)
        for n in ast.walk(h.node):
            if isinstance(n, ast.Call) and g in ctx.model.resolve_call(h, n, concrete=c):
                params = g.pos_params()
                for i, a in enumerate(n.args):
                    if isinstance(a, ast.Starred):
                        continue
                    if i < len(params):
                        out[params[i]] = max(out.get(params[i], NONE), th.level(a))
                for k in n.keywords:
                    if k.arg:
                        out[k.arg] = max(out.get(k.arg, NONE), th.level(k.value))
    return out


def _helper_param_taints_cached(ctx, c, entry, g, attr_taint):
    cache = ctx.__dict__.setdefault("_hpt", {})
    key = (c.qual, entry.qual, g.qual, tuple(sorted(attr_taint.items())))
    if key in cache:
        return cache[key]
    cache[key] = {}
    cache[key] = _helper_param_taints(ctx, c, entry, g, attr_taint)
    return cache[key]


def _site_taint(ctx: RuleCtx, c: ClassInfo, entry: FuncInfo, s: WriteSite, attr_taint: Dict[str, int]) -> int:
    pt = None if s.f is entry else _helper_param_taints_cached(ctx, c, entry, s.f, attr_taint)
    t = Taint(ctx.model, s.f, c, attr_taint=attr_taint, param_taint=pt)
    lvl = t.level(s.value)
    if s.sub and isinstance(s.stmt, ast.Assign):
        for tg in s.stmt.targets:
            if isinstance(tg, ast.Subscript):
                lvl = max(lvl, t.level(tg.slice))
    return lvl


def _lazy_latches(ctx: RuleCtx, c: ClassInfo, entry: FuncInfo, col: Collector, label: str, only: Optional[str] = None):
    af = _af(ctx, c)
    m = ctx.model
    taints = _attr_taints(ctx, c, entry)
    attrs = sorted(af.may_write(entry) - af.must_write(entry))
    for attr in attrs:
        if only is not None and attr != only:
            continue
        cls_, detail, lazy = classify_attr(ctx, c, entry, attr)
        if not lazy:
            continue
        all_sites = [s for s in af.closure_sites(entry) if s.attr == attr and not s.sub]
        for (f, t, lab) in lazy:
            cfg = ctx.flow.cfg(f)
            branch = [s for s, l in t.succ if l == lab]
            region = cfg.reachable(branch, blocked=[t], labels_excluded=("exc",))
            sites = [s for s in all_sites if s.f is f and s.node in region]
            if not sites:
                # the assignment happens in a helper called from the branch
                called = set()
                for nd in region:
                    for g in af._node_calls.get(f.qual, {}).get(nd, []):
                        called |= {h.qual for h in af.closure(g)}
                sites = [s for s in all_sites if s.f.qual in called]
            lvl, worst = NONE, None
            for s in sites:
                tt = _site_taint(ctx, c, entry, s, taints)
                if worst is None or tt > lvl:
                    lvl, worst = tt, s
            if worst is None:
                continue
            construct = f"{c.name}.{attr} latched under '{U(t.ast)}'"
            doc = _is_documented(ctx, c, attr)
            if lvl == VALUE and not doc:
                col.bad(c.name, worst.f.rel, line_of(worst.stmt), construct,
                        f"self.{attr} is assigned only while '{U(t.ast)}' holds ({f.short}), from a value that "
                        f"depends on the *values* of this call's inputs ('{stmt_key(worst.stmt)}'), and is never "
                        f"revisited: a later {label} with different data keeps the decision made for the first one")
            else:
                col.ok(c.name, worst.f.rel, line_of(worst.stmt), construct,
                       f"lazy initialisation depends on the inputs at level {LEVEL_NAME[lvl]}"
                       + (f"; documented memory: {doc}" if doc and lvl == VALUE else ""))


@rule("R-LATCH", floor=8, witness_min=1)
def r_latch(ctx: RuleCtx, col: Collector):
    """Every lazily initialised attribute of a `_response` closure (written under a test of itself) is classified by
    what its value depends on: nothing, the *structure* of the inputs (shape/dtype/sparsity) or their *values*.
    Value latches are violations unless the attribute is a documented memory."""
    m = ctx.model
    for c, f in module_methods(ctx, "_response"):
        if not any(isinstance(n, ast.Return) and n.value is not None
                   for g in _af(ctx, c).closure(f) if g is f for n in ast.walk(g.node)):
            col.count("skipped: _response produces no output state (figure / file writer)")
            continue
        _lazy_latches(ctx, c, f, col, "response()")
    dedupe(col)


@rule("R-LATCH-LDA", floor=1)
def r_latch_lda(ctx: RuleCtx, col: Collector):
    """Same classification for LDAWrapper.update: nothing decided from the first matrix's values may survive a
    later update()."""
    m = ctx.model
    lda = m.public_class("LDAWrapper")
    f = m.resolve_method(lda, "update")
    if f is None or f.cls is not lda:
        raise AnalysisError("LDAWrapper.update not found")
    before = len(col.obs)
    _lazy_latches(ctx, lda, f, col, "update()")
    if len(col.obs) == before:
        col.ok("LDAWrapper", f.rel, line_of(f.node), "LDAWrapper.update: no lazily latched attribute",
               "every attribute assigned by update() is assigned on every path or under construction-time flags")
    # every per-matrix attribute must be reassigned on every path
    af = _af(ctx, lda)
    must = af.must_write(f)
    may = af.may_write(f)
    for attr in sorted(may - must):
        cls_, detail, _ = classify_attr(ctx, lda, f, attr)
        if cls_ in ("STALE",):
            col.bad("LDAWrapper", f.rel, line_of(f.node), f"LDAWrapper.{attr} assigned on some paths of update()",
                    f"self.{attr} is assigned {detail}")
        else:
            col.ok("LDAWrapper", f.rel, line_of(f.node), f"LDAWrapper.{attr} assigned on some paths of update()",
                   f"{cls_}: {detail}")


# ------------------------------------------------------------------------------------- update before solve
def _solver_typed_attrs(ctx: RuleCtx, c: ClassInfo) -> Set[str]:
    m = ctx.model
    sb = m.solver_base()
    out = set()
    for a, tys in ctx.flow.attr_types(c).items():
        for t in tys:
            k = m.classes.get(t)
            if k is not None and m.is_subclass(k, sb):
                out.add(a)
    return out


def _recv_attr(e: ast.AST, selfn: str) -> Optional[str]:
    base = e
    while isinstance(base, ast.Subscript):
        base = base.value
    if isinstance(base, ast.Attribute) and isinstance(base.value, ast.Name) and base.value.id == selfn:
        return base.attr
    return None


def _monotone_flags(ctx: RuleCtx, c: ClassInfo) -> Dict[str, str]:
    """Boolean attributes that, outside construction, are only ever assigned the constant True."""
    af = _af(ctx, c)
    m = ctx.model
    prep = {g.qual for g in _prepare_like(ctx, c)}
    vals: Dict[str, List[Tuple[FuncInfo, ast.AST]]] = {}
    for k in m.mro(c):
        for defs in k.methods.values():
            for f in defs:
                if f.qual in prep:
                    continue
                for s in af.sites(f):
                    if not s.sub:
                        vals.setdefault(s.attr, []).append((f, s.value))
    out = {}
    for a, lst in vals.items():
        if all(isinstance(v, ast.Constant) and v.value is True for _, v in lst):
            out[a] = f"only ever assigned True outside construction ({len(lst)} site(s))"
    return out


@rule("R-UPDATE-BEFORE-SOLVE", floor=4, witness_min=1)
def r_update_before_solve(ctx: RuleCtx, col: Collector):
    """A module never solves with a factorisation of an earlier matrix: wherever a method uses a held solver
    (`S.solve(...)`, or `S.solve` as a callback), `S.update(<matrix of this call>)` precedes it on every path of
    the same method, or - for uses in the sensitivity closure - on every path of the response closure.  Guards
    on monotone flags (only ever set True after construction, and set whenever S is created or by every response)
    are treated as always true."""
    m = ctx.model
    for c in m.module_classes():
        sattrs = _solver_typed_attrs(ctx, c)
        if not sattrs:
            continue
        af = _af(ctx, c)
        resp = m.resolve_method(c, "_response")
        sens = m.resolve_method(c, "_sensitivity")
        if resp is None:
            continue
        flags = _monotone_flags(ctx, c)
        resp_closure = af.closure(resp)
        sens_closure = af.closure(sens) if sens is not None and sens.cls is not m.module_base() else []
        resp_must = af.must_write(resp)

        def flag_ok(f: FuncInfo, flag: str, sattr: str) -> bool:
            if flag not in flags:
                return False
            if flag in resp_must:
                return True
            # set on every path from the creation of S to the function exit
            cfg = ctx.flow.cfg(f)
            creates = [s.node for s in af.sites(f) if s.attr == sattr and not s.sub and isinstance(s.value, ast.Call)]
            sets = [s.node for s in af.sites(f) if s.attr == flag]
            return bool(creates) and all(cfg.must_pass(cn, cfg.exit, sets) for cn in creates)

        def updates_in(f: FuncInfo, sattr: str):
            selfn = m.self_name(f)
            cfg = ctx.flow.cfg(f)
            out = []
            for nd in cfg.simple_nodes():
                if nd.ast is None:
                    continue
                for x in ast.walk(nd.ast if nd.kind != FOR else nd.ast.iter):
                    if isinstance(x, ast.Call) and isinstance(x.func, ast.Attribute) and x.func.attr == "update" \
                            and _recv_attr(x.func.value, selfn) == sattr and x.args:
                        t = Taint(m, f, c)
                        if t.level(x.args[0]) == NONE:
                            continue   # not a matrix of this call
                        out.append((nd, x))
            return out

        def always_true_tests(f: FuncInfo, sattr: str) -> Set[Node]:
            selfn = m.self_name(f)
            cfg = ctx.flow.cfg(f)
            out = set()
            for nd in cfg.simple_nodes():
                if nd.kind != TEST or nd.ast is None:
                    continue
                cands = [nd.ast] + (list(nd.ast.values) if isinstance(nd.ast, ast.BoolOp) and isinstance(nd.ast.op, ast.Or) else [])
                for e in cands:
                    if isinstance(e, ast.Attribute) and isinstance(e.value, ast.Name) and e.value.id == selfn \
                            and flag_ok(f, e.attr, sattr):
                        out.add(nd)
            return out

        def uses_in(f: FuncInfo, sattr: str):
            selfn = m.self_name(f)
            cfg = ctx.flow.cfg(f)
            out = []
            for nd in cfg.simple_nodes():
                if nd.ast is None:
                    continue
                root = nd.ast if nd.kind != FOR else nd.ast.iter
                for x in ast.walk(root):
                    if isinstance(x, ast.Attribute) and x.attr == "solve" and _recv_attr(x.value, selfn) == sattr:
                        out.append((nd, x))
            return out

        for sattr in sorted(sattrs):
            # response closure
            resp_updates_everywhere = False
            for f in resp_closure:
                cfg = ctx.flow.cfg(f)
                ups = updates_in(f, sattr)
                att = always_true_tests(f, sattr)
                # paths that bypass the update through the false edge of an always-true test are infeasible
                blocked = {nd for nd, _ in ups}
                for nd, x in uses_in(f, sattr):
                    ok = _must_pass_with_true_tests(cfg, cfg.entry, nd, blocked, att)
                    construct = f"{stmt_key(x)} in {f.short}"
                    if ok:
                        col.ok(where_of(f), f.rel, line_of(x), construct,
                               f"dominated by self.{sattr}.update(<matrix of this call>)"
                               + (f"; guards on monotone flags treated as true: {sorted(U(t.ast) for t in att)}" if att else ""))
                    else:
                        path = _path_with_true_tests(cfg, cfg.entry, nd, blocked, att)
                        col.bad(where_of(f), f.rel, line_of(x), construct,
                                f"self.{sattr}.solve can be reached without self.{sattr}.update(<this call's matrix>) "
                                f"on the path {fmt_path(path)}: the factorisation of an earlier matrix would be used")
                if ups and f is resp or (ups and _must_pass_with_true_tests(cfg, cfg.entry, cfg.exit, blocked, att)):
                    if _must_pass_with_true_tests(cfg, cfg.entry, cfg.exit, blocked, att):
                        resp_updates_everywhere = resp_updates_everywhere or (f is resp) or _called_on_all_paths(ctx, c, resp, f)
            # flags must never be reset
            for f in resp_closure + sens_closure:
                for s in af.sites(f):
                    if isinstance(s.value, ast.Constant) and s.value.value is False and not s.sub:
                        # a flag that guards an update anywhere in the class
                        if _flag_guards_update(ctx, c, s.attr, sattr):
                            col.bad(where_of(f), f.rel, line_of(s.stmt), stmt_key(s.stmt),
                                    f"self.{s.attr} guards self.{sattr}.update(...) and is reset to False here: the "
                                    f"next call would solve with a stale factorisation")
            # sensitivity closure
            for f in sens_closure:
                if f in resp_closure:
                    continue
                cfg = ctx.flow.cfg(f)
                ups = updates_in(f, sattr)
                att = always_true_tests(f, sattr)
                blocked = {nd for nd, _ in ups}
                for nd, x in uses_in(f, sattr):
                    construct = f"{stmt_key(x)} in {f.short}"
                    if ups:
                        ok = _must_pass_with_true_tests(cfg, cfg.entry, nd, blocked, att)
                        if ok:
                            col.ok(where_of(f), f.rel, line_of(x), construct,
                                   f"dominated by self.{sattr}.update(...) in the same method; monotone flags: "
                                   f"{sorted(U(t.ast) for t in att)}")
                        else:
                            path = _path_with_true_tests(cfg, cfg.entry, nd, blocked, att)
                            col.bad(where_of(f), f.rel, line_of(x), construct,
                                    f"adjoint solve reachable without refreshing self.{sattr} on {fmt_path(path)}")
                    elif resp_updates_everywhere:
                        col.ok(where_of(f), f.rel, line_of(x), construct,
                               f"self.{sattr} is updated on every path of the response closure")
                    else:
                        col.bad(where_of(f), f.rel, line_of(x), construct,
                                f"adjoint solve with self.{sattr}, but the response closure does not update it with the "
                                f"current matrix on every path")
    # inner modules: <inner>.response() must be preceded by assignment of its matrix input on every path
    for c in m.module_classes():
        for a, tys in ctx.flow.attr_types(c).items():
            if not any(m.classes.get(t) is not None and m.is_subclass(m.classes[t], m.module_base()) for t in tys):
                continue
            resp = m.resolve_method(c, "_response")
            if resp is None:
                continue
            selfn = m.self_name(resp)
            cfg = ctx.flow.cfg(resp)
            calls, stores = [], {}
            for nd in cfg.simple_nodes():
                if nd.ast is None:
                    continue
                for x in ast.walk(nd.ast):
                    if isinstance(x, ast.Call) and isinstance(x.func, ast.Attribute) and x.func.attr == "response" \
                            and _recv_attr(x.func.value, selfn) == a:
                        calls.append((nd, x))
                if nd.kind == STMT and isinstance(nd.ast, ast.Assign):
                    for t in nd.ast.targets:
                        if isinstance(t, ast.Attribute) and t.attr == "state" and isinstance(t.value, ast.Subscript) \
                                and isinstance(t.value.value, ast.Attribute) and t.value.value.attr == "sig_in" \
                                and _recv_attr(t.value.value.value, selfn) == a:
                            k = U(t.value.slice)
                            tt = Taint(m, resp, c)
                            if tt.level(nd.ast.value) > NONE:
                                stores.setdefault(k, []).append(nd)
            for nd, x in calls:
                if not stores:
                    col.bad(where_of(resp), resp.rel, line_of(x), stmt_key(x),
                            f"inner module self.{a} is evaluated without assigning its inputs from this call's data")
                    continue
                bad = [k for k, nds in stores.items() if not cfg.must_pass(cfg.entry, nd, nds)]
                if bad:
                    col.bad(where_of(resp), resp.rel, line_of(x), stmt_key(x),
                            f"inner module self.{a}.response() reachable without assigning its input(s) {bad} from "
                            f"this call's data")
                else:
                    col.ok(where_of(resp), resp.rel, line_of(x), stmt_key(x),
                           f"inputs {sorted(stores)} of the inner module assigned from this call's data on every path")
    dedupe(col)


def _flag_guards_update(ctx: RuleCtx, c: ClassInfo, flag: str, sattr: str) -> bool:
    m = ctx.model
    for k in m.mro(c):
        for defs in k.methods.values():
            for f in defs:
                selfn = m.self_name(f)
                if not selfn:
                    continue
                for n in ast.walk(f.node):
                    if isinstance(n, ast.If) and flag in self_attrs_in(n.test, selfn):
                        for x in ast.walk(n):
                            if isinstance(x, ast.Call) and isinstance(x.func, ast.Attribute) and x.func.attr == "update" \
                                    and _recv_attr(x.func.value, selfn) == sattr:
                                return True
    return False


def _called_on_all_paths(ctx: RuleCtx, c: ClassInfo, resp: FuncInfo, helper: FuncInfo) -> bool:
    if helper is resp:
        return True
    m = ctx.model
    cfg = ctx.flow.cfg(resp)
    nodes = []
    for nd in cfg.simple_nodes():
        if nd.ast is None:
            continue
        for x in ast.walk(nd.ast):
            if isinstance(x, ast.Call) and helper in m.resolve_call(resp, x, concrete=c):
                nodes.append(nd)
    return bool(nodes) and cfg.must_pass(cfg.entry, cfg.exit, nodes)


def _reach(cfg, start, blocked, true_tests):
    seen = set()
    work = [start]
    while work:
        n = work.pop()
        if n in seen or n in blocked:
            continue
        seen.add(n)
        for s, lab in n.succ:
            if lab == "exc":
                continue
            if n in true_tests and lab == "F":
                continue
            work.append(s)
    return seen


def _must_pass_with_true_tests(cfg, a, b, blocked, true_tests) -> bool:
    if a in blocked or b in blocked:
        return True
    return b not in _reach(cfg, a, blocked, true_tests)


def _path_with_true_tests(cfg, a, b, blocked, true_tests):
    from collections import deque
    q = deque([a])
    prev = {a: None}
    while q:
        n = q.popleft()
        if n is b:
            p = []
            while n is not None:
                p.append(n)
                n = prev[n]
            return p[::-1]
        for s, lab in n.succ:
            if lab == "exc" or (n in true_tests and lab == "F") or s in blocked or s in prev:
                continue
            prev[s] = n
            q.append(s)
    return None
