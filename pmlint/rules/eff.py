"""Effect rules: who may mutate seeds, states, solver arguments and DyadCarrier operands.
R-EFF-SEED, R-EFF-STATE, R-EFF-RESP, R-EFF-SELF, R-STATE-WRITERS (C04/C03/C01/C19/C07), R-EFF-SOLVE (C05/C06),
R-DYAD-PURE, R-DYAD-OWN (C15)."""
from __future__ import annotations

import ast
from typing import Dict, List, Set

from .. import tables as T
from ..flow import (Alias, o_sens, o_state, o_sig, o_attr, o_param, root_of, fmt_origin, matches, SELF, Val)
from ..model import stmt_key, AnalysisError
from ..report import rule, Collector
from .common import RuleCtx, hits, hits_exact, where_of, line_of, describe_sink, dedupe, chain

SEED_PATS = [o_sens("out", "*")]
STATE_PATS = [o_state("in", "*"), o_state("out", "*")]
INSTATE_PATS = [o_state("in", "*")]
ANY_SENS = [o_sens("in", "*"), o_sens("out", "*")]


def module_methods(ctx: RuleCtx, name: str):
    """(concrete class, resolved method) for every concrete ModuleClass that overrides `name`."""
    m = ctx.model
    base = m.module_base()
    out = []
    for c in m.module_classes():
        f = m.resolve_method(c, name)
        if f is None or f.cls is base:
            continue
        out.append((c, f))
    return out


@rule("R-EFF-SEED", floor=20, witness_min=2)
def r_eff_seed(ctx: RuleCtx, col: Collector):
    """In every `_sensitivity` (and the helpers it calls, through callee summaries) no mutation sink reaches memory
    that may alias an output sensitivity (seed).  Storing the literal 0 through a subscript is an idempotent linear
    projection and is recorded as a benign mask."""
    for c, f in module_methods(ctx, "_sensitivity"):
        an = ctx.alias(f, c)
        nsinks = 0
        bad = False
        for s in an.sinks:
            h = hits(s.origins, SEED_PATS)
            if not h:
                continue
            nsinks += 1
            what = describe_sink(s)
            if s.zero_store and s.kind == "subscript-store":
                col.benign(where_of(f), f.rel, line_of(s.stmt), stmt_key(s.stmt),
                           f"zero mask on seed ({fmt_origin(h[0])}): idempotent linear projection, allowed")
            else:
                bad = True
                col.bad(where_of(f), f.rel, line_of(s.stmt), stmt_key(s.stmt),
                        f"{what} writes memory that may alias the seed {fmt_origin(h[0])}; seeds are read-only "
                        f"(a second sensitivity() call and finite_difference would see a changed seed)")
        if not bad:
            col.ok(where_of(f), f.rel, line_of(f.node), f"{f.short}: no sink reaches a seed",
                   f"{an.n_sink_sites} mutation sites examined, {nsinks} on seed memory (all zero masks)")
        for t in an.unknown_index_sites:
            col.assume(t)
    dedupe(col)


def state_alias_attrs(ctx: RuleCtx, c) -> Set[str]:
    """Attributes of class `c` whose object may be (part of) an input or output state."""
    out: Set[str] = set()
    facts = ctx.flow.attr_facts(c)
    for a, v in facts.items():
        if hits(v.orig, STATE_PATS):
            out.add(a)
    f = ctx.model.resolve_method(c, "_response")
    if f is not None and f.cls is not ctx.model.module_base():
        an = ctx.alias(f, c)
        for rv in an.returns:
            for o in rv.orig:
                for x in chain(o):
                    if x[0] == "attr":
                        out.add(x[1])
    return out


@rule("R-EFF-STATE", floor=20, witness_min=1)
def r_eff_state(ctx: RuleCtx, col: Collector):
    """In `_sensitivity` / `_reset` no mutation sink reaches an input or output state, directly, through
    `self.sig_*[i].state`, or through an attribute that `_response` assigned from its parameters or returned."""
    for name in ("_sensitivity", "_reset"):
        for c, f in module_methods(ctx, name):
            an = ctx.alias(f, c)
            sa = state_alias_attrs(ctx, c)
            pats = STATE_PATS + [o_attr(a) for a in sa]
            bad = False
            for s in an.sinks:
                h = hits(s.origins, pats)
                if not h:
                    continue
                if _is_solver_solve(ctx, s):
                    continue
                bad = True
                col.bad(where_of(f), f.rel, line_of(s.stmt), stmt_key(s.stmt),
                        f"{describe_sink(s)} writes memory that may alias a signal state ({fmt_origin(h[0])}); "
                        f"{name} must leave every state untouched")
            for s in an.sinks:
                if s.kind == "attr-store" and s.attr_name == "state" and \
                        any(matches(x, o_sig("in", "*")) or matches(x, o_sig("out", "*")) for o in s.origins
                            for x in chain(o)):
                    bad = True
                    col.bad(where_of(f), f.rel, line_of(s.stmt), stmt_key(s.stmt),
                            f"assignment to the state of a module signal inside {name}")
            if not bad:
                col.ok(where_of(f), f.rel, line_of(f.node), f"{f.short}: no sink reaches a state",
                       f"state-aliasing attributes: {sorted(sa)}")
    dedupe(col)


def _is_solver_solve(ctx: RuleCtx, s) -> bool:
    g = s.callee
    if g is None or g.cls is None:
        return False
    return s.kind == "call-mutates-receiver" and g.name == "solve" and \
        ctx.model.is_subclass(g.cls, ctx.model.solver_base())


@rule("R-EFF-RESP", floor=25, witness_min=2)
def r_eff_resp(ctx: RuleCtx, col: Collector):
    """In every `_response` no mutation sink reaches an input state (parameter), no store goes to `.state` of a
    signal that may be one of the module's inputs (including through inner modules built from them), and no
    sensitivity is written."""
    for c, f in module_methods(ctx, "_response"):
        an = ctx.alias(f, c)
        bad = False
        for s in an.sinks:
            if s.kind == "attr-store":
                roots = [x for o in s.origins for x in chain(o)]
                if s.attr_name == "state" and any(matches(x, o_sig("in", "*")) for x in roots):
                    bad = True
                    col.bad(where_of(f), f.rel, line_of(s.stmt), stmt_key(s.stmt),
                            f"store to '.state' of a signal that may be an input signal of this module "
                            f"({fmt_origin(s.origins and sorted(s.origins, key=str)[0])}); _response must not change "
                            f"the state of its inputs (inner modules need private signals)")
                    continue
                if s.attr_name == "sensitivity" and any(x[0] == "sig" for x in roots):
                    bad = True
                    col.bad(where_of(f), f.rel, line_of(s.stmt), stmt_key(s.stmt),
                            "store to '.sensitivity' of a module signal inside _response")
                    continue
            h = hits(s.origins, INSTATE_PATS)
            if h and not _is_solver_solve(ctx, s):
                bad = True
                col.bad(where_of(f), f.rel, line_of(s.stmt), stmt_key(s.stmt),
                        f"{describe_sink(s)} writes memory that may alias an input state ({fmt_origin(h[0])}); "
                        f"_response must leave its inputs untouched")
                continue
            h = hits(s.origins, ANY_SENS)
            if h:
                bad = True
                col.bad(where_of(f), f.rel, line_of(s.stmt), stmt_key(s.stmt),
                        f"{describe_sink(s)} writes a sensitivity inside _response")
        # calls that change sensitivities
        for n in ast.walk(f.node):
            if isinstance(n, ast.Call) and isinstance(n.func, ast.Attribute) and n.func.attr in ("add_sensitivity",):
                bad = True
                col.bad(where_of(f), f.rel, line_of(n), stmt_key(n), "add_sensitivity() called inside _response")
        if not bad:
            col.ok(where_of(f), f.rel, line_of(f.node), f"{f.short}: inputs and sensitivities untouched",
                   f"{an.n_sink_sites} mutation sites examined")
        for t in an.unknown_index_sites:
            col.assume(t)
    dedupe(col)


def _keyed_memos(ctx: RuleCtx, c) -> Dict[str, str]:
    """Attributes that hold a *keyed memo*: a self-only method g computes `key` from attributes of self, returns the stored
    value when `self.K == key`, and otherwise stores the new value together with `self.K = key`.  The stored value is a
    function of the configuration g reads (g has no other inputs and reads nothing the response / sensitivity closures
    assign), and a changed configuration changes the key: assigning it from `_sensitivity` leaves the module as a second
    call would find it anyway."""
    m = ctx.model
    out: Dict[str, str] = {}
    closure_written: Set[str] = set()
    for k in m.mro(c):
        for name, defs in k.methods.items():
            if name in ("__init__", "_prepare"):
                continue
            for f in defs:
                sn = m.self_name(f)
                for n in ast.walk(f.node):
                    if isinstance(n, ast.Attribute) and isinstance(n.ctx, ast.Store) and isinstance(n.value, ast.Name) and n.value.id == sn:
                        closure_written.add(n.attr)
    for k in m.mro(c):
        for name, defs in k.methods.items():
            for g in defs:
                if len(g.pos_params()) != 0 or g.node.args.vararg or g.node.args.kwarg or g.node.args.kwonlyargs:
                    continue
                sn = m.self_name(g)
                if not sn:
                    continue
                # if self.K == key (possibly and-ed with other tests): return self.A
                for t in [x for x in ast.walk(g.node) if isinstance(x, ast.If)]:
                    cmp_ = [y for y in ast.walk(t.test) if isinstance(y, ast.Compare) and len(y.ops) == 1 and isinstance(y.ops[0], ast.Eq)]
                    rets = [y for y in t.body if isinstance(y, ast.Return) and isinstance(y.value, ast.Attribute)
                            and isinstance(y.value.value, ast.Name) and y.value.value.id == sn]
                    if not cmp_ or not rets:
                        continue
                    for cp in cmp_:
                        sides = [cp.left, cp.comparators[0]]
                        ka = [x for x in sides if isinstance(x, ast.Attribute) and isinstance(x.value, ast.Name) and x.value.id == sn]
                        kl = [x for x in sides if isinstance(x, ast.Name)]
                        if len(ka) != 1 or len(kl) != 1:
                            continue
                        K, key, A = ka[0].attr, kl[0].id, rets[0].value.attr
                        stores = {n.targets[0].attr: n.value for n in ast.walk(g.node) if isinstance(n, ast.Assign) and len(n.targets) == 1
                                  and isinstance(n.targets[0], ast.Attribute) and isinstance(n.targets[0].value, ast.Name)
                                  and n.targets[0].value.id == sn}
                        if set(stores) != {K, A} or not (isinstance(stores[K], ast.Name) and stores[K].id == key):
                            continue
                        reads = {n.attr for n in ast.walk(g.node) if isinstance(n, ast.Attribute) and isinstance(n.ctx, ast.Load)
                                 and isinstance(n.value, ast.Name) and n.value.id == sn}
                        own_methods = {nm for kk in m.mro(c) for nm in kk.methods}
                        if (reads - {K, A} - own_methods) & (closure_written - {K, A}):
                            continue        # reads something the closures produce: not a function of the configuration
                        why = f"keyed memo of {g.short}: returned while self.{K} == {key}, rebuilt and re-keyed otherwise; {g.short} " \
                              f"has no inputs besides configuration attributes"
                        out[A] = why
                        out[K] = why
    return out


@rule("R-EFF-SELF", floor=20, witness_min=1)
def r_eff_self(ctx: RuleCtx, col: Collector):
    """A `_sensitivity` closure writes no attribute of `self` and mutates no object held in one (so a second call
    sees what the first saw), except tabled self-caches.  Calling solve() on a held solver is not a sink here."""
    m = ctx.model
    for c, f in module_methods(ctx, "_sensitivity"):
        an = ctx.alias(f, c)
        bad = False
        cache_names = {a for (k, a) in T.SELF_CACHE if any(x.name == k for x in m.mro(c))}
        memos = _keyed_memos(ctx, c)
        for st in an.attr_stores:
            if st.attr in memos:
                col.benign(where_of(f), f.rel, line_of(st.stmt), f"self.{st.attr} (keyed memo)", memos[st.attr])
                continue
            if st.attr in cache_names:
                col.benign(where_of(f), f.rel, line_of(st.stmt), f"self.{st.attr} (self-cache)",
                           "tabled self-cache: " + [v for (k, a), v in T.SELF_CACHE.items() if a == st.attr][0])
                continue
            bad = True
            col.bad(where_of(f), f.rel, line_of(st.stmt), stmt_key(st.stmt),
                    f"_sensitivity (or a helper it calls) assigns self.{st.attr}; a second sensitivity() call "
                    f"between resets would not see the same module")
        for s in an.sinks:
            attrs = [x for o in s.origins for x in chain(o) if x[0] == "attr"]
            if not attrs:
                continue
            if _is_solver_solve(ctx, s):
                continue
            names = {x[1] for x in attrs}
            if names <= cache_names:
                continue
            bad = True
            col.bad(where_of(f), f.rel, line_of(s.stmt), stmt_key(s.stmt),
                    f"{describe_sink(s)} mutates an object held in self.{sorted(names - cache_names)[0]} "
                    f"inside _sensitivity")
        if not bad:
            col.ok(where_of(f), f.rel, line_of(f.node), f"{f.short}: carries no state between calls",
                   f"{len(an.attr_stores)} attribute stores, {an.n_sink_sites} mutation sites examined")
    dedupe(col)


# --------------------------------------------------------------------------------------------- `.state` writers
def _functions(model):
    seen = set()
    for f in model.functions.values():
        if f.qual in seen:
            continue
        seen.add(f.qual)
        yield f
    for c in model.classes.values():
        for defs in c.methods.values():
            for f in defs:
                if id(f) not in seen and f.qual in seen and model.functions.get(f.qual) is not f:
                    seen.add(id(f))
                    yield f


@rule("R-STATE-WRITERS", floor=8, witness_min=1)
def r_state_writers(ctx: RuleCtx, col: Collector):
    """Package-wide who-may-write table for `.state` attribute stores: the Signal classes themselves, the framework
    dispatch (`response` of Module/AutoMod on their outputs), the optimisation / finite-difference drivers on the
    signals passed to them, and module internals on *private* signals only."""
    m = ctx.model
    sig = m.public_class("Signal")
    mod = m.module_base()
    drivers = {m.public_function("finite_difference").qual, m.public_function("minimize_oc").qual}
    mma = m.public_class("MMA")
    for f in _functions(m):
        stores = []
        for n in ast.walk(f.node):
            tg = []
            if isinstance(n, ast.Assign):
                tg = n.targets
            elif isinstance(n, (ast.AugAssign, ast.AnnAssign)):
                tg = [n.target]
            for t in tg:
                for x in ([t] if not isinstance(t, (ast.Tuple, ast.List)) else t.elts):
                    if isinstance(x, ast.Attribute) and x.attr == "state":
                        stores.append((n, x))
        if not stores:
            continue
        for st, tgt in stores:
            where = where_of(f)
            if f.cls is not None and m.is_subclass(f.cls, sig):
                col.ok(where, f.rel, line_of(st), stmt_key(st), "Signal class managing its own state")
                continue
            if f.qual in drivers or (f.cls is not None and m.is_subclass(f.cls, mma)):
                col.ok(where, f.rel, line_of(st), stmt_key(st), "driver writing the signals handed to it")
                continue
            if f.cls is not None and m.is_subclass(f.cls, mod):
                an = ctx.alias(f, f.cls)
                env_sinks = [s for s in an.sinks if s.kind == "attr-store" and s.stmt is st]
                roots = [x for s in env_sinks for o in s.origins for x in chain(o)]
                if f.name == "response":
                    if any(matches(x, o_sig("in", "*")) for x in roots) and not any(matches(x, o_sig("out", "*")) for x in roots):
                        col.bad(where, f.rel, line_of(st), stmt_key(st),
                                "response() dispatch assigns the state of an input signal")
                    else:
                        col.ok(where, f.rel, line_of(st), stmt_key(st), "framework dispatch writing output states")
                    continue
                if any(matches(x, o_sig("in", "*")) or matches(x, o_sig("out", "*")) for x in roots):
                    col.bad(where, f.rel, line_of(st), stmt_key(st),
                            f"{f.short} assigns '.state' of one of the module's own signals; only response() "
                            f"dispatch may do that")
                elif roots:
                    col.ok(where, f.rel, line_of(st), stmt_key(st), "store on a private (inner) signal")
                else:
                    col.bad(where, f.rel, line_of(st), stmt_key(st),
                            f"{f.short} assigns '.state' of an object whose provenance could not be shown to be a "
                            f"private signal")
                continue
            col.bad(where, f.rel, line_of(st), stmt_key(st),
                    "'.state' of a signal assigned outside the Signal classes, the Module dispatch and the drivers")


# ------------------------------------------------------------------------------------------------ solvers
@rule("R-EFF-SOLVE", floor=30, witness_min=2)
def r_eff_solve(ctx: RuleCtx, col: Collector):
    """No solver's solve() mutates `rhs`/`x0` or returns memory aliasing them (callers update results in place);
    no update() mutates the matrix handed to it.  Interprocedural through helpers (callee summaries)."""
    m = ctx.model
    base = m.solver_base()
    for c in m.solver_classes():
        for name in ("solve", "update"):
            f = m.resolve_method(c, name)
            if f is None or f.cls is base:
                continue
            an = ctx.alias(f, c, role_env=False)
            params = f.pos_params()
            prot = [p for p in params if p != "trans"]
            pats = [o_param(p) for p in prot]
            bad = False
            for s in an.sinks:
                h = hits(s.origins, pats)
                if not h:
                    continue
                if s.kind == "call-mutates-receiver":
                    continue
                bad = True
                col.bad(where_of(f), f.rel, line_of(s.stmt), stmt_key(s.stmt),
                        f"{describe_sink(s)} writes memory that may alias {fmt_origin(h[0])} of {f.short}; a solver "
                        f"must not modify the caller's {'right-hand side / initial guess' if name == 'solve' else 'matrix'}")
            if name == "solve":
                for rv, (rst, _) in zip(an.returns, [r for r in an.return_elems if r[1]]):
                    h = hits(rv.orig, pats)
                    if h:
                        bad = True
                        col.bad(where_of(f), f.rel, line_of(rst), stmt_key(rst),
                                f"solve() may return memory aliasing {fmt_origin(h[0])}; callers (CG, multigrid) "
                                f"update the result in place and would overwrite the caller's data")
            if not bad:
                col.ok(where_of(f), f.rel, line_of(f.node), f"{f.short}: arguments untouched, result fresh",
                       f"{an.n_sink_sites} mutation sites examined; protected: {prot}")
    # module-level helpers taking arrays used by solvers (orth)
    dedupe(col)


# --------------------------------------------------------------------------------------------- DyadCarrier
INPLACE_DYAD = {"__init__", "add_dyad", "__iadd__", "__isub__", "__setitem__"}


@rule("R-DYAD-PURE", floor=30)
def r_dyad_pure(ctx: RuleCtx, col: Collector):
    """Every DyadCarrier method other than the in-place ones stores no attribute of self, mutates no stored vector
    and no argument; in-place methods mutate only self; only in-place methods return self."""
    m = ctx.model
    dc = m.public_class("DyadCarrier")
    for name, defs in sorted(dc.methods.items()):
        for f in defs:
            if m.self_name(f) is None:
                continue
            an = ctx.alias(f, dc, role_env=False)
            params = f.pos_params() + ([f.vararg()] if f.vararg() else [])
            ppats = [o_param(p) for p in params]
            bad = False
            inplace = name in INPLACE_DYAD
            for s in an.sinks:
                hp = hits(s.origins, ppats)
                if hp:
                    bad = True
                    col.bad(where_of(f), f.rel, line_of(s.stmt), stmt_key(s.stmt),
                            f"{describe_sink(s)} mutates operand {fmt_origin(hp[0])} of DyadCarrier.{name}")
                    continue
                ha = [x for o in s.origins for x in chain(o) if x[0] == "attr"]
                if ha and not inplace:
                    bad = True
                    col.bad(where_of(f), f.rel, line_of(s.stmt), stmt_key(s.stmt),
                            f"{describe_sink(s)} mutates self.{ha[0][1]} in the non-in-place method DyadCarrier.{name}")
            if not inplace:
                for st in an.attr_stores:
                    bad = True
                    col.bad(where_of(f), f.rel, line_of(st.stmt), stmt_key(st.stmt),
                            f"non-in-place method DyadCarrier.{name} assigns self.{st.attr}")
                for rv, (rst, _) in zip(an.returns, [r for r in an.return_elems if r[1]]):
                    if any(o == SELF for o in rv.orig):
                        bad = True
                        col.bad(where_of(f), f.rel, line_of(rst), stmt_key(rst),
                                f"non-in-place method DyadCarrier.{name} returns self (the result would alias the operand)")
            if not bad:
                col.ok(where_of(f), f.rel, line_of(f.node), f"DyadCarrier.{name}",
                       "in-place method: mutates only self" if inplace else "pure: no attribute store, no operand mutation")
    dedupe(col)


@rule("R-DYAD-OWN", floor=2)
def r_dyad_own(ctx: RuleCtx, col: Collector):
    """Every vector appended to / stored in the carrier's vector lists is fresh memory (copy or arithmetic result):
    the carrier never aliases a caller's array."""
    m = ctx.model
    dc = m.public_class("DyadCarrier")
    n = 0
    for name, defs in sorted(dc.methods.items()):
        for f in defs:
            if m.self_name(f) is None:
                continue
            an = ctx.alias(f, dc, role_env=False)
            params = f.pos_params() + ([f.vararg()] if f.vararg() else [])
            ppats = [o_param(p) for p in params]
            for s in an.sinks:
                if s.kind in (".append()", ".extend()", ".insert()") and \
                        any(x[0] == "attr" for o in s.origins for x in chain(o)):
                    n += 1
                    h = hits(s.arg_origins, ppats)
                    own = [o for o in s.arg_origins if any(x[0] == "attr" for x in chain(o))]
                    if h:
                        col.bad(where_of(f), f.rel, line_of(s.stmt), stmt_key(s.stmt),
                                f"vector stored in the carrier may alias {fmt_origin(h[0])}: the carrier must own "
                                f"its data (AssembleGeneral zeroes rows of carriers in place)")
                    elif own:
                        col.bad(where_of(f), f.rel, line_of(s.stmt), stmt_key(s.stmt),
                                f"vector stored in the carrier may alias {fmt_origin(own[0])}, a vector the carrier already "
                                f"holds: in-place row / column zeroing (__setitem__) and in-place scaling write u and v "
                                f"separately, so a shared array is changed twice")
                    else:
                        col.ok(where_of(f), f.rel, line_of(s.stmt), stmt_key(s.stmt), "stored vector is fresh memory")
            # one and the same local object appended to two different stored lists
            stored_in: dict = {}
            for x in ast.walk(f.node):
                if isinstance(x, ast.Call) and isinstance(x.func, ast.Attribute) and x.func.attr in ("append", "insert") and \
                        isinstance(x.func.value, ast.Attribute) and isinstance(x.func.value.value, ast.Name) and \
                        x.func.value.value.id == m.self_name(f) and x.args:
                    for y in ast.walk(x.args[-1]):
                        if isinstance(y, ast.Name) and not (isinstance(getattr(y, "_parent", None), ast.Call) and False):
                            # only bare uses of the name (not name.copy(), fac*name)
                            par = getattr(y, "_parent", None)
                            bare = par is x or isinstance(par, ast.IfExp) and (par.body is y or par.orelse is y)
                            if bare:
                                stored_in.setdefault(y.id, {})[x.func.value.attr] = x
            for nm, lists in stored_in.items():
                if len(lists) >= 2 and nm not in params:
                    x = list(lists.values())[-1]
                    n += 1
                    col.bad(where_of(f), f.rel, line_of(x), f"'{nm}' stored in {sorted(lists)}",
                            f"the same array object '{nm}' is appended to self.{sorted(lists)[0]} and self.{sorted(lists)[1]}: "
                            f"in-place row / column zeroing (__setitem__) writes u and v separately, so the shared array is "
                            f"changed twice")
            for st in an.attr_stores:
                if st.attr in ("u", "v") and name != "__init__":
                    h = hits(st.value.orig, ppats)
                    n += 1
                    if h:
                        col.bad(where_of(f), f.rel, line_of(st.stmt), stmt_key(st.stmt),
                                f"self.{st.attr} assigned memory that may alias {fmt_origin(h[0])}")
                    else:
                        col.ok(where_of(f), f.rel, line_of(st.stmt), stmt_key(st.stmt), "assigned list is fresh")
    dedupe(col)


# ------------------------------------------------------------------------------------------------ linearity
@rule("R-LINEAR", floor=20, witness_min=1)
def r_linear(ctx: RuleCtx, col: Collector):
    """Degree analysis of every `_sensitivity` result in the seeds (lattice zero / linear / constant / proved
    non-linear / unknown, interprocedural through self-method helpers): a result that is proved affine (a seed-
    independent term added to or stored into a seed-linear buffer), constant, or non-linear is reported; everything
    the analysis cannot type is 'unknown' and silent."""
    from ..linear import Linearity, Val, L as LIN, N as NON, C as CON, Z as ZER, U as UNK_
    m = ctx.model
    for c, f in module_methods(ctx, "_sensitivity"):
        seeds = {p: Val(LIN) for p in f.pos_params()}
        if f.vararg():
            seeds[f.vararg()] = Val(LIN)
        lin = Linearity(m, ctx.flow.cfg, f, c, seeds)
        bad = False
        kinds = []
        for ret, vals in lin.returns:
            for i, v in enumerate(vals):
                kinds.append(v.k)
                if v.k == NON:
                    bad = True
                    node, why = v.why if v.why else (ret, "non-linear")
                    col.bad(where_of(f), f.rel, line_of(node), f"{c.name}: result {i} of {f.short}",
                            f"the sensitivity returned for input {i} is not a linear function of the output seeds: {why} "
                            f"(seeding a*w1+b*w2 no longer gives a*g1+b*g2)")
                elif v.k == CON:
                    bad = True
                    col.bad(where_of(f), f.rel, line_of(ret), f"{c.name}: result {i} of {f.short}",
                            f"the sensitivity returned for input {i} ('{stmt_key(ret)}') does not depend on the seeds at "
                            f"all: a zero seed must give a zero contribution")
        if not bad:
            col.ok(where_of(f), f.rel, line_of(f.node), f"{c.name}: {f.short} is linear in the seeds",
                   f"result classes {kinds}")
    dedupe(col)


# ------------------------------------------------------------------------------------- shared / global state
@rule("R-SHARED-STATE", floor=2, witness_min=2)
def r_shared_state(ctx: RuleCtx, col: Collector):
    """Results must not depend on other instances or earlier constructions: (a) the object returned by a memoised
    function (functools.lru_cache / cache) is shared by all callers and must never be mutated; (b) a class-level
    mutable container (dict / list / set defined in the class body) must not be written by methods - it is shared by
    every instance (e.g. a cache keyed too coarsely returns another instance's data)."""
    m = ctx.model
    # (a) memoised results: one obligation per function that calls a memoised function, plus every package function scanned
    n_fun = 0
    for f in _functions(m):
        n_fun += 1
        if not any(isinstance(n, ast.Call) for n in ast.walk(f.node)):
            continue
        uses_shared = False
        for n in ast.walk(f.node):
            if isinstance(n, ast.Call):
                for g in m.resolve_call(f, n, concrete=f.cls):
                    from ..flow import is_memoised
                    if is_memoised(g):
                        uses_shared = True
        if not uses_shared:
            continue
        an = ctx.alias(f, f.cls, role_env=False)
        bad = False
        for s in an.sinks:
            sh = [x for o in s.origins for x in chain(o) if x[0] == "shared"]
            if sh:
                bad = True
                col.bad(where_of(f), f.rel, line_of(s.stmt), stmt_key(s.stmt),
                        f"{describe_sink(s)} modifies {fmt_origin(sh[0])}: the same object is handed to every later caller "
                        f"with equal arguments, so later constructions silently start from the modified value")
        if not bad:
            col.ok(where_of(f), f.rel, line_of(f.node), f"{f.short}: memoised results not mutated", "")
    # (b) class-level mutable containers
    for c in sorted(m.classes.values(), key=lambda k: k.qual):
        for a, v in c.class_attrs.items():
            mutable = isinstance(v, (ast.Dict, ast.List, ast.Set)) or (
                isinstance(v, ast.Call) and isinstance(v.func, ast.Name) and v.func.id in ("dict", "list", "set", "defaultdict", "OrderedDict"))
            if not mutable:
                continue
            writers = []
            for k in [c] + [s for s in m.subclasses(c, strict=True, witness=True)]:
                for defs in k.methods.values():
                    for f in defs:
                        selfn = m.self_name(f)
                        recv = {f"{c.name}.{a}", f"{k.name}.{a}", f"cls.{a}", f"type(self).{a}"} | ({f"{selfn}.{a}"} if selfn else set())
                        rebinds = any(isinstance(n, ast.Assign) and any(ast.unparse(t) == f"{selfn}.{a}" for t in n.targets)
                                      for n in ast.walk(f.node)) if selfn else False
                        for n in ast.walk(f.node):
                            hit = None
                            if isinstance(n, (ast.Assign, ast.AugAssign)):
                                tg = n.targets if isinstance(n, ast.Assign) else [n.target]
                                for t in tg:
                                    if isinstance(t, ast.Subscript) and ast.unparse(t.value) in recv:
                                        hit = n
                            if isinstance(n, ast.Call) and isinstance(n.func, ast.Attribute) and n.func.attr in T.CONTAINER_MUTATORS \
                                    and ast.unparse(n.func.value) in recv:
                                hit = n
                            if hit is not None and not rebinds:
                                writers.append((f, hit))
            construct = f"class attribute {c.name}.{a} (mutable container)"
            if writers:
                f, n = writers[0]
                col.bad(c.name, f.rel, line_of(n), construct,
                        f"{f.short} writes the class-level container {c.name}.{a} ('{stmt_key(n)}'): it is shared by all "
                        f"instances, so what one instance stores is seen by every other (history- and instance-dependent results)")
            else:
                col.ok(c.name, c.module.rel, line_of(v), construct, "never written by a method (read-only table)")
    # (c) module-level mutable containers written by functions of that module
    for mod in m.modules.values():
        for a, v in mod.assigns.items():
            mutable = isinstance(v, (ast.Dict, ast.List, ast.Set)) or (
                isinstance(v, ast.Call) and isinstance(v.func, ast.Name) and v.func.id in ("dict", "list", "set", "defaultdict"))
            if not mutable or a == "__all__":
                continue
            writers = []
            for f in _functions(m):
                if f.module is not mod:
                    continue
                local = any(isinstance(n, ast.Assign) and any(isinstance(t, ast.Name) and t.id == a for t in n.targets)
                            for n in ast.walk(f.node)) or a in f.pos_params()
                if local:
                    continue
                for n in ast.walk(f.node):
                    if isinstance(n, (ast.Assign, ast.AugAssign)):
                        tg = n.targets if isinstance(n, ast.Assign) else [n.target]
                        if any(isinstance(t, ast.Subscript) and isinstance(t.value, ast.Name) and t.value.id == a for t in tg):
                            writers.append((f, n))
                    if isinstance(n, ast.Call) and isinstance(n.func, ast.Attribute) and n.func.attr in T.CONTAINER_MUTATORS \
                            and isinstance(n.func.value, ast.Name) and n.func.value.id == a:
                        writers.append((f, n))
            construct = f"module-level container {mod.name.split('.')[-1]}.{a}"
            if writers:
                f, n = writers[0]
                col.bad(where_of(f), f.rel, line_of(n), construct,
                        f"{f.short} writes the module-level container '{a}' ('{stmt_key(n)}'): process-wide state makes "
                        f"results depend on what was constructed or evaluated before")
            else:
                col.ok(mod.name, mod.rel, line_of(v), construct, "never written by a function")
    col.ok("package", "pymoto", 0, "functions scanned for memoised callees", f"{n_fun} functions")


@rule("R-DOMAIN-PURE", floor=10)
def r_domain_pure(ctx: RuleCtx, col: Collector):
    """The domain definition is construction-time configuration shared by many modules: no method other than __init__
    assigns or mutates its attributes (a writer that scales the element size in place changes every later assembly and
    file)."""
    m = ctx.model
    dd = m.public_class("DomainDefinition")
    for name, defs in sorted(dd.methods.items()):
        for f in defs:
            if name == "__init__" or m.self_name(f) is None:
                continue
            an = ctx.alias(f, dd, role_env=False)
            bad = False
            for st in an.attr_stores:
                bad = True
                col.bad(where_of(f), f.rel, line_of(st.stmt), stmt_key(st.stmt),
                        f"DomainDefinition.{name} assigns self.{st.attr}: the domain must stay as constructed")
            for s in an.sinks:
                at = [x for o in s.origins for x in chain(o) if x[0] == "attr"]
                if at:
                    bad = True
                    col.bad(where_of(f), f.rel, line_of(s.stmt), stmt_key(s.stmt),
                            f"{describe_sink(s)} mutates the domain's own self.{at[0][1]} inside DomainDefinition.{name}")
            # ... and no public method hands out one of its arrays itself (callers shift / scale what they get in place)
            if not name.startswith("_"):
                for nd, env in an.state_in.items():
                    a_ = nd.ast
                    if isinstance(a_, ast.Return) and a_.value is not None:
                        v = an.eval(a_.value, dict(env))
                        held = [x for o in v.orig for x in chain(o) if x[0] == "attr"]
                        if held and not isinstance(a_.value, ast.Constant):
                            bad = True
                            col.bad(where_of(f), f.rel, line_of(a_), stmt_key(a_),
                                    f"DomainDefinition.{name} returns (a view of) the domain's own self.{held[0][1]}: a caller that "
                                    f"modifies the result in place (dof offsets, scaling) changes the domain for every later user")
            if not bad:
                col.ok(where_of(f), f.rel, line_of(f.node), f"DomainDefinition.{name}: read-only on the domain", f"{an.n_sink_sites} mutation sites examined")
    dedupe(col)
