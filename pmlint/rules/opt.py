"""Optimiser rules (C10, C17): R-BOUNDS, R-WRITEBACK, R-MMA-MEM, R-STEP-DEP, R-BISECT."""
from __future__ import annotations

import ast
from typing import Dict, List, Optional, Set, Tuple

from ..cfg import CFG, Node, STMT, TEST, FOR, fmt_path
from ..dep import DefUse
from ..flow import o_param
from ..model import stmt_key, AnalysisError, FuncInfo
from ..report import rule, Collector
from .common import RuleCtx, where_of, line_of, hits, dedupe

U = ast.unparse


def norm(e) -> str:
    return "".join(U(e).split())


def _single_def(du: DefUse, name: str) -> Optional[ast.AST]:
    d = du.defs.get(name, [])
    return d[0] if len(d) == 1 else None


def bound_terms(e: ast.AST, du: DefUse, kind: str, depth: int = 0) -> List[ast.AST]:
    """Terms t such that the value of e is elementwise >= t (kind='max') / <= t (kind='min') by construction."""
    fn = "maximum" if kind == "max" else "minimum"
    if depth > 6:
        return [e]
    if isinstance(e, ast.Name):
        d = _single_def(du, e.id)
        if d is not None and e.id not in du.params:
            inner = bound_terms(d, du, kind, depth + 1)
            return [e] + [t for t in inner if norm(t) != norm(d)] + ([d] if not _is_combiner(d, fn) else [])
        return [e]
    if isinstance(e, ast.Call):
        f = norm(e.func)
        if f.endswith(f"{fn}.reduce") and e.args and isinstance(e.args[0], (ast.List, ast.Tuple)):
            out = []
            for x in e.args[0].elts:
                out += bound_terms(x, du, kind, depth + 1)
            return out
        if f.endswith("." + fn) or f == fn:
            out = []
            for x in e.args[:2]:
                out += bound_terms(x, du, kind, depth + 1)
            return out
        if (f == "max" and kind == "max") or (f == "min" and kind == "min"):
            out = []
            for x in e.args:
                out += bound_terms(x, du, kind, depth + 1)
            return out
        if f.endswith(".clip") and len(e.args) >= 3:
            # clip(v, lo, hi) >= lo and <= hi
            return bound_terms(e.args[1] if kind == "max" else e.args[2], du, kind, depth + 1)
    return [e]


def _is_combiner(e: ast.AST, fn: str) -> bool:
    return isinstance(e, ast.Call) and (norm(e.func).endswith(fn) or norm(e.func).endswith(fn + ".reduce"))


def _mentions(e: ast.AST, text: str) -> bool:
    return text in norm(e)


def _is_offset(e: ast.AST, base: str, sign: str, must_mention: List[str], du: DefUse) -> bool:
    """e (after expanding single-definition names) is `base <sign> <something mentioning all of must_mention>`."""
    cand = [e]
    if isinstance(e, ast.Name):
        d = _single_def(du, e.id)
        if d is not None:
            cand.append(d)
    for c in cand:
        if isinstance(c, ast.BinOp) and ((sign == "-" and isinstance(c.op, ast.Sub)) or (sign == "+" and isinstance(c.op, ast.Add))):
            l, r = norm(c.left), c.right
            if l == base and all(m in _expand_text(r, du) for m in must_mention):
                return True
            if sign == "+" and norm(c.right) == base and all(m in _expand_text(c.left, du) for m in must_mention):
                return True
    return False


def _expand_text(e: ast.AST, du: DefUse, depth=0) -> str:
    t = norm(e)
    if depth < 3:
        for n in ast.walk(e):
            if isinstance(n, ast.Name):
                d = _single_def(du, n.id)
                if d is not None and n.id not in du.params:
                    t += "|" + _expand_text(d, du, depth + 1)
    return t


def _subproblem_call(ctx: RuleCtx, f: FuncInfo):
    """In the MMA update method: the call whose first result is returned as the new design."""
    m = ctx.model
    rets = [n for n in ast.walk(f.node) if isinstance(n, ast.Return) and n.value is not None]
    for r in rets:
        first = r.value.elts[0] if isinstance(r.value, ast.Tuple) else r.value
        if not isinstance(first, ast.Name):
            continue
        for n in ast.walk(f.node):
            if isinstance(n, ast.Assign) and isinstance(n.value, ast.Call) and isinstance(n.targets[0], ast.Tuple) and \
                    n.targets[0].elts and isinstance(n.targets[0].elts[0], ast.Name) and n.targets[0].elts[0].id == first.id:
                g = m.resolve_call(f, n.value, concrete=f.cls)
                if g:
                    return n, n.value, g[0], first.id, r
    return None


def _bound_params(g: FuncInfo) -> Optional[Tuple[str, str]]:
    """(lower, upper) bound parameters of the subproblem solver: the pair its start point is centred / clipped between."""
    ps = set(g.pos_params())
    for n in ast.walk(g.node):
        if isinstance(n, ast.BinOp) and isinstance(n.op, ast.Mult):
            for a, b in ((n.left, n.right), (n.right, n.left)):
                if isinstance(a, ast.Constant) and a.value == 0.5 and isinstance(b, ast.BinOp) and isinstance(b.op, ast.Add) \
                        and isinstance(b.left, ast.Name) and isinstance(b.right, ast.Name) and {b.left.id, b.right.id} <= ps:
                    # orientation from clip(x0, lo+eps, hi-eps) or from (x - lo), (hi - x)
                    lo, hi = b.left.id, b.right.id
                    for c in ast.walk(g.node):
                        if isinstance(c, ast.Call) and norm(c.func).endswith("clip") and len(c.args) >= 3:
                            t1, t2 = norm(c.args[1]), norm(c.args[2])
                            if hi in t1 and lo in t2:
                                lo, hi = hi, lo
                    return lo, hi
    return None


@rule("R-BOUNDS", floor=6)
def r_bounds(ctx: RuleCtx, col: Collector):
    """The design handed to / produced by the optimisers stays inside bounds and move limits by construction:
    MMA: the lower/upper bound arrays bound to the subproblem solver's bound parameters are element-wise max/min of
    {the user's bound, current design -/+ move*range, asymptote +/- fraction}, and the design returned is the
    subproblem solver's first result unmodified.  OC: the new design is np.clip(., lo, hi) with lo >= {xmin, x-move},
    hi <= {xmax, x+move}, and the current design is updated to it."""
    m = ctx.model
    mma = m.public_class("MMA")
    resp = m.resolve_method(mma, "response")
    # the update method: the self-method whose result MMA.response assigns back to the design vector
    upd = None
    for n in ast.walk(resp.node):
        if isinstance(n, ast.Assign) and isinstance(n.value, ast.Call) and isinstance(n.targets[0], ast.Tuple):
            for g in m.resolve_call(resp, n.value, concrete=mma):
                if g.cls is not None and g.name not in ("response",):
                    upd = g
    if upd is None:
        raise AnalysisError("MMA.response: design update method not found")
    sp = _subproblem_call(ctx, upd)
    if sp is None:
        raise AnalysisError(f"{upd.short}: subproblem solver call not found")
    assign, call, g, first, ret = sp
    bp = _bound_params(g)
    if bp is None:
        raise AnalysisError(f"{g.short}: bound parameters not recognised")
    lo_p, hi_p = bp
    params = g.pos_params()
    du = DefUse(upd.node)
    selfn = m.self_name(upd)
    xparam = upd.pos_params()[0]
    # user's bound attributes: assigned in __init__ from the parameters named like the bound keywords
    init = m.resolve_method(mma, "__init__")
    attr_of = {}
    for n in ast.walk(init.node):
        if isinstance(n, ast.Assign) and isinstance(n.value, ast.Name) and isinstance(n.targets[0], ast.Attribute):
            attr_of[n.value.id] = n.targets[0].attr
    need = {"xmin": attr_of.get("xmin"), "xmax": attr_of.get("xmax"), "move": attr_of.get("move")}
    if None in need.values():
        raise AnalysisError("MMA.__init__: xmin/xmax/move attributes not found")
    # asymptote attributes: bound to the subproblem solver's 2nd/3rd parameters
    bound = {}
    for i, a in enumerate(call.args):
        if i < len(params):
            bound[params[i]] = a
    for k in call.keywords:
        if k.arg:
            bound[k.arg] = k.value
    for which, pname, kind, sign, usr in (("lower", lo_p, "max", "-", need["xmin"]), ("upper", hi_p, "min", "+", need["xmax"])):
        arg = bound.get(pname)
        construct = f"MMA {which} variable bound passed to {g.name}({pname}=...)"
        if arg is None:
            col.bad(where_of(upd), upd.rel, line_of(call), construct, f"no argument bound to '{pname}'")
            continue
        terms = bound_terms(arg, du, kind)
        has_user = any(norm(t) == f"{selfn}.{usr}" for t in terms)
        has_move = any(_is_offset(t, xparam, sign, [f"{selfn}.{need['move']}"], du) for t in terms)
        asy = [norm(a) for p, a in bound.items() if isinstance(a, ast.Attribute) and norm(a.value) == selfn and p not in (pname,)]
        asy_attr = None
        # the asymptote of this side: an attribute passed to the solver that is defined as xparam -/+ shift
        for n in ast.walk(upd.node):
            if isinstance(n, ast.Assign) and isinstance(n.targets[0], ast.Attribute) and norm(n.targets[0]) in asy and \
                    isinstance(n.value, ast.BinOp) and norm(n.value.left) == xparam and \
                    isinstance(n.value.op, ast.Sub if which == "lower" else ast.Add):
                asy_attr = norm(n.targets[0])
        has_asy = asy_attr is not None and any(
            _is_offset(t, asy_attr, "+" if which == "lower" else "-", [], du) for t in terms)
        missing = [w for w, ok in (("the user's bound self." + usr, has_user),
                                   (f"the move limit {xparam} {sign} self.{need['move']}*range", has_move),
                                   (f"the asymptote offset {asy_attr or 'asymptote'} {'+' if which == 'lower' else '-'} fraction", has_asy)) if not ok]
        if missing:
            col.bad(where_of(upd), upd.rel, line_of(arg), construct,
                    f"the {which} bound '{U(arg)}' is not the element-wise {kind}imum over {missing}: terms found "
                    f"{sorted({norm(t) for t in terms})[:8]}")
        else:
            col.ok(where_of(upd), upd.rel, line_of(arg), construct,
                   f"{kind}imum over {{self.{usr}, move limit, asymptote offset}}")
    # returned design is the solver's first result
    redefs = [d for d in du.defs.get(first, [])]
    if len(redefs) == 1:
        col.ok(where_of(upd), upd.rel, line_of(ret), f"{upd.short} returns the subproblem solution unmodified", first)
    else:
        col.bad(where_of(upd), upd.rel, line_of(ret), f"{upd.short} returns the subproblem solution unmodified",
                f"'{first}' is modified after {g.name}() returned it ({len(redefs)} definitions): the bounds enforced by "
                f"the subproblem no longer apply to the returned design")
    # MMA.response: the design vector is replaced by the update's result
    ok = False
    for n in ast.walk(resp.node):
        if isinstance(n, ast.Assign) and isinstance(n.value, ast.Call) and upd in m.resolve_call(resp, n.value, concrete=mma):
            newname = n.targets[0].elts[0].id if isinstance(n.targets[0], ast.Tuple) else None
            for a in ast.walk(resp.node):
                if isinstance(a, ast.Assign) and isinstance(a.value, ast.Name) and a.value.id == newname and \
                        isinstance(a.targets[0], ast.Name):
                    ok = True
    if ok:
        col.ok(where_of(resp), resp.rel, line_of(resp.node), "MMA.response: design vector updated to the subproblem solution", "")
    else:
        col.bad(where_of(resp), resp.rel, line_of(resp.node), "MMA.response: design vector updated to the subproblem solution",
                "the result of the update method is not assigned to the design vector")

    # ---------------------------------------------------------------- optimality criteria
    oc = m.public_function("minimize_oc")
    du = DefUse(oc.node)
    clips = [n for n in ast.walk(oc.node) if isinstance(n, ast.Call) and norm(n.func).endswith("clip") and len(n.args) >= 3]
    if not clips:
        col.bad(where_of(oc), oc.rel, line_of(oc.node), "minimize_oc: clipped update", "no np.clip(candidate, lo, hi) found")
        return
    # current design: first result of the concatenate helper
    cur = None
    for n in ast.walk(oc.node):
        if isinstance(n, ast.Assign) and isinstance(n.targets[0], ast.Tuple) and isinstance(n.value, ast.Call) and \
                norm(n.value.func).endswith("_concatenate_to_array") and cur is None:
            cur = n.targets[0].elts[0].id
    for c in clips:
        tgt = getattr(c, "_parent", None)
        newname = tgt.targets[0].id if isinstance(tgt, ast.Assign) and isinstance(tgt.targets[0], ast.Name) else None
        for which, arg, kind, sign, usr in (("lower", c.args[1], "max", "-", "xmin"), ("upper", c.args[2], "min", "+", "xmax")):
            terms = bound_terms(arg, du, kind)
            has_user = any(norm(t) == usr for t in terms)
            has_move = any(isinstance(t, ast.BinOp) and norm(t) == f"{cur}{sign}move" for t in terms) or \
                any(isinstance(t, ast.Name) and _single_def(du, t.id) is not None and norm(_single_def(du, t.id)) == f"{cur}{sign}move"
                    for t in terms)
            construct = f"minimize_oc {which} clip bound"
            if has_user and has_move:
                col.ok(where_of(oc), oc.rel, line_of(arg), construct, f"{U(arg)} >= / <= {{{usr}, {cur}{sign}move}}")
            else:
                col.bad(where_of(oc), oc.rel, line_of(arg), construct,
                        f"'{U(arg)}' does not combine {'' if has_user else usr + ' '}{'' if has_move else cur + sign + 'move '}"
                        f"with element-wise {kind}imum: designs can leave the bounds / exceed the move limit")
        # current design updated to the clipped one
        aliases = {newname}
        grew = True
        while grew and newname is not None:
            grew = False
            for a in ast.walk(oc.node):
                if isinstance(a, ast.Assign) and len(a.targets) == 1 and isinstance(a.targets[0], ast.Name) and \
                        isinstance(a.value, ast.Name) and a.value.id in aliases and a.targets[0].id not in aliases \
                        and a.targets[0].id != cur:
                    aliases.add(a.targets[0].id)       # plain copies of the clipped design (x = xnew)
                    grew = True
        upd_ok = newname is not None and any(isinstance(a, ast.Assign) and isinstance(a.targets[0], ast.Name) and
                                             a.targets[0].id == cur and isinstance(a.value, ast.Name) and a.value.id in aliases
                                             for a in ast.walk(oc.node))
        if upd_ok:
            col.ok(where_of(oc), oc.rel, line_of(c), "minimize_oc: current design updated to the clipped design", f"{cur} = {newname}")
        else:
            col.bad(where_of(oc), oc.rel, line_of(c), "minimize_oc: current design updated to the clipped design",
                    f"'{cur}' is not updated to '{newname}': move limits of later iterations refer to a stale design")


@rule("R-WRITEBACK", floor=2)
def r_writeback(ctx: RuleCtx, col: Collector):
    """minimize_oc: on every path from the new design to the next iteration (converged `break` exits excepted) every
    variable signal is assigned its extent of the new vector; MMA.response assigns every variable signal from the
    design vector before each response()."""
    m = ctx.model
    oc = m.public_function("minimize_oc")
    cfg = ctx.flow.cfg(oc)
    # write-back loop: for i, s in enumerate(variables): s.state = new[...]
    wb = []
    for nd in cfg.simple_nodes():
        if nd.kind == FOR and any(isinstance(x, ast.Assign) and isinstance(x.targets[0], ast.Attribute) and
                                  x.targets[0].attr == "state" for x in nd.ast.body):
            wb.append(nd)
    outer = [nd for nd in cfg.simple_nodes() if nd.kind == FOR and any(
        isinstance(x, ast.Call) and isinstance(x.func, ast.Attribute) and x.func.attr == "response" for b in nd.ast.body for x in ast.walk(b))]
    if not wb or not outer:
        col.bad(where_of(oc), oc.rel, line_of(oc.node), "minimize_oc: write-back of the new design",
                "no loop assigning the variable signals' states found")
    else:
        # from the last definition of the clipped design to the head of the iteration loop
        clipn = [nd for nd in cfg.simple_nodes() if nd.kind == STMT and isinstance(nd.ast, ast.Assign) and
                 isinstance(nd.ast.value, ast.Call) and norm(nd.ast.value.func).endswith("clip")]
        head = outer[0]
        ok = all(cfg.must_pass(c, head, wb) for c in clipn)
        # but the inner while loop also leads back: restrict to paths leaving the bisection loop: use the statement after it
        inner_exit = []
        for nd in cfg.simple_nodes():
            if nd.kind == TEST and isinstance(nd.owner, ast.While) and any(c in cfg.reachable([nd]) for c in clipn):
                inner_exit += [s for s, lab in nd.succ if lab == "F"]
        ok = all(cfg.must_pass(s, head, wb) for s in inner_exit) if inner_exit else ok
        it = wb[0].ast
        full = (isinstance(it.iter, ast.Call) and norm(it.iter.func) in ("enumerate", "zip") and it.iter.args and
                norm(it.iter.args[0]) == "variables") or norm(it.iter) == "variables"
        if ok and full:
            col.ok(where_of(oc), oc.rel, line_of(wb[0].ast), "minimize_oc: write-back of the new design",
                   "every non-converged path assigns all variable signals")
        else:
            p = cfg.find_path(inner_exit[0], head, blocked=wb) if inner_exit else None
            col.bad(where_of(oc), oc.rel, line_of(wb[0].ast), "minimize_oc: write-back of the new design",
                    f"the next iteration can start without the variable signals holding the new design "
                    f"({fmt_path(p)}){'' if full else '; the loop does not enumerate all variables'}")
    mma = m.public_class("MMA")
    resp = m.resolve_method(mma, "response")
    cfg = ctx.flow.cfg(resp)
    selfn = m.self_name(resp)
    wb = [nd for nd in cfg.simple_nodes() if nd.kind == FOR and any(
        isinstance(x, ast.Assign) and isinstance(x.targets[0], ast.Attribute) and x.targets[0].attr == "state"
        for b in nd.ast.body for x in ([b] + (b.body + b.orelse if isinstance(b, ast.If) else [])))]
    rs = [nd for nd in cfg.simple_nodes() if nd.ast is not None and nd.kind == STMT and any(
        isinstance(x, ast.Call) and isinstance(x.func, ast.Attribute) and x.func.attr == "response"
        and norm(x.func.value).startswith(selfn + ".") for x in ast.walk(nd.ast))]
    if wb and rs and all(cfg.must_pass(cfg.entry, r, wb) for r in rs):
        col.ok(where_of(resp), resp.rel, line_of(wb[0].ast), "MMA.response: variables assigned before every response()", "")
    else:
        col.bad(where_of(resp), resp.rel, line_of(resp.node), "MMA.response: variables assigned before every response()",
                "the network can be evaluated without the variable signals holding the current design vector")


@rule("R-MMA-MEM", floor=2, tier="thorough")
def r_mma_mem(ctx: RuleCtx, col: Collector):
    """MMA iteration memory (asymptote adaptation reads the two previous designs): the older slot receives the previous
    newer slot and the newer slot receives a fresh copy of the current design."""
    m = ctx.model
    mma = m.public_class("MMA")
    resp = m.resolve_method(mma, "response")
    upd = None
    for n in ast.walk(resp.node):
        if isinstance(n, ast.Assign) and isinstance(n.value, ast.Call) and isinstance(n.targets[0], ast.Tuple):
            for g in m.resolve_call(resp, n.value, concrete=mma):
                if g.cls is not None and g.name != "response":
                    upd = g
    if upd is None:
        raise AnalysisError("MMA update method not found")
    selfn = m.self_name(upd)
    xparam = upd.pos_params()[0]
    # roles from the oscillation test (x - A) * (A - B)
    newer = older = None
    for n in ast.walk(upd.node):
        if isinstance(n, ast.BinOp) and isinstance(n.op, ast.Mult) and isinstance(n.left, ast.BinOp) and \
                isinstance(n.right, ast.BinOp) and isinstance(n.left.op, ast.Sub) and isinstance(n.right.op, ast.Sub) and \
                norm(n.left.left) == xparam and norm(n.left.right) == norm(n.right.left) and \
                norm(n.left.right).startswith(selfn + "."):
            newer, older = norm(n.left.right), norm(n.right.right)
    if newer is None:
        raise AnalysisError("MMA oscillation test (x - xold1)*(xold1 - xold2) not found")
    an = ctx.alias(upd, mma, role_env=False)
    found_new = found_old = False
    for nd in an.cfg.simple_nodes():
        a = nd.ast
        if nd.kind != STMT or not isinstance(a, ast.Assign):
            continue
        t = a.targets[0]
        pairs = list(zip(t.elts, a.value.elts)) if isinstance(t, ast.Tuple) and isinstance(a.value, ast.Tuple) and \
            len(t.elts) == len(a.value.elts) else [(t, a.value)]
        simultaneous = len(pairs) > 1
        for tt, vv in pairs:
            if norm(tt) == older:
                found_old = True
                if norm(vv) == newer and (simultaneous or not _assigned_before(an.cfg, nd, newer)):
                    col.ok(where_of(upd), upd.rel, line_of(a), f"{older} <- {newer}", "older slot receives the previous newer slot")
                else:
                    col.bad(where_of(upd), upd.rel, line_of(a), f"{older} <- {newer}",
                            f"{older} is assigned '{U(vv)}' (expected the previous value of {newer}): the oscillation "
                            f"test compares the wrong designs")
            if norm(tt) == newer:
                found_new = True
                env = an.state_in.get(nd, {})
                v = an.eval(vv, dict(env))
                if any(True for o in v.orig if o == o_param(xparam)) or not any(
                        isinstance(x, ast.Name) and x.id == xparam for x in ast.walk(vv)):
                    col.bad(where_of(upd), upd.rel, line_of(a), f"{newer} <- copy of the current design",
                            f"{newer} is assigned '{U(vv)}': it must be a fresh copy of '{xparam}' (a reference would follow "
                            f"the design when it is updated in place, or belong to another iteration)")
                else:
                    col.ok(where_of(upd), upd.rel, line_of(a), f"{newer} <- copy of the current design", U(vv))
    if not (found_new and found_old):
        raise AnalysisError(f"{upd.short}: assignments of the two memory slots not found")


def _assigned_before(cfg: CFG, nd: Node, attr_text: str) -> bool:
    for x in cfg.dominators().get(nd, ()):
        if x is not nd and x.kind == STMT and isinstance(x.ast, ast.Assign) and any(norm(t) == attr_text for t in x.ast.targets):
            return True
    return False


def _scaled(e: ast.AST, name: str) -> bool:
    """e is `name` up to constant factors / sign."""
    if isinstance(e, ast.Name):
        return e.id == name
    if isinstance(e, ast.UnaryOp) and isinstance(e.op, (ast.USub, ast.UAdd)):
        return _scaled(e.operand, name)
    if isinstance(e, ast.BinOp) and isinstance(e.op, ast.Mult):
        if isinstance(e.left, ast.Constant) or (isinstance(e.left, ast.UnaryOp) and isinstance(e.left.operand, ast.Constant)):
            return _scaled(e.right, name)
        if isinstance(e.right, ast.Constant):
            return _scaled(e.left, name)
    return False


@rule("R-STEP-DEP", floor=8, tier="thorough")
def r_step_dep(ctx: RuleCtx, col: Collector):
    """Interior-point subproblem: every variable advanced by the line search (x within its bounds, y, z, lam, xsi, eta,
    mu, zet, s) must stay positive, so the initial step length depends on the ratio step/value of each of them (for x:
    on both dx/(x-lower) and dx/(upper-x))."""
    m = ctx.model
    mma = m.public_class("MMA")
    resp = m.resolve_method(mma, "response")
    upd = None
    for n in ast.walk(resp.node):
        if isinstance(n, ast.Assign) and isinstance(n.value, ast.Call) and isinstance(n.targets[0], ast.Tuple):
            for g in m.resolve_call(resp, n.value, concrete=mma):
                if g.cls is not None and g.name != "response":
                    upd = g
    sp = _subproblem_call(ctx, upd)
    g = sp[2]
    bp = _bound_params(g)
    du = DefUse(g.node)
    # line-search updates V = Vold + step * dV
    pairs = []
    stepname = None
    for n in ast.walk(g.node):
        if isinstance(n, ast.Assign) and isinstance(n.value, ast.BinOp) and isinstance(n.value.op, ast.Add) and \
                isinstance(n.value.right, ast.BinOp) and isinstance(n.value.right.op, ast.Mult) and \
                isinstance(n.value.right.left, ast.Name) and isinstance(n.value.right.right, ast.Name):
            t = n.targets[0]
            v = t.value.id if isinstance(t, ast.Subscript) and isinstance(t.value, ast.Name) else (t.id if isinstance(t, ast.Name) else None)
            if v:
                pairs.append((v, n.value.right.right.id, n))
                stepname = n.value.right.left.id
    if len(pairs) < 5 or stepname is None:
        raise AnalysisError(f"{g.short}: line-search updates not recognised")
    # divisions in the backward slice of the step length's initial definition
    divs: List[ast.BinOp] = []
    seen = set()

    def collect(e):
        for n in ast.walk(e):
            if isinstance(n, ast.BinOp) and isinstance(n.op, ast.Div):
                divs.append(n)
            if isinstance(n, ast.Name) and n.id not in seen:
                seen.add(n.id)
                for d in du.defs.get(n.id, []):
                    collect(d)
    for d in du.defs.get(stepname, []):
        if not (isinstance(d, ast.Constant)):
            collect(d)
    lo, hi = bp
    # a denominator may be named beforehand (xa = x - alfa): compare its definition
    from .common import expand_names
    dtext = {id(x): {norm(x.right), norm(expand_names(g.node, x.right))} for x in divs}
    for v, dv, node in pairs:
        if any(dtext[id(x)] & {f"{v}-{lo}", f"{hi}-{v}"} and _scaled(x.left, dv) for x in divs):
            need = [f"{v}-{lo}", f"{hi}-{v}"]
            have = [t for t in need if any(t in dtext[id(x)] and _scaled(x.left, dv) for x in divs)]
            if len(have) == 2:
                col.ok(where_of(g), g.rel, line_of(node), f"step length bounded by {dv}/({v}-{lo}) and {dv}/({hi}-{v})", "")
            else:
                col.bad(where_of(g), g.rel, line_of(node), f"step length bounded by {dv}/({v}-{lo}) and {dv}/({hi}-{v})",
                        f"the step length does not depend on {sorted(set(need) - set(have))}: the iterate can step across "
                        f"that bound and leave the admissible interval")
            continue
        if any(v in dtext[id(x)] and _scaled(x.left, dv) for x in divs):
            col.ok(where_of(g), g.rel, line_of(node), f"step length bounded by {dv}/{v}", "")
        else:
            col.bad(where_of(g), g.rel, line_of(node), f"step length bounded by {dv}/{v}",
                    f"the initial step length does not depend on the ratio {dv}/{v}: '{v}' can become non-positive in the "
                    f"line search (negative multipliers / slacks)")


# ----------------------------------------------------------------------------------------------- bisection
def _mono(e: ast.AST, var: str, signs: Dict[str, int], assume: List[str]) -> Tuple[Optional[int], Optional[int]]:
    """(monotonicity of e in var: +1 non-decreasing, -1 non-increasing, 0 constant, None unknown; sign of e: +1 >= 0,
    -1 <= 0, None unknown)."""
    if isinstance(e, ast.Constant) and isinstance(e.value, (int, float)):
        return 0, (1 if e.value >= 0 else -1)
    if isinstance(e, ast.Name):
        if e.id == var:
            return 1, signs.get(var)
        return 0, signs.get(e.id)
    if isinstance(e, ast.UnaryOp) and isinstance(e.op, ast.USub):
        mo, sg = _mono(e.operand, var, signs, assume)
        return (None if mo is None else -mo), (None if sg is None else -sg)
    if isinstance(e, ast.BinOp):
        ml, sl = _mono(e.left, var, signs, assume)
        mr, sr = _mono(e.right, var, signs, assume)
        if isinstance(e.op, (ast.Add, ast.Sub)):
            if isinstance(e.op, ast.Sub):
                mr = None if mr is None else -mr
                sr = None if sr is None else -sr
            mo = ml if mr == 0 else (mr if ml == 0 else (ml if ml == mr else None))
            sg = sl if sl == sr else None
            return mo, sg
        if isinstance(e.op, ast.Mult):
            sg = None if None in (sl, sr) else sl * sr
            if ml == 0 and mr == 0:
                return 0, sg
            if ml == 0 and sl is not None and mr is not None:
                return mr * sl, sg
            if mr == 0 and sr is not None and ml is not None:
                return ml * sr, sg
            return None, sg
        if isinstance(e.op, ast.Div):
            sg = None if None in (sl, sr) else sl * sr
            if mr == 0 and sr is not None and ml is not None:
                return ml * sr, sg
            if ml == 0 and sl is not None and mr is not None and sr is not None:
                # c / g(v): decreasing in g for c >= 0 (g of constant sign)
                return -mr * sl, sg
            return None, sg
        if isinstance(e.op, ast.Pow) and isinstance(e.right, ast.Constant) and e.right.value == 0.5:
            return ml, 1
        return None, None
    if isinstance(e, ast.Call):
        f = norm(e.func).split(".")[-1]
        if f in ("sqrt", "exp", "log", "cbrt") and e.args:
            mo, sg = _mono(e.args[0], var, signs, assume)
            return mo, (1 if f in ("sqrt", "exp") else None)
        if f in ("sum", "mean", "average") and e.args:
            return _mono(e.args[0], var, signs, assume)
        if f == "clip" and len(e.args) >= 3:
            mo, sg = _mono(e.args[0], var, signs, assume)
            m1, _ = _mono(e.args[1], var, signs, assume)
            m2, _ = _mono(e.args[2], var, signs, assume)
            if m1 == 0 and m2 == 0:
                return mo, None
            return None, None
        if f in ("maximum", "minimum") and len(e.args) >= 2:
            m1, s1 = _mono(e.args[0], var, signs, assume)
            m2, s2 = _mono(e.args[1], var, signs, assume)
            mo = m1 if m2 == 0 else (m2 if m1 == 0 else (m1 if m1 == m2 else None))
            return mo, None
        if f in ("abs", "absolute") and e.args:
            return None, 1
    return None, None


@rule("R-BISECT", floor=1, tier="thorough")
def r_bisect(ctx: RuleCtx, col: Collector):
    """minimize_oc's bisection on the Lagrange multiplier: the candidate design is non-increasing in the multiplier
    (sign/monotonicity lattice through /, sqrt, *, clip, sum), so 'volume too large' must raise the lower end of the
    bracket and 'too small' must lower the upper end."""
    m = ctx.model
    oc = m.public_function("minimize_oc")
    du = DefUse(oc.node)
    loops = [n for n in ast.walk(oc.node) if isinstance(n, ast.While)]
    for lp in loops:
        mid = None
        for n in lp.body:
            if isinstance(n, ast.Assign) and isinstance(n.targets[0], ast.Name) and isinstance(n.value, ast.BinOp) and \
                    "0.5*" in norm(n.value):
                names = sorted({x.id for x in ast.walk(n.value) if isinstance(x, ast.Name)})
                if len(names) == 2:
                    mid, (e1, e2) = n.targets[0].id, names
        if mid is None:
            continue
        # bracket ends: which is lower?  the loop test is `hi - lo > tol`
        t = lp.test
        lo = hi = None
        if isinstance(t, ast.Compare) and isinstance(t.left, ast.BinOp) and isinstance(t.left.op, ast.Sub):
            hi, lo = norm(t.left.left), norm(t.left.right)
        if lo is None:
            raise AnalysisError("minimize_oc: bisection bracket test not recognised")
        cand = None
        for n in lp.body:
            if isinstance(n, ast.Assign) and isinstance(n.targets[0], ast.Name) and any(
                    isinstance(x, ast.Name) and x.id == mid for x in ast.walk(n.value)) and n.targets[0].id != mid:
                cand = n
        upd = None
        upd_test = None
        br_true: Dict[str, str] = {}
        br_false: Dict[str, str] = {}
        for n in lp.body:
            if isinstance(n, ast.Assign) and isinstance(n.targets[0], ast.Tuple) and isinstance(n.value, ast.IfExp):
                # lo, hi = (mid, hi) if <test> else (lo, mid)
                upd, upd_test = n, n.value.test
                tn_ = [norm(x) for x in n.targets[0].elts]
                for br, v in ((br_true, n.value.body), (br_false, n.value.orelse)):
                    if isinstance(v, ast.Tuple) and len(v.elts) == len(tn_):
                        br.update(dict(zip(tn_, [norm(x) for x in v.elts])))
            elif isinstance(n, ast.If) and n.orelse and all(
                    isinstance(x, ast.Assign) and len(x.targets) == 1 and norm(x.targets[0]) in (lo, hi) for x in n.body + n.orelse):
                # if <test>: lo = mid / else: hi = mid   (an end that is not assigned keeps its value)
                upd, upd_test = n, n.test
                for br, blk in ((br_true, n.body), (br_false, n.orelse)):
                    br.update({lo: lo, hi: hi})
                    for x in blk:
                        br[norm(x.targets[0])] = norm(x.value)
        if cand is None or upd is None:
            raise AnalysisError("minimize_oc: bisection candidate / bracket update not recognised")
        # the bracket is re-initialised from the caller's initial values in every outer iteration
        par = getattr(lp, "_parent", None)
        sibs = par.body if par is not None and hasattr(par, "body") else []
        before = sibs[:sibs.index(lp)] if lp in sibs else []
        vals: Dict[str, object] = {}
        where_init = None
        for st in before:        # the last assignment of each end of the bracket in front of the loop (either form)
            if isinstance(st, ast.Assign):
                t = st.targets[0]
                # a conditional expression initialises the bracket differently per branch: every branch is judged
                alts = [st.value.body, st.value.orelse] if isinstance(st.value, ast.IfExp) else [st.value]
                fresh: Dict[str, List[ast.AST]] = {}
                for alt in alts:
                    pairs = list(zip(t.elts, alt.elts)) if isinstance(t, ast.Tuple) and isinstance(alt, ast.Tuple) and \
                        len(t.elts) == len(alt.elts) else [(t, alt)]
                    for a, v in pairs:
                        if norm(a) in (lo, hi):
                            fresh.setdefault(norm(a), []).append(v)
                            where_init = st
                for k_, vs_ in fresh.items():
                    vals[k_] = vs_
        if len(vals) == 2:
            st = where_init
            params = set(oc.pos_params()) | set(oc.kwonly())
            okinit = all(isinstance(v, ast.Name) and v.id in params for vs_ in vals.values() for v in vs_)
            vals = {k_: vs_[0] if len(vs_) == 1 else ast.Tuple(elts=list(vs_), ctx=ast.Load()) for k_, vs_ in vals.items()}
            if okinit:
                col.ok(where_of(oc), oc.rel, line_of(st), "bisection bracket initialised from the caller's bracket",
                       ", ".join(f"{k} = {norm(v)}" for k, v in sorted(vals.items())))
            else:
                col.bad(where_of(oc), oc.rel, line_of(st), "bisection bracket initialised from the caller's bracket",
                        f"'{', '.join(f'{k} = {norm(v)}' for k, v in sorted(vals.items()))}' does not start the bisection from the "
                        f"caller's full bracket: a multiplier outside the narrowed bracket cannot be found and the volume target is missed")
        else:
            raise AnalysisError("minimize_oc: initialisation of the bisection bracket in front of the loop not recognised")
        assume: List[str] = []
        signs = {mid: 1}
        assume.append(f"the multiplier {mid} is positive (bracket starts at non-negative values)")
        # signs from definitions: minimum(.,0) => <= 0 ; the design vector is non-negative (densities)
        for name, defs in du.defs.items():
            for d in defs:
                if isinstance(d, ast.Call) and norm(d.func).endswith("minimum") and any(
                        isinstance(a, ast.Constant) and a.value == 0 for a in d.args):
                    signs[name] = -1
        for n in ast.walk(oc.node):
            if isinstance(n, ast.Assign) and isinstance(n.targets[0], ast.Tuple) and isinstance(n.value, ast.Call) and \
                    norm(n.value.func).endswith("_concatenate_to_array"):
                x0 = n.targets[0].elts[0]
                if isinstance(x0, ast.Name) and x0.id not in signs:
                    signs[x0.id] = 1
                    assume.append(f"the design vector {x0.id} is non-negative (densities)")
        mo, _ = _mono(cand.value, mid, signs, assume)
        # volume measure: the test of the IfExp: sum(cand) - maxvol > 0
        test = upd_test
        tm, _ = _mono(test.left if isinstance(test, ast.Compare) else test, cand.targets[0].id, {}, assume)
        construct = f"bisection update '{stmt_key(upd)}'"
        if mo is None or tm is None:
            col.bad(where_of(oc), oc.rel, line_of(upd), construct,
                    f"cannot establish the monotonicity of the candidate '{U(cand.value)}' in '{mid}' (result: {mo}) or of "
                    f"the volume test in the candidate ({tm})")
            continue
        # when test is true (for `> 0`): measure too large.  measure is tm-monotone in candidate, candidate mo-monotone in mid
        gt = isinstance(test, ast.Compare) and isinstance(test.ops[0], (ast.Gt, ast.GtE))
        direction = mo * tm            # measure monotonicity in mid
        # too large & decreasing in mid => raise mid => new bracket (mid, hi)
        when_true, when_false = br_true, br_false
        if not gt:
            when_true, when_false = when_false, when_true
        want_true = (lo, mid) if direction < 0 else (hi, mid)     # which end moves when the measure is too large
        ok = when_true.get(want_true[0]) == mid and when_false.get(hi if want_true[0] == lo else lo) == mid
        if ok:
            col.ok(where_of(oc), oc.rel, line_of(upd), construct,
                   f"candidate is {'non-increasing' if mo < 0 else 'non-decreasing'} in {mid}; too much volume moves "
                   f"{want_true[0]} to {mid}")
        else:
            col.bad(where_of(oc), oc.rel, line_of(upd), construct,
                    f"the candidate is {'non-increasing' if mo < 0 else 'non-decreasing'} in {mid}, so when the volume is "
                    f"too large {want_true[0]} must move to {mid}; the update does {when_true}: the bisection "
                    f"diverges from the volume target")
        for a in assume:
            col.assume(a)
