"""Package-wide lints with kind / range / dominance facts: R-UFUNC-ARITY, R-NEGSLICE, R-KIND, R-ARGNAMES,
R-CUMSLICE, R-EMPTY-IDX, R-ACC-DTYPE."""
from __future__ import annotations

import ast
from typing import Dict, List, Optional, Set, Tuple

from ..cfg import CFG, Node, STMT, TEST, FOR, WITH, assigned_names
from ..model import stmt_key, AnalysisError, FuncInfo, parent, enclosing_stmt
from ..report import rule, Collector
from .common import RuleCtx, where_of, line_of, dedupe
from .eff import _functions

U = ast.unparse


def norm(e) -> str:
    return "".join(U(e).split())


BINARY_UFUNCS = {"logical_and", "logical_or", "logical_xor", "add", "subtract", "multiply", "divide", "true_divide",
                 "floor_divide", "power", "maximum", "minimum", "fmax", "fmin", "bitwise_and", "bitwise_or",
                 "bitwise_xor", "greater", "greater_equal", "less", "less_equal", "equal", "not_equal", "hypot",
                 "arctan2", "mod", "remainder", "fmod", "copysign", "left_shift", "right_shift", "float_power",
                 "logaddexp", "heaviside", "gcd", "lcm"}
UNARY_UFUNCS = {"logical_not", "bitwise_not", "invert", "negative", "positive", "absolute", "fabs", "sign", "sqrt",
                "square", "exp", "exp2", "log", "log2", "log10", "expm1", "log1p", "sin", "cos", "tan", "arcsin",
                "arccos", "arctan", "sinh", "cosh", "tanh", "floor", "ceil", "trunc", "rint", "conjugate", "conj",
                "isfinite", "isinf", "isnan", "reciprocal", "cbrt", "deg2rad", "rad2deg", "signbit"}


@rule("R-UFUNC-ARITY", floor=40, witness_min=1)
def r_ufunc_arity(ctx: RuleCtx, col: Collector):
    """A NumPy binary ufunc called with three (a unary one with two) positional arguments: the extra argument is
    `out=`, not a further operand - its condition is silently discarded and the array overwritten."""
    m = ctx.model
    for f in _functions(m):
        for n in ast.walk(f.node):
            if not isinstance(n, ast.Call) or not isinstance(n.func, (ast.Attribute, ast.Name)):
                continue
            d = m.expr_dotted(f.module, n.func) if isinstance(n.func, ast.Attribute) else m.resolve_name(f.module, n.func.id)
            if not d or not d.startswith("numpy."):
                continue
            name = d[6:]
            if any(isinstance(a, ast.Starred) for a in n.args):
                continue
            if name in BINARY_UFUNCS or name in UNARY_UFUNCS:
                arity = 2 if name in BINARY_UFUNCS else 1
                if len(n.args) > arity:
                    col.bad(where_of(f), f.rel, line_of(n), stmt_key(n),
                            f"np.{name} takes {arity} operand(s); positional argument {arity + 1} "
                            f"('{U(n.args[arity])}') is `out`, so that operand does not take part in the result "
                            f"(use np.{name}.reduce([...]) for more operands)")
                else:
                    col.ok(where_of(f), f.rel, line_of(n), stmt_key(n), f"np.{name} with {len(n.args)} operand(s)")
    dedupe(col)


# ----------------------------------------------------------------------------------------------- negative slice
def _positive_by_guard(cfg: CFG, nd: Node, name: str) -> Optional[str]:
    """Is node `nd` only reachable through the true branch of a test that implies `name >= 1` (and `name` is not
    reassigned in between)?"""
    for t in cfg.dominators().get(nd, ()):
        if t.kind != TEST or t.ast is None or t is nd:
            continue
        pol = _implies_positive(t.ast, name)
        if pol is None:
            continue
        lab = "T" if pol else "F"
        succ = [s for s, l in t.succ if l == lab]
        other = [s for s, l in t.succ if l not in (lab, "exc")]
        if not succ:
            continue
        if nd in cfg.reachable(succ, labels_excluded=("exc",)) and \
                nd not in cfg.reachable(other, blocked=[t], labels_excluded=("exc",)):
            # no reassignment of `name` between t and nd
            region = cfg.reachable(succ, blocked=[nd], labels_excluded=("exc",))
            if not any(x.kind in (STMT, FOR, WITH) and x.ast is not None and name in assigned_names(x.ast)
                       for x in region if x is not nd):
                return U(t.ast)
    return None


def _implies_positive(test: ast.AST, name: str) -> Optional[bool]:
    """True: test true => name >= 1;  False: test false => name >= 1."""
    if isinstance(test, ast.Name) and test.id == name:
        return True
    if isinstance(test, ast.UnaryOp) and isinstance(test.op, ast.Not):
        r = _implies_positive(test.operand, name)
        return None if r is None else (not r)
    if isinstance(test, ast.BoolOp) and isinstance(test.op, ast.And):
        for v in test.values:
            if _implies_positive(v, name) is True:
                return True
        return None
    if isinstance(test, ast.Compare) and len(test.ops) == 1:
        l, op, r = test.left, test.ops[0], test.comparators[0]

        def const(e):
            return e.value if isinstance(e, ast.Constant) and isinstance(e.value, (int, float)) and not isinstance(e.value, bool) else None
        if isinstance(l, ast.Name) and l.id == name and const(r) is not None:
            c = const(r)
            if isinstance(op, ast.Gt) and c >= 0:
                return True
            if isinstance(op, ast.GtE) and c >= 1:
                return True
            if isinstance(op, ast.NotEq) and c == 0:
                return True     # counts are non-negative integers
            if isinstance(op, ast.LtE) and c <= 0:
                return False
            if isinstance(op, ast.Lt) and c <= 1:
                return False
            if isinstance(op, ast.Eq) and c == 0:
                return False
        if isinstance(r, ast.Name) and r.id == name and const(l) is not None:
            c = const(l)
            if isinstance(op, ast.Lt) and c >= 0:
                return True
            if isinstance(op, ast.LtE) and c >= 1:
                return True
    return None


def _mentions_count(f: FuncInfo, bound: ast.AST) -> bool:
    """The bound mentions a local that is defined as int(<expression>) (an entry count computed from a fraction)."""
    names = {x.id for x in ast.walk(bound) if isinstance(x, ast.Name)}
    for n in ast.walk(f.node):
        if isinstance(n, ast.Assign) and isinstance(n.value, ast.Call) and isinstance(n.value.func, ast.Name) and \
                n.value.func.id == "int" and any(isinstance(t, ast.Name) and t.id in names for t in n.targets):
            return True
    return False


def _defs_positive(f: FuncInfo, name: str) -> bool:
    """Every definition of `name` in the function is a positive constant or max(<positive const>, ...)."""
    defs = [n.value for n in ast.walk(f.node) if isinstance(n, ast.Assign) and any(
        isinstance(t, ast.Name) and t.id == name for t in n.targets)]
    if not defs:
        return False
    for d in defs:
        if isinstance(d, ast.Constant) and isinstance(d.value, int) and d.value >= 1:
            continue
        if isinstance(d, ast.Call) and isinstance(d.func, ast.Name) and d.func.id == "max" and any(
                isinstance(a, ast.Constant) and isinstance(a.value, int) and a.value >= 1 for a in d.args):
            continue
        return False
    return True


@rule("R-NEGSLICE", floor=0, witness_min=1)  # floor counts computed-count slices of either sign
def r_negslice(ctx: RuleCtx, col: Collector):
    """A slice bound `-n` with a computed count n that may be 0: `a[-n:]` then selects *everything* and `a[:-n]`
    nothing.  n must be a positive constant or the slice must be dominated by a test implying n >= 1."""
    m = ctx.model
    for f in _functions(m):
        cfg = None
        for n in ast.walk(f.node):
            if not isinstance(n, ast.Slice):
                continue
            for bound, which in ((n.lower, "lower"), (n.upper, "upper")):
                if not (isinstance(bound, ast.UnaryOp) and isinstance(bound.op, ast.USub)):
                    # a computed count used without a sign flip (a[:n], a[size-n:]) degrades gracefully for n == 0
                    if bound is not None and _mentions_count(f, bound):
                        sub0 = parent(n)
                        while sub0 is not None and not isinstance(sub0, ast.Subscript):
                            sub0 = parent(sub0)
                        col.ok(where_of(f), f.rel, line_of(bound), stmt_key(sub0 if sub0 is not None else n),
                               "computed count used as a non-negated slice bound: a zero count selects nothing")
                    continue
                operand = bound.operand
                if isinstance(operand, ast.Constant):
                    continue
                sub = parent(n)
                while sub is not None and not isinstance(sub, ast.Subscript):
                    sub = parent(sub)
                construct = stmt_key(sub if sub is not None else n)
                if not isinstance(operand, ast.Name):
                    col.bad(where_of(f), f.rel, line_of(bound), construct,
                            f"slice bound '-({U(operand)})' is a computed count that is not shown to be >= 1")
                    continue
                name = operand.id
                if cfg is None:
                    cfg = ctx.flow.cfg(f)
                nd = cfg.node_of(n)
                g = _positive_by_guard(cfg, nd, name) if nd is not None else None
                if g:
                    col.ok(where_of(f), f.rel, line_of(bound), construct, f"dominated by '{g}' (=> {name} >= 1)")
                elif _defs_positive(f, name):
                    col.ok(where_of(f), f.rel, line_of(bound), construct, f"{name} is a positive constant")
                else:
                    what = "the whole array" if which == "lower" else "nothing"
                    col.bad(where_of(f), f.rel, line_of(bound), construct,
                            f"slice bound '-{name}' with a count that may be 0: the slice then selects {what} instead "
                            f"of {'no' if which == 'lower' else 'all'} entries (guard with '{name} > 0')")
    dedupe(col)


# ------------------------------------------------------------------------------------------- reaching definitions
def reaching_defs(cfg: CFG, name: str) -> Dict[Node, Set[object]]:
    """Forward may-analysis: for every node, the set of defining nodes of `name` (or 'param') reaching its entry."""
    at: Dict[Node, Set[object]] = {n: set() for n in cfg.nodes}
    at[cfg.entry] = {"param"}
    work = [cfg.entry]
    while work:
        n = work.pop()
        cur = at[n]
        out = cur
        if n.kind in (STMT, FOR, WITH) and n.ast is not None and name in assigned_names(n.ast):
            if not (isinstance(n.ast, ast.AugAssign)):
                out = {n}
            else:
                out = cur | {n}
        for s, lab in n.succ:
            if not out <= at[s]:
                at[s] = at[s] | out
                work.append(s)
    return at


def _is_numeric_seq_literal(e: ast.AST) -> bool:
    return isinstance(e, (ast.List, ast.Tuple)) and len(e.elts) > 0 and all(
        (isinstance(x, ast.Constant) and isinstance(x.value, (int, float, complex)) and not isinstance(x.value, bool))
        or (isinstance(x, ast.UnaryOp) and isinstance(x.operand, ast.Constant)) for x in e.elts)


STR_METHODS = {"lower", "upper", "strip", "split", "startswith", "endswith", "replace", "format", "join", "find",
               "lstrip", "rstrip", "casefold", "title", "encode", "isdigit"}


@rule("R-KIND", floor=3, witness_min=1)
def r_kind(ctx: RuleCtx, col: Collector):
    """Package-wide: a string membership test (`'-' in name`) or a string method applied to a name whose only
    reaching definitions are lists of numbers - a test that became constant-false after the name was rebound
    (e.g. a string parameter overwritten by its parsed numeric form before its sign is read)."""
    m = ctx.model
    for f in _functions(m):
        uses = []
        for n in ast.walk(f.node):
            if isinstance(n, ast.Compare) and len(n.ops) == 1 and isinstance(n.ops[0], (ast.In, ast.NotIn)) and \
                    isinstance(n.left, ast.Constant) and isinstance(n.left.value, str) and \
                    isinstance(n.comparators[0], ast.Name):
                uses.append((n, n.comparators[0].id, f"'{n.left.value}' in {n.comparators[0].id}"))
            if isinstance(n, ast.Call) and isinstance(n.func, ast.Attribute) and n.func.attr in STR_METHODS and \
                    isinstance(n.func.value, ast.Name):
                uses.append((n, n.func.value.id, f"{n.func.value.id}.{n.func.attr}()"))
        if not uses:
            continue
        cfg = ctx.flow.cfg(f)
        cache: Dict[str, Dict[Node, Set[object]]] = {}
        for n, name, what in uses:
            nd = cfg.node_of(n)
            if nd is None:
                continue
            if name not in cache:
                cache[name] = reaching_defs(cfg, name)
            defs = cache[name].get(nd, set())
            # a use inside the defining statement itself sees the definitions reaching that statement
            nodes = [d for d in defs if d != "param"]
            only_numeric = bool(nodes) and "param" not in defs and all(
                isinstance(d.ast, ast.Assign) and _is_numeric_seq_literal(d.ast.value) for d in nodes)
            is_param = name in [a.arg for a in f.node.args.args + f.node.args.kwonlyargs]
            if only_numeric:
                col.bad(where_of(f), f.rel, line_of(n), stmt_key(enclosing_stmt(n)),
                        f"'{what}' is evaluated where '{name}' can only be the numeric list assigned at "
                        f"L{nodes[0].lineno}: the string test is constant-false"
                        + (f" (the string parameter '{name}' was rebound before this use)" if is_param else ""))
            else:
                col.ok(where_of(f), f.rel, line_of(n), stmt_key(enclosing_stmt(n)),
                       f"'{name}' may still be a string here ({len(defs)} reaching definition(s))")
    dedupe(col)


# ------------------------------------------------------------------------------------------------ arg names
@rule("R-ARGNAMES", floor=3)
def r_argnames(ctx: RuleCtx, col: Collector):
    """Long positional calls to repository functions (>= 6 positional arguments): an argument that is a bare name
    (or self.<name>) equal to the name of a *different* parameter of the callee is a swapped argument."""
    m = ctx.model
    for f in _functions(m):
        for n in ast.walk(f.node):
            if not isinstance(n, ast.Call) or len(n.args) < 6 or any(isinstance(a, ast.Starred) for a in n.args):
                continue
            callees = m.resolve_call(f, n, concrete=f.cls)
            if len(callees) != 1:
                continue
            g = callees[0]
            params = g.pos_params()
            if len(params) < len(n.args):
                continue
            bad = []
            for i, a in enumerate(n.args):
                ident = None
                if isinstance(a, ast.Name):
                    ident = a.id
                elif isinstance(a, ast.Attribute) and isinstance(a.value, ast.Name) and a.value.id == m.self_name(f):
                    ident = a.attr
                if ident is None or ident == params[i]:
                    continue
                if ident in params:
                    bad.append((i, ident, params[i]))
            construct = f"{U(n.func)}(...{len(n.args)} positional arguments)"
            if bad:
                i, ident, p = bad[0]
                col.bad(where_of(f), f.rel, line_of(n), construct,
                        f"argument {i + 1} is '{ident}' but binds to parameter '{p}' of {g.short}, which has a different "
                        f"parameter named '{ident}': swapped positional arguments")
            else:
                col.ok(where_of(f), f.rel, line_of(n), construct,
                       f"{len(n.args)} positional arguments of {g.short}: no name bound to a different parameter")
    dedupe(col)


# ------------------------------------------------------------------------------------------------- cumslice
def _cum_exprs(ctx: RuleCtx) -> Dict[str, Set[str]]:
    """function qual -> normalised expressions that hold a cumulative-length array (second result of the package's
    concatenate helper, or a parameter bound to one at a call site)."""
    m = ctx.model
    out: Dict[str, Set[str]] = {}
    helper = None
    for f in _functions(m):
        if f.name == "_concatenate_to_array":
            helper = f
    if helper is None:
        raise AnalysisError("concatenate helper (_concatenate_to_array) not found")
    # direct: a, c = helper(...)
    attr_holders: Set[str] = set()
    for f in _functions(m):
        for n in ast.walk(f.node):
            if isinstance(n, ast.Assign) and isinstance(n.value, ast.Call) and helper in m.resolve_call(f, n.value, f.cls):
                for t in n.targets:
                    if isinstance(t, ast.Tuple) and len(t.elts) == 2:
                        e = t.elts[1]
                        if isinstance(e, ast.Name) and e.id == "_":
                            continue
                        out.setdefault(f.qual, set()).add(norm(e))
                        if isinstance(e, ast.Attribute) and isinstance(e.value, ast.Name) and e.value.id == m.self_name(f) \
                                and f.cls is not None:
                            attr_holders.add((f.cls.qual, e.attr))
    # the same attribute in the other methods of the class
    for f in _functions(m):
        if f.cls is None:
            continue
        for (cq, a) in attr_holders:
            if f.cls.qual == cq and m.self_name(f):
                out.setdefault(f.qual, set()).add(f"{m.self_name(f)}.{a}")
    # inside the helper itself and parameters bound at call sites
    changed = True
    rounds = 0
    while changed and rounds < 3:
        changed = False
        rounds += 1
        for f in _functions(m):
            mine = out.get(f.qual, set())
            if not mine:
                continue
            for n in ast.walk(f.node):
                if isinstance(n, ast.Call):
                    for g in m.resolve_call(f, n, f.cls):
                        params = g.pos_params()
                        for i, a in enumerate(n.args):
                            if not isinstance(a, ast.Starred) and norm(a) in mine and i < len(params):
                                s = out.setdefault(g.qual, set())
                                if params[i] not in s:
                                    s.add(params[i])
                                    changed = True
    return out


def _index_of(e: ast.AST, arrs: Set[str]) -> Optional[Tuple[str, ast.AST]]:
    if isinstance(e, ast.Subscript) and norm(e.value) in arrs:
        return norm(e.value), e.slice
    return None


def _plus_one(lo: ast.AST, hi: ast.AST) -> bool:
    a, b = norm(lo), norm(hi)
    return b in (f"{a}+1", f"1+{a}") or (isinstance(lo, ast.Constant) and isinstance(hi, ast.Constant)
                                         and isinstance(lo.value, int) and hi.value == lo.value + 1)


def _pair_role(e: ast.AST, arrs: Set[str], fnode: ast.AST) -> Optional[Tuple[str, str, int]]:
    """`e` is a name walking c[:-1] ('lo') or c[1:] ('hi') of a cumulative-length array c in an enclosing loop
    (for a, b in zip(c[:-1], c[1:])): -> (c, role, id of the loop)"""
    from .common import LoopElems
    if not isinstance(e, ast.Name):
        return None
    p = parent(e)
    loops = []
    while p is not None and p is not fnode:
        if isinstance(p, ast.For):
            loops.append((p, p.target, p.iter))
        if isinstance(p, (ast.ListComp, ast.GeneratorExp, ast.SetComp, ast.DictComp)):
            for g in p.generators:
                loops.append((g, g.target, g.iter))
        p = parent(p)
    for lp, tg, it in loops:
        le = LoopElems(tg, it)
        seq = le.elems.get(e.id)
        if seq is None or not isinstance(seq, ast.Subscript) or norm(seq.value) not in arrs or not isinstance(seq.slice, ast.Slice):
            continue
        sl = seq.slice
        if sl.step is not None:
            return None
        if sl.lower is None and sl.upper is not None and norm(sl.upper) == "-1":
            return norm(seq.value), "lo", id(lp)
        if sl.upper is None and sl.lower is not None and norm(sl.lower) == "1":
            return norm(seq.value), "hi", id(lp)
        return norm(seq.value), "other", id(lp)
    return None


@rule("R-CUMSLICE", floor=8)
def r_cumslice(ctx: RuleCtx, col: Collector):
    """Design variables spread over several signals are addressed through a cumulative-length array c: every slice
    bounded by c must be c[i]:c[i+1] with one index variable, which is the loop variable that also selects the
    signal / per-signal value in the same statement; the scalar pick x[c[i]] is allowed only under the
    c[i+1]-c[i] == 1 guard."""
    m = ctx.model
    cum = _cum_exprs(ctx)
    for f in _functions(m):
        arrs = cum.get(f.qual)
        if not arrs:
            continue
        for n in ast.walk(f.node):
            if isinstance(n, ast.Slice):
                lo = _index_of(n.lower, arrs) if n.lower is not None else None
                hi = _index_of(n.upper, arrs) if n.upper is not None else None
                if lo is None and hi is None:
                    # consecutive entries walked in lockstep: for start, stop in zip(c[:-1], c[1:]): x[start:stop]
                    plo = _pair_role(n.lower, arrs, f.node) if n.lower is not None else None
                    phi = _pair_role(n.upper, arrs, f.node) if n.upper is not None else None
                    if plo is None and phi is None:
                        continue
                    sub = parent(n)
                    construct = stmt_key(sub) if isinstance(sub, ast.Subscript) else stmt_key(n)
                    if plo is not None and phi is not None and plo[0] == phi[0] and plo[2] == phi[2] and \
                            (plo[1], phi[1]) == ("lo", "hi") and n.step is None:
                        col.ok(where_of(f), f.rel, line_of(n), construct, f"extent of one signal: consecutive entries of {plo[0]}")
                    else:
                        col.bad(where_of(f), f.rel, line_of(n), construct,
                                f"slice bounds '{U(n.lower) if n.lower else ''}:{U(n.upper) if n.upper else ''}' are not the "
                                f"consecutive entries (c[k], c[k+1]) of one cumulative-length array: entries of a neighbouring "
                                f"signal are read or written")
                    continue
                st = enclosing_stmt(n)
                sub = parent(n)
                construct = stmt_key(sub) if isinstance(sub, ast.Subscript) else stmt_key(n)
                if lo is None or hi is None or lo[0] != hi[0] or n.step is not None:
                    col.bad(where_of(f), f.rel, line_of(n), construct,
                            "slice bounded by the cumulative-length array on one side only (or by two different arrays)")
                    continue
                if not _plus_one(lo[1], hi[1]):
                    col.bad(where_of(f), f.rel, line_of(n), construct,
                            f"slice {lo[0]}[{U(lo[1])}]:{hi[0]}[{U(hi[1])}] is not the extent of one signal "
                            f"(expected [{U(lo[1])}]:[{U(lo[1])}+1]): entries of a neighbouring signal are read or written")
                    continue
                # the index variable must be the loop variable of an enclosing loop, and be the only loop index used
                idx = norm(lo[1])
                loop = parent(n)
                loopvars: List[str] = []
                while loop is not None and loop is not f.node:
                    if isinstance(loop, ast.For):
                        loopvars += [x.id for x in ast.walk(loop.target) if isinstance(x, ast.Name)]
                    if isinstance(loop, ast.comprehension):
                        loopvars += [x.id for x in ast.walk(loop.target) if isinstance(x, ast.Name)]
                    loop = parent(loop)
                # comprehension generators are siblings, not parents
                p = parent(n)
                while p is not None and p is not f.node:
                    if isinstance(p, (ast.ListComp, ast.GeneratorExp, ast.SetComp, ast.DictComp)):
                        for g in p.generators:
                            loopvars += [x.id for x in ast.walk(g.target) if isinstance(x, ast.Name)]
                    p = parent(p)
                if idx not in loopvars:
                    col.bad(where_of(f), f.rel, line_of(n), construct,
                            f"index '{idx}' of the cumulative-length array is not the variable of an enclosing loop")
                    continue
                # an element variable of an enclosing `for k, s in enumerate(...)` used in the same statement must
                # belong to the loop whose index selects the extent
                mism = []
                p = parent(n)
                while p is not None and p is not f.node:
                    if isinstance(p, ast.For) and isinstance(p.iter, ast.Call) and isinstance(p.iter.func, ast.Name) \
                            and p.iter.func.id == "enumerate" and isinstance(p.target, ast.Tuple) and len(p.target.elts) == 2 \
                            and isinstance(p.target.elts[0], ast.Name) and isinstance(p.target.elts[1], ast.Name):
                        k, elemv = p.target.elts[0].id, p.target.elts[1].id
                        used = any(isinstance(x, ast.Name) and x.id == elemv for x in ast.walk(st))
                        if used and k != idx:
                            mism.append((elemv, k))
                    p = parent(p)
                if mism:
                    col.bad(where_of(f), f.rel, line_of(n), construct,
                            f"signal extent selected with '{idx}' but the statement addresses '{mism[0][0]}', the element "
                            f"of the loop indexed by '{mism[0][1]}'")
                    continue
                col.ok(where_of(f), f.rel, line_of(n), construct, f"extent of signal '{idx}': [{idx}]:[{idx}+1]")
            elif isinstance(n, ast.Subscript) and not isinstance(n.slice, ast.Slice):
                inner = _index_of(n.slice, arrs)
                if inner is None:
                    pr = _pair_role(n.slice, arrs, f.node)
                    if pr is None or isinstance(parent(n), ast.Subscript) and False:
                        continue
                    # scalar pick x[start]: only where the partner bound says the signal holds one variable
                    from .common import dominating_tests
                    cfg = ctx.flow.cfg(f)
                    nd = cfg.node_of(n)
                    tests = [(t, pol) for t, pol in dominating_tests(cfg, nd)] if nd is not None else []
                    pp = parent(n)
                    while pp is not None and not isinstance(pp, ast.stmt):
                        if isinstance(pp, ast.IfExp):
                            if any(y is n for y in ast.walk(pp.body)):
                                tests.append((pp.test, True))
                            elif any(y is n for y in ast.walk(pp.orelse)):
                                tests.append((pp.test, False))
                        pp = parent(pp)

                    def len1(t):
                        # hi - lo == 1 / hi == lo + 1 with hi, lo the lockstep partners of the same loop
                        if not (isinstance(t, ast.Compare) and len(t.ops) == 1 and isinstance(t.ops[0], ast.Eq)):
                            return False
                        l, r = t.left, t.comparators[0]
                        for a, b in ((l, r), (r, l)):
                            if isinstance(a, ast.BinOp) and isinstance(a.op, ast.Sub) and norm(b) == "1":
                                ph, pl = _pair_role(a.left, arrs, f.node), _pair_role(a.right, arrs, f.node)
                                if ph and pl and ph[1] == "hi" and pl[1] == "lo" and ph[2] == pl[2] == pr[2] and norm(a.right) == norm(n.slice):
                                    return True
                        return False
                    if pr[1] == "lo" and any(len1(t) and pol for t, pol in tests):
                        col.ok(where_of(f), f.rel, line_of(n), stmt_key(n), "scalar pick under the length-1 guard")
                    else:
                        col.bad(where_of(f), f.rel, line_of(n), stmt_key(n),
                                f"single element picked at {U(n.slice)} without the guard that this signal holds exactly "
                                f"one variable")
                    continue
                # scalar pick x[c[i]]
                from .solver import guard_facts
                cfg = ctx.flow.cfg(f)
                nd = cfg.node_of(n)
                i = norm(inner[1])
                want = {f"{inner[0]}[{i}+1]-{inner[0]}[{i}]==1", f"{inner[0]}[{i}+1]=={inner[0]}[{i}]+1"}
                guard_ok = nd is not None and any(t in want and pol for t, pol in guard_facts(cfg, nd))
                # conditional expression form:  x[c[i]] if c[i+1]-c[i] == 1 else x[c[i]:c[i+1]]
                pp = parent(n)
                while pp is not None and not isinstance(pp, ast.stmt):
                    if isinstance(pp, ast.IfExp) and norm(pp.test) in want and any(y is n for y in ast.walk(pp.body)):
                        guard_ok = True
                    pp = parent(pp)
                if guard_ok:
                    col.ok(where_of(f), f.rel, line_of(n), stmt_key(n), "scalar pick under the length-1 guard")
                else:
                    col.bad(where_of(f), f.rel, line_of(n), stmt_key(n),
                            f"single element picked at {U(n.slice)} without the guard that this signal holds exactly "
                            f"one variable")
    dedupe(col)


# -------------------------------------------------------------------------------------------- DyadCarrier lints
@rule("R-EMPTY-IDX", floor=30, witness_min=0)
def r_empty_idx(ctx: RuleCtx, col: Collector):
    """DyadCarrier may hold zero dyads: a constant index into its vector lists (self.u[0]) must be dominated by a
    non-emptiness test."""
    m = ctx.model
    dc = m.public_class("DyadCarrier")
    for name, defs in sorted(dc.methods.items()):
        for f in defs:
            selfn = m.self_name(f)
            if not selfn:
                continue
            cfg = ctx.flow.cfg(f)
            bad = False
            for n in ast.walk(f.node):
                if isinstance(n, ast.Subscript) and isinstance(n.slice, ast.Constant) and isinstance(n.slice.value, int) \
                        and norm(n.value) in (f"{selfn}.u", f"{selfn}.v"):
                    nd = cfg.node_of(n)
                    guarded = False
                    for t in cfg.dominators().get(nd, ()) if nd is not None else ():
                        if t.kind == TEST and t.ast is not None and t is not nd:
                            tt = norm(t.ast)
                            if any(k in tt for k in (f"len({selfn}.u)", f"len({selfn}.v)", f"{selfn}.n_dyads")) or \
                                    tt in (f"{selfn}.u", f"{selfn}.v"):
                                guarded = True
                    if not guarded:
                        bad = True
                        col.bad(where_of(f), f.rel, line_of(n), stmt_key(enclosing_stmt(n)),
                                f"'{U(n)}' indexes a possibly empty vector list (a carrier with zero dyads is a valid zero "
                                f"matrix): IndexError")
            if not bad:
                col.ok(where_of(f), f.rel, line_of(f.node), f"DyadCarrier.{name}: no unguarded constant index", "")
    dedupe(col)


@rule("R-ACC-DTYPE", floor=4)
def r_acc_dtype(ctx: RuleCtx, col: Collector):
    """DyadCarrier: an array that accumulates over the stored dyads is allocated with a dtype derived from the
    carrier's dtype / np.result_type (not from one operand, which fails for real-u / complex-v mixtures)."""
    m = ctx.model
    dc = m.public_class("DyadCarrier")
    for name, defs in sorted(dc.methods.items()):
        for f in defs:
            selfn = m.self_name(f)
            if not selfn:
                continue
            for loop in [n for n in ast.walk(f.node) if isinstance(n, ast.For)]:
                it = norm(loop.iter)
                if f"{selfn}.u" not in it and f"{selfn}.v" not in it:
                    continue
                for st in ast.walk(loop):
                    if isinstance(st, ast.AugAssign) and isinstance(st.target, ast.Name):
                        acc = st.target.id
                        defs_ = [x.value for x in ast.walk(f.node) if isinstance(x, ast.Assign) and any(
                            isinstance(t, ast.Name) and t.id == acc for t in x.targets)]
                        for d in defs_:
                            construct = f"{acc} = {stmt_key(d)} accumulated in {f.short}"
                            # conditional expressions: judge every alternative
                            alts = [d.body, d.orelse] if isinstance(d, ast.IfExp) else [d]
                            for alt in alts:
                                if isinstance(alt, ast.Constant):
                                    col.ok(where_of(f), f.rel, line_of(d), construct, "Python scalar accumulator (upcasts)")
                                    continue
                                if isinstance(alt, ast.Call) and U(alt.func).split(".")[-1] in (
                                        "zeros", "empty", "ones", "zeros_like", "empty_like", "ones_like", "full"):
                                    dt = [k.value for k in alt.keywords if k.arg == "dtype"]
                                    txt = norm(dt[0]) if dt else ""
                                    derived = dt and (f"{selfn}.dtype" in txt or "result_type" in txt or
                                                      _name_derives_dtype(f, dt[0], selfn))
                                    if derived:
                                        col.ok(where_of(f), f.rel, line_of(d), construct, f"dtype={U(dt[0])}")
                                    else:
                                        col.bad(where_of(f), f.rel, line_of(d), construct,
                                                f"accumulator allocated as '{U(alt)}': its dtype does not derive from "
                                                f"the carrier's dtype / np.result_type, so a complex contribution "
                                                f"cannot be accumulated into it")
    dedupe(col)


def _name_derives_dtype(f: FuncInfo, e: ast.AST, selfn: str) -> bool:
    if not isinstance(e, ast.Name):
        return False
    for n in ast.walk(f.node):
        if isinstance(n, ast.Assign) and any(isinstance(t, ast.Name) and t.id == e.id for t in n.targets):
            t = norm(n.value)
            if f"{selfn}.dtype" in t or "result_type" in t:
                return True
    return False


# ------------------------------------------------------------------------------------- design vector by signal index
@rule("R-VEC-INDEX", floor=2)
def r_vec_index(ctx: RuleCtx, col: Collector):
    """The concatenated design vector is addressed through the cumulative-length array: inside a loop enumerating the
    variable signals, subscripting the vector by the bare signal index (x[i] instead of x[c[i]]) picks an entry of
    another signal whenever an array-valued variable precedes it."""
    m = ctx.model
    cum = _cum_exprs(ctx)
    helper_name = "_concatenate_to_array"
    for f in _functions(m):
        if f.qual not in cum or f.name == "_split_from_array":
            continue
        # names of concatenated vectors: first result of the helper and names assigned from those
        vecs: Set[str] = set()
        for n in ast.walk(f.node):
            if isinstance(n, ast.Assign) and isinstance(n.targets[0], ast.Tuple) and isinstance(n.value, ast.Call) and \
                    norm(n.value.func).endswith(helper_name):
                t0 = n.targets[0].elts[0]
                if isinstance(t0, ast.Name):
                    vecs.add(t0.id)
        changed = True
        while changed:
            changed = False
            for n in ast.walk(f.node):
                if isinstance(n, ast.Assign) and isinstance(n.value, ast.Name) and n.value.id in vecs:
                    for t in n.targets:
                        if isinstance(t, ast.Name) and t.id not in vecs:
                            vecs.add(t.id)
                            changed = True
                if isinstance(n, ast.Assign) and isinstance(n.targets[0], ast.Tuple) and isinstance(n.value, ast.Call) and \
                        any(isinstance(a, ast.Call) and isinstance(a.func, ast.Attribute) and a.func.attr == "copy"
                            and isinstance(a.func.value, ast.Name) and a.func.value.id in vecs for a in n.value.args):
                    t0 = n.targets[0].elts[0]
                    if isinstance(t0, ast.Name) and t0.id not in vecs:
                        vecs.add(t0.id)
                        changed = True
        if not vecs:
            continue
        for loop in [n for n in ast.walk(f.node) if isinstance(n, ast.For)]:
            it = loop.iter
            if isinstance(it, ast.Call) and isinstance(it.func, ast.Name) and it.func.id == "enumerate" \
                    and isinstance(loop.target, ast.Tuple) and isinstance(loop.target.elts[0], ast.Name):
                if "variables" not in norm(it.args[0]):
                    continue
                idx = loop.target.elts[0].id
            elif "variables" in norm(it) and not any(isinstance(x, ast.Call) and norm(x.func) == "enumerate" for x in ast.walk(it)):
                idx = None       # no signal index in scope: nothing to confuse with an offset
            else:
                continue
            n_ok = 0
            for x in ast.walk(loop):
                if isinstance(x, ast.Subscript) and isinstance(x.value, ast.Name) and x.value.id in vecs:
                    if isinstance(x.slice, ast.Name) and x.slice.id == idx:
                        col.bad(where_of(f), f.rel, line_of(x), stmt_key(x),
                                f"the concatenated design vector '{x.value.id}' is subscripted with the signal index '{idx}' "
                                f"instead of an offset from the cumulative-length array: with an array-valued variable in front, "
                                f"this is an entry of another signal")
                    else:
                        n_ok += 1
            col.ok(where_of(f), f.rel, line_of(loop), f"loop over variables at {stmt_key(loop.iter)} in {f.short}",
                   f"{n_ok} accesses of {sorted(vecs)} all through the cumulative-length array")
    dedupe(col)


# ----------------------------------------------------------------------------------------------- count rounding
@rule("R-COUNT-FLOOR", floor=2)
def r_count_floor(ctx: RuleCtx, col: Collector):
    """AggActiveSet removes the requested *fractions rounded down to whole entries*: every entry count is int(<size *
    fraction>) with no rounding function inside (int(round(.)) or ceil would remove an entry for fractions that round
    down to zero)."""
    m = ctx.model
    c = m.public_class("AggActiveSet")
    f = c.method("__call__")
    counts = []
    from .common import expand_names
    for n in ast.walk(f.node):
        if not (isinstance(n, ast.Assign) and isinstance(n.targets[0], ast.Name)):
            continue
        # a count: <number of entries> * <fraction attribute>; the number of entries may have been named beforehand
        ve = expand_names(f.node, n.value)
        if any((isinstance(x, ast.Attribute) and x.attr == "size") or (isinstance(x, ast.Call) and norm(x.func) == "len") for x in ast.walk(ve)) and \
                any(isinstance(x, ast.Attribute) and x.attr.endswith("_amt") for x in ast.walk(n.value)):
            counts.append(n)
    if len(counts) < 2:
        raise AnalysisError("AggActiveSet.__call__: entry counts not found")
    for n in counts:
        v = n.value
        inner_round = [x for x in ast.walk(v) if isinstance(x, ast.Call) and norm(x.func).split(".")[-1] in
                       ("round", "ceil", "rint", "around")]
        is_int = isinstance(v, ast.Call) and isinstance(v.func, ast.Name) and v.func.id == "int" or \
            (isinstance(v, ast.Call) and norm(v.func).endswith("floor")) or \
            (isinstance(v, ast.BinOp) and isinstance(v.op, ast.FloorDiv))
        if is_int and not inner_round:
            col.ok(where_of(f), f.rel, line_of(n), stmt_key(n), "truncation towards zero (rounds down for non-negative counts)")
        else:
            col.bad(where_of(f), f.rel, line_of(n), stmt_key(n),
                    f"the entry count is not the fraction rounded *down* ({'uses ' + norm(inner_round[0].func) if inner_round else 'no int()/floor'}): "
                    f"a fraction that should round to zero entries removes one")
    # the count selects *positions* in a sorted order (exactly n entries), not a cut-off value (ties change the number)
    for n in counts:
        cn = n.targets[0].id
        positional = threshold = None
        for x in ast.walk(f.node):
            if not isinstance(x, ast.Subscript) or cn not in {y.id for y in ast.walk(x.slice) if isinstance(y, ast.Name)}:
                continue
            base = x.value
            bdefs = [base]
            if isinstance(base, ast.Name):
                bdefs = [d.value for d in ast.walk(f.node) if isinstance(d, ast.Assign) and any(
                    isinstance(t, ast.Name) and t.id == base.id for t in d.targets)] or [base]
            txt = " ".join(norm(d) for d in bdefs)
            if any(k in txt for k in ("argsort(", "argpartition(")) and isinstance(x.slice, ast.Slice):
                positional = x
            elif any(k in txt for k in ("np.partition(", "np.sort(", "sorted(", ".sort(")) and not isinstance(x.slice, ast.Slice):
                threshold = x
        # ... or compares it with the *rank* of every entry (the inverse of the sorting permutation): rank >= n
        if positional is None and threshold is None:
            for x in ast.walk(f.node):
                if not (isinstance(x, ast.Compare) and len(x.ops) == 1 and cn in {y.id for y in ast.walk(x) if isinstance(y, ast.Name)}):
                    continue
                for side in [x.left] + list(x.comparators):
                    if isinstance(side, ast.Name) and side.id != cn:
                        inv = any(isinstance(d, ast.Assign) and isinstance(d.targets[0], ast.Subscript) and norm(d.targets[0].value) == side.id
                                  and "argsort(" in norm(d.targets[0].slice) and "arange(" in norm(d.value) for d in ast.walk(f.node)) or \
                            any(isinstance(d, ast.Assign) and norm(d.targets[0]) == side.id and
                                ("argsort(np.argsort(" in norm(d.value) or ".argsort().argsort()" in norm(d.value) or "rankdata(" in norm(d.value))
                                for d in ast.walk(f.node))
                        if inv:
                            positional = x
        construct = f"AggActiveSet: '{cn}' entries selected by position"
        if threshold is not None:
            col.bad(where_of(f), f.rel, line_of(threshold), construct,
                    f"'{norm(threshold)}' turns the count into a cut-off *value* that is then compared with the data: when "
                    f"values tie at the cut-off a different number of entries (possibly none) is removed than "
                    f"floor(n*fraction)")
        elif positional is not None:
            col.ok(where_of(f), f.rel, line_of(positional), construct,
                   (f"slice of the sorting permutation '{norm(positional)}'" if isinstance(positional, ast.Subscript)
                    else f"comparison with the rank of each entry '{norm(positional)}'"))
        else:
            raise AnalysisError(f"AggActiveSet.__call__: cannot tell how the count '{cn}' selects entries")


# ------------------------------------------------------------------------------------------------ None vs falsy
@rule("R-NONE-TRUTHY", floor=20)
def r_none_truthy(ctx: RuleCtx, col: Collector):
    """Package-wide: a parameter whose default is None ('not given') must be tested with `is None`, not by truthiness
    (`p or default`, `default if not p else p`): an explicitly chosen 0 / 0.0 / empty value would silently be replaced
    by the default."""
    m = ctx.model
    for f in _functions(m):
        opt = {p for p, d in f.defaults().items() if isinstance(d, ast.Constant) and d.value is None}
        if not opt:
            continue
        bad = False
        for n in ast.walk(f.node):
            hit = None
            if isinstance(n, ast.BoolOp) and isinstance(n.op, ast.Or) and isinstance(n.values[0], ast.Name) and \
                    n.values[0].id in opt and len(n.values) >= 2 and not isinstance(getattr(n, "_parent", None), (ast.If, ast.While)):
                hit = (n, n.values[0].id)
            if isinstance(n, ast.IfExp):
                t = n.test
                if isinstance(t, ast.Name) and t.id in opt and norm(n.body) == t.id:
                    hit = (n, t.id)
                if isinstance(t, ast.UnaryOp) and isinstance(t.op, ast.Not) and isinstance(t.operand, ast.Name) and \
                        t.operand.id in opt and norm(n.orelse) == t.operand.id:
                    hit = (n, t.operand.id)
            if isinstance(n, ast.If):
                # statement form:  if not p: p = <default>   /   if p: ... else: p = <default>
                t = n.test
                neg = isinstance(t, ast.UnaryOp) and isinstance(t.op, ast.Not)
                nm = t.operand if neg else t
                if isinstance(nm, ast.Name) and nm.id in opt:
                    branch = n.body if neg else n.orelse
                    if any(isinstance(b, ast.Assign) and len(b.targets) == 1 and norm(b.targets[0]) == nm.id for b in branch):
                        hit = (t, nm.id)
            if hit:
                bad = True
                col.bad(where_of(f), f.rel, line_of(hit[0]), stmt_key(hit[0]),
                        f"parameter '{hit[1]}' (default None) is tested by truthiness in '{U(hit[0])}': an explicitly given "
                        f"0 / 0.0 is treated as 'not given' and replaced by the default")
        if not bad:
            col.ok(where_of(f), f.rel, line_of(f.node), f"{f.short}: optional parameters {sorted(opt)}", "no truthiness default")
    dedupe(col)
