"""Rules added after the third round of independently seeded changes (DESIGN.md section 5).

Package-wide lints: R-ABS-TOL, R-SUM-ZERO, R-AXIS-ROLE, R-SIG-IDENTITY.
Driver / helper rules: R-STALE-LOOP, R-READ-COPY, R-CONCAT-FRESH, R-CUM-TOTAL, R-LAST-SCAN.
Class rules: R-SOLVER-FRESH, R-DYAD-BOTH, R-DERIVED-PARAM, R-MUST-DEP, R-DIAG-SHORTCUT, R-PAD-SLOT, R-SETTER-TOTAL,
R-FD-IMAG-GUARD, R-NAME-EXTEND."""
from __future__ import annotations

import ast
from typing import Callable, Dict, List, Optional, Set, Tuple

from ..cfg import STMT, TEST, FOR, CFG, Node
from ..model import stmt_key, AnalysisError, FuncInfo, parent
from ..report import rule, Collector
from .common import RuleCtx, where_of, line_of, dedupe, expand_names, untag
from .eff import _functions, module_methods
from .extra import norm, _names, _dependent_names

U = ast.unparse

CLASSIFIER_FILES = ("pymoto/solvers/matrix_checks.py", "pymoto/solvers/auto_determine.py")


def _fname(c: ast.Call) -> str:
    return c.func.attr if isinstance(c.func, ast.Attribute) else (c.func.id if isinstance(c.func, ast.Name) else "")


# ------------------------------------------------------------------------------------------- absolute tolerances
@rule("R-ABS-TOL", floor=0, witness_min=1)
def r_abs_tol(ctx: RuleCtx, col: Collector):
    """No decision is taken with np.isclose / np.allclose / math.isclose and their default *absolute* tolerance (1e-8):
    such a test is not scale invariant - data of small magnitude or small relative spread is treated as equal / zero
    (a well-conditioned matrix in small units was classified as diagonal).  Accepted: an explicit atol=0 (purely
    relative comparison); a result that only decides whether a warning is built; branches for the optional cvxopt
    matrix type are not judged."""
    from .solver import guard_facts
    m = ctx.model
    for f in _functions(m):
        cfg = None
        for n in ast.walk(f.node):
            if isinstance(n, ast.Call) and _fname(n) in ("isclose", "allclose"):
                atol = [k.value for k in n.keywords if k.arg in ("atol", "abs_tol")]
                if atol and isinstance(atol[0], ast.Constant) and atol[0].value == 0:
                    col.ok(where_of(f), f.rel, line_of(n), norm(n), "purely relative comparison (atol=0)")
                    continue
                # branch for the optional cvxopt matrix type (not installed here): not judged
                st = n
                while not isinstance(st, ast.stmt):
                    st = parent(st)
                cfg = cfg or ctx.flow.cfg(f)
                nd = cfg.node_of(st)
                if nd is not None and any("cvxopt" in t and pol for t, pol in guard_facts(cfg, nd)):
                    col.assume(f"{f.short}: tolerance test in the cvxopt branch (optional back-end, not installed) is not judged")
                    continue
                # a result that only decides whether a warning object is built has no effect on any value
                if isinstance(st, ast.Assign) and len(st.targets) == 1 and isinstance(st.targets[0], ast.Name):
                    nm = st.targets[0].id
                    uses = [x for x in ast.walk(f.node) if isinstance(x, ast.Name) and x.id == nm and isinstance(x.ctx, ast.Load)]
                    harmless = bool(uses)
                    for u in uses:
                        p_ = parent(u)
                        if isinstance(p_, ast.If) and p_.test is u and not any(
                                isinstance(y, (ast.Return, ast.Assign, ast.AugAssign, ast.Raise)) for b in p_.body + p_.orelse for y in ast.walk(b)):
                            continue
                        if isinstance(p_, ast.Compare) and isinstance(parent(p_), ast.If) and norm(p_).endswith("isNone"):
                            continue
                        harmless = False
                    if harmless:
                        col.benign(where_of(f), f.rel, line_of(n), norm(n), f"'{nm}' only decides whether a warning is issued")
                        continue
                col.bad(where_of(f), f.rel, line_of(n), norm(n),
                        f"'{norm(n)}' compares with an absolute tolerance ({'default 1e-8' if not atol else U(atol[0])}): the "
                        f"outcome depends on the scale of the data (values around 1e-9, or a spread below 1e-5 of the mean, "
                        f"count as equal), which the property quantifies over")
    dedupe(col)


# ------------------------------------------------------------------------------------------- signed sums as zero tests
def _nonneg(e: ast.AST) -> bool:
    t = norm(e)
    if any(k in t for k in ("abs(", "np.abs(", "np.absolute(", "**2", "np.square(", "!=0", "==0", ">0", "<0", "np.isnan(", "np.isfinite(", "np.logical_")):
        return True
    if isinstance(e, ast.Compare):
        return True
    if isinstance(e, ast.BinOp) and isinstance(e.op, ast.Mult) and norm(e.left) == norm(e.right):
        return True
    return False


@rule("R-SUM-ZERO", floor=0, witness_min=1)
def r_sum_zero(ctx: RuleCtx, col: Collector):
    """A signed sum / mean is never used as a test for "all entries are zero": `np.sum(x) != 0`, `x.sum(axis=0) == 0`
    cancel for data of mixed sign (a seed e_i - e_j, loads that balance), so columns that carry data are skipped.
    Accepted: sums of absolute values, squares, booleans; norms; np.any / np.count_nonzero."""
    m = ctx.model
    for f in _functions(m):
        if f.rel in CLASSIFIER_FILES:
            continue
        for n in ast.walk(f.node):
            if not isinstance(n, ast.Compare) or len(n.ops) != 1 or not isinstance(n.ops[0], (ast.Eq, ast.NotEq)):
                continue
            if isinstance(parent(n), ast.Compare):
                continue
            for side, other in ((n.left, n.comparators[0]), (n.comparators[0], n.left)):
                if not (isinstance(other, ast.Constant) and other.value in (0, 0.0)):
                    continue
                arg = None
                extreme = None
                if isinstance(side, ast.Call):
                    fn = norm(side.func)
                    if fn in ("np.sum", "np.mean", "np.average", "np.nansum", "sum") and side.args:
                        arg = side.args[0]
                    elif isinstance(side.func, ast.Attribute) and side.func.attr in ("sum", "mean") and not norm(side.func.value) in ("np", "numpy"):
                        arg = side.func.value
                    elif fn in ("np.max", "np.min", "np.amax", "np.amin") and side.args:
                        arg, extreme = side.args[0], fn[-3:]
                    elif isinstance(side.func, ast.Attribute) and side.func.attr in ("max", "min") and not norm(side.func.value) in ("np", "numpy"):
                        arg, extreme = side.func.value, side.func.attr
                if arg is None:
                    continue
                if extreme is not None:
                    # max(x) == 0 is an all-zero test only together with min(x) == 0 (or for non-negative x)
                    other_ext = "min" if extreme == "max" else "max"
                    ctxt = n
                    while isinstance(parent(ctxt), (ast.BoolOp, ast.UnaryOp)):
                        ctxt = parent(ctxt)
                    t = norm(ctxt)
                    a = norm(arg)
                    if _nonneg(arg) or f"{a}.{other_ext}()" in t or f"np.{other_ext}({a})" in t or f"np.a{other_ext}({a})" in t:
                        col.ok(where_of(f), f.rel, line_of(n), norm(n), "both extremes tested / non-negative data")
                    elif isinstance(n.ops[0], ast.Eq):
                        col.bad(where_of(f), f.rel, line_of(n), norm(n),
                                f"'{norm(side)} == 0' alone does not say that all entries are zero: data that is non-"
                                f"{'positive' if extreme == 'max' else 'negative'} with one exact zero passes the test (a seed of "
                                f"one sign), so non-zero data is skipped")
                    continue
                if _nonneg(arg):
                    col.ok(where_of(f), f.rel, line_of(n), norm(n), "sum of non-negative terms")
                else:
                    col.bad(where_of(f), f.rel, line_of(n), norm(n),
                            f"'{norm(side)}' is a signed sum: it is 0 for non-zero data whose entries cancel, so this test "
                            f"mistakes such data for 'nothing there' (use np.any, a norm, or count_nonzero)")
    dedupe(col)


# ------------------------------------------------------------------------------------------- reduction axis vs index role
REDUCERS = {"norm", "sum", "mean", "average", "max", "min", "amax", "amin", "any", "all", "prod", "count_nonzero", "std", "var",
            "nansum", "nanmax", "nanmin", "argmax", "argmin"}


@rule("R-AXIS-ROLE", floor=0, witness_min=1)
def r_axis_role(ctx: RuleCtx, col: Collector):
    """A per-column (per-row) quantity is reduced over the other axis: when `X[:, i]` addresses item i of a 2-D array and
    a reduction of X is later indexed with the same i, the reduction must run over axis 0 (and over axis 1 for
    `X[i, :]`).  For square arrays the wrong axis raises no shape error."""
    m = ctx.model
    for f in _functions(m):
        # (array, index var) -> axis addressed by the index var
        roles: Dict[Tuple[str, str], int] = {}
        for n in ast.walk(f.node):
            if isinstance(n, ast.Subscript) and isinstance(n.value, ast.Name) and isinstance(n.slice, ast.Tuple) and len(n.slice.elts) == 2:
                a, b = n.slice.elts
                full = lambda s: isinstance(s, ast.Slice) and s.lower is None and s.upper is None and s.step is None  # noqa: E731
                if (full(a) or isinstance(a, ast.Constant) and a.value is Ellipsis) and isinstance(b, ast.Name):
                    roles[(n.value.id, b.id)] = 1
                elif isinstance(a, ast.Name) and full(b):
                    roles[(n.value.id, a.id)] = 0
        if not roles:
            continue
        # names defined (element-wise) from a reduction of X over a constant axis
        red: Dict[str, Tuple[str, int, ast.AST]] = {}
        for n in ast.walk(f.node):
            if isinstance(n, ast.Assign) and len(n.targets) == 1 and isinstance(n.targets[0], ast.Name):
                for c in ast.walk(n.value):
                    if isinstance(c, ast.Call) and _fname(c) in REDUCERS:
                        ax = [k.value for k in c.keywords if k.arg == "axis"]
                        arr = c.args[0] if c.args and not (isinstance(c.func, ast.Attribute) and isinstance(c.func.value, ast.Name)
                                                           and c.func.value.id not in ("np", "numpy", "linalg")) else (
                            c.func.value if isinstance(c.func, ast.Attribute) else None)
                        if isinstance(c.func, ast.Attribute) and isinstance(c.func.value, ast.Attribute) and c.args:
                            arr = c.args[0]      # np.linalg.norm(X, axis=..)
                        if ax and isinstance(ax[0], ast.Constant) and ax[0].value in (0, 1, -1) and isinstance(arr, ast.Name):
                            red[n.targets[0].id] = (arr.id, 1 if ax[0].value in (1, -1) else 0, c)
        for n in ast.walk(f.node):
            if isinstance(n, ast.Subscript) and isinstance(n.value, ast.Name) and n.value.id in red and isinstance(n.slice, ast.Name):
                arr, ax, call = red[n.value.id]
                role = roles.get((arr, n.slice.id))
                if role is None:
                    continue
                construct = f"{f.short}: '{norm(call)}' indexed by '{n.slice.id}'"
                if ax == role:
                    col.bad(where_of(f), f.rel, line_of(call), construct,
                            f"'{n.slice.id}' addresses axis {role} of '{arr}' ({arr}[{':, ' if role else ''}{n.slice.id}{'' if role else ', :'}]) "
                            f"but the reduction runs over that very axis (axis={ax}), so entry {n.slice.id} of the result belongs "
                            f"to {'row' if role else 'column'} {n.slice.id}, not to item {n.slice.id}")
                else:
                    col.ok(where_of(f), f.rel, line_of(call), construct, f"reduced over the other axis ({ax})")
    dedupe(col)


# ------------------------------------------------------------------------------------------- signal identity
@rule("R-SIG-IDENTITY", floor=0, witness_min=1)
def r_sig_identity(ctx: RuleCtx, col: Collector):
    """A module's result for input k is computed from position k: no _response/_sensitivity looks signals up by
    identity (`sig in self.sig_in[:k]`, `self.sig_in.index(sig)`, `a is b` between its own signals) - the same Signal
    object may legitimately occupy several positions with different roles."""
    m = ctx.model
    for c, f in module_methods(ctx, "_sensitivity") + module_methods(ctx, "_response"):
        if f.cls is not c and f.cls is not None and f.cls.name != c.name and not f.rel.endswith("_pmlint_witness.py"):
            pass
        selfn = m.self_name(f)
        sigs = (f"{selfn}.sig_in", f"{selfn}.sig_out")
        for n in ast.walk(f.node):
            hit = None
            if isinstance(n, ast.Compare) and any(isinstance(o, (ast.In, ast.NotIn, ast.Is, ast.IsNot)) for o in n.ops):
                parts = [n.left] + list(n.comparators)
                if sum(1 for p in parts if norm(p).startswith(sigs)) >= 2:
                    hit = n
            if isinstance(n, ast.Call) and isinstance(n.func, ast.Attribute) and n.func.attr in ("index", "count") and norm(n.func.value).startswith(sigs):
                hit = n
            if hit is not None:
                col.bad(where_of(f), f.rel, line_of(hit), norm(hit),
                        f"'{norm(hit)}' keys the computation on the identity of a signal: a Signal that occupies two positions "
                        f"(x^T A x) has a different role in each, so a result looked up by identity belongs to another position")
    dedupe(col)


# ------------------------------------------------------------------------------------------- stale loop tests
def _defs_in(fn: ast.AST) -> Dict[str, List[ast.AST]]:
    out: Dict[str, List[ast.AST]] = {}
    for n in ast.walk(fn):
        tg, val = [], None
        if isinstance(n, ast.Assign):
            tg, val = n.targets, n
        elif isinstance(n, ast.AugAssign):
            tg, val = [n.target], n
        for t in tg:
            for x in ast.walk(t):
                if isinstance(x, ast.Name) and isinstance(x.ctx, ast.Store):
                    out.setdefault(x.id, []).append(val)
    return out


@rule("R-STALE-LOOP", floor=1)
def r_stale_loop(ctx: RuleCtx, col: Collector):
    """Iterative drivers (MMA sub-problem solver, CG, OC bisection): a `while` test reads quantities that are
    up to date with respect to the variables the loop nest changes.  If a name in the test is computed from variable v,
    then on every path from a statement that changes v to the test, the name is recomputed (typestate
    synced/stale over the CFG).  A residual evaluated once in front of a loop whose body lowers the barrier parameter
    is stale at the next test."""
    m = ctx.model
    targets: List[FuncInfo] = []
    for f in _functions(m):
        if f.rel in ("pymoto/common/mma.py", "pymoto/routines.py", "pymoto/solvers/iterative.py", "pymoto/_pmlint_witness.py"):
            if any(isinstance(n, ast.While) for n in ast.walk(f.node)):
                targets.append(f)
    for f in targets:
        defs = _defs_in(f.node)
        cfg = ctx.flow.cfg(f)
        for w in [n for n in ast.walk(f.node) if isinstance(n, ast.While)]:
            tnames = _names(w.test)
            for r in sorted(tnames):
                rdefs = [d for d in defs.get(r, []) if isinstance(d, ast.Assign)]
                if not rdefs:
                    continue
                # inputs of r: transitive closure over single-assignment chains (names r's definitions read)
                inputs: Set[str] = set()
                work = [r]
                seen = set()
                recurrent = False
                while work:
                    nm = work.pop()
                    if nm in seen:
                        continue
                    seen.add(nm)
                    for d in defs.get(nm, []):
                        if isinstance(d, ast.Assign):
                            for x in _names(d.value):
                                if x == r and nm != r:
                                    recurrent = True      # r <- ... <- nm <- r: r is loop-carried state, not a derived value
                                if x != nm:
                                    inputs.add(x)
                                    work.append(x)
                if recurrent:
                    # an iterate (bisection bracket, running solution): each pass advances it from its own previous value;
                    # the notion "computed from v, so stale when v changes" applies to derived quantities only
                    continue
                # statements inside the loop nest rooted at the outermost enclosing loop that change an input *directly*
                outer = w
                p = parent(w)
                while p is not None and p is not f.node:
                    if isinstance(p, (ast.While, ast.For)):
                        outer = p
                    p = parent(p)
                changers = []
                for n in ast.walk(outer):
                    tg = None
                    if isinstance(n, ast.AugAssign) and isinstance(n.target, ast.Name):
                        tg = n.target.id
                    elif isinstance(n, ast.Assign) and len(n.targets) == 1 and isinstance(n.targets[0], ast.Name):
                        tg = n.targets[0].id
                    if tg and tg in inputs and tg != r and tg not in seen_chain(defs, r, tg):
                        changers.append((n, tg))
                test_nodes = [nd for nd in cfg.simple_nodes() if nd.kind == TEST and nd.ast is w.test]
                if not test_nodes:
                    continue
                tn = test_nodes[0]
                rdef_nodes = [cfg.node_of(d) for d in defs.get(r, [])]
                rdef_nodes = [x for x in rdef_nodes if x is not None]
                # every name on the chain from the changed input to r must be recomputed: approximate by requiring a
                # definition of r itself on every path changer -> test
                stale = None
                n_ok = 0
                for ch, v in changers:
                    cn = cfg.node_of(ch)
                    if cn is None or tn not in cfg.reachable([cn]):
                        continue
                    path = cfg.find_path(cn, tn, blocked=rdef_nodes)
                    if path is None:
                        n_ok += 1
                    elif stale is None:
                        stale = (ch, v)
                construct = f"{f.short}: 'while {norm(w.test)[:50]}' reads '{r}'"
                if stale is not None:
                    ch, v = stale
                    col.bad(where_of(f), f.rel, line_of(ch), construct,
                            f"'{r}' depends on '{v}', which '{stmt_key(ch)}' changes, but there is a path back to the loop test on "
                            f"which '{r}' is not recomputed: the test then decides on a value that belongs to the old '{v}' (e.g. a "
                            f"residual of the previous barrier level)")
                elif n_ok:
                    col.ok(where_of(f), f.rel, line_of(w), construct, f"recomputed on every path from the {n_ok} statement(s) that change its inputs")
    dedupe(col)


def seen_chain(defs, r, v) -> Set[str]:
    """names that are (re)defined from r itself (loop-carried accumulators of r) - not treated as independent inputs."""
    out = set()
    for d in defs.get(v, []):
        if r in _names(d.value if isinstance(d, ast.Assign) else d.value):
            out.add(v)
    return out


# ------------------------------------------------------------------------------------------- views of sensitivities
VIEW_ATTRS = {"T", "real", "imag", "flat", "mT"}
VIEW_METHODS = {"reshape", "ravel", "view", "squeeze", "transpose", "swapaxes", "diagonal"}
VIEW_FUNCS = {"np.asarray", "np.asanyarray", "np.reshape", "np.ravel", "np.atleast_1d", "np.atleast_2d", "np.squeeze",
              "np.transpose", "np.real", "np.imag", "np.ascontiguousarray", "np.broadcast_to"}


def _view_tainted(e: ast.AST, tainted: Set[str], is_source: Callable[[ast.AST], bool]) -> bool:
    if is_source(e):
        return True
    if isinstance(e, ast.Name):
        return e.id in tainted
    if isinstance(e, ast.Attribute):
        return e.attr in VIEW_ATTRS and _view_tainted(e.value, tainted, is_source)
    if isinstance(e, ast.Subscript):
        if isinstance(e.slice, (ast.List, ast.ListComp)):
            return False
        return _view_tainted(e.value, tainted, is_source)
    if isinstance(e, ast.Call):
        if norm(e.func) in VIEW_FUNCS and e.args:
            return _view_tainted(e.args[0], tainted, is_source)
        if isinstance(e.func, ast.Attribute) and e.func.attr in VIEW_METHODS:
            return _view_tainted(e.func.value, tainted, is_source)
        return False
    if isinstance(e, ast.IfExp):
        return _view_tainted(e.body, tainted, is_source) or _view_tainted(e.orelse, tainted, is_source)
    if isinstance(e, (ast.Tuple, ast.List)):
        return any(_view_tainted(x, tainted, is_source) for x in e.elts)
    if isinstance(e, ast.Starred):
        return _view_tainted(e.value, tainted, is_source)
    if isinstance(e, ast.BinOp) and isinstance(e.op, ast.Add) and (isinstance(e.left, (ast.Tuple, ast.List)) or isinstance(e.right, (ast.Tuple, ast.List))):
        return _view_tainted(e.left, tainted, is_source) or _view_tainted(e.right, tainted, is_source)
    return False


def _taint_names(fn: ast.AST, is_source) -> Dict[str, ast.AST]:
    """name -> first statement that makes it (a container of) a view of a source."""
    tainted: Dict[str, ast.AST] = {}
    changed = True
    while changed:
        changed = False
        for n in ast.walk(fn):
            tg, val = [], None
            if isinstance(n, ast.Assign):
                tg, val = n.targets, n.value
            elif isinstance(n, ast.AugAssign) and isinstance(n.op, ast.Add):
                tg, val = [n.target], n.value
            elif isinstance(n, ast.Expr) and isinstance(n.value, ast.Call) and isinstance(n.value.func, ast.Attribute) and \
                    n.value.func.attr in ("append", "extend", "insert") and isinstance(n.value.func.value, ast.Name) and n.value.args:
                tg, val = [n.value.func.value], n.value.args[-1]
            elif isinstance(n, ast.For):
                tg, val = [n.target], n.iter
            if val is None:
                continue
            if _view_tainted(val, set(tainted), is_source):
                for t in tg:
                    for x in ast.walk(t):
                        if isinstance(x, ast.Name) and x.id not in tainted:
                            tainted[x.id] = n
                            changed = True
    return tainted


def _own_exprs(nd: Node) -> List[ast.AST]:
    """The expressions evaluated at the CFG node itself (a FOR node evaluates its iterable, not its body)."""
    if nd.ast is None:
        return []
    if nd.kind == FOR:
        return [nd.ast.iter]
    if isinstance(nd.ast, (ast.With,)):
        return [i.context_expr for i in nd.ast.items]
    if isinstance(nd.ast, (ast.If, ast.While)):
        return [nd.ast.test]
    if isinstance(nd.ast, (ast.Try, ast.FunctionDef, ast.ClassDef)):
        return []
    return [nd.ast]


def _is_sens_read(e: ast.AST) -> bool:
    return isinstance(e, ast.Attribute) and e.attr == "sensitivity" and isinstance(e.ctx, ast.Load)


@rule("R-READ-COPY", floor=2)
def r_read_copy(ctx: RuleCtx, col: Collector):
    """The optimisation drivers gather sensitivities per response and reset the network in between: whatever they keep
    across a reset()/sensitivity() call is a copy, never a view of a signal's sensitivity array (a buffer that reset
    zeroes in place, or that the next backward pass accumulates into)."""
    m = ctx.model
    drivers = [m.resolve_method(m.public_class("MMA"), "response"), m.public_function("minimize_oc")]
    for f in drivers:
        if f is None:
            raise AnalysisError("driver not found")
        cfg = ctx.flow.cfg(f)
        tainted = _taint_names(f.node, _is_sens_read)
        clobber = [nd for nd in cfg.simple_nodes() if nd.ast is not None and nd.kind == STMT and any(
            isinstance(x, ast.Call) and isinstance(x.func, ast.Attribute) and x.func.attr in ("reset", "sensitivity")
            for ex in _own_exprs(nd) for x in ast.walk(ex))]
        if not clobber:
            raise AnalysisError(f"{f.short}: no reset()/sensitivity() call found")
        n_bad = 0
        for name, at in sorted(tainted.items()):
            an = cfg.node_of(at) if isinstance(at, ast.stmt) else None
            if an is None:
                continue
            for cl in clobber:
                if cl not in cfg.reachable([an]) or cl is an:
                    continue
                # a use of the name after the clobbering call, without an intervening redefinition
                redefs = [cfg.node_of(d) for d in _defs_in(f.node).get(name, []) if isinstance(d, ast.Assign) and
                          not _view_tainted(d.value, set(tainted), _is_sens_read)]
                redefs = [x for x in redefs if x is not None]
                for nd in cfg.reachable([cl], blocked=redefs):
                    if nd is cl or nd.ast is None:
                        continue
                    # the statement that only extends the container is not a use of its content
                    uses = [x for ex in _own_exprs(nd) for x in ast.walk(ex) if isinstance(x, ast.Name) and x.id == name and isinstance(x.ctx, ast.Load)]
                    if not uses or nd is an:
                        continue
                    if isinstance(nd.ast, ast.AugAssign) and isinstance(nd.ast.target, ast.Name) and nd.ast.target.id == name:
                        continue
                    if isinstance(nd.ast, ast.Expr) and isinstance(nd.ast.value, ast.Call) and isinstance(nd.ast.value.func, ast.Attribute) \
                            and nd.ast.value.func.attr in ("append", "extend") and norm(nd.ast.value.func.value) == name:
                        continue
                    n_bad += 1
                    col.bad(where_of(f), f.rel, line_of(at), f"{f.short}: '{name}' kept across '{stmt_key(cl.ast)}'",
                            f"'{stmt_key(at)}' makes '{name}' (a container of) a *view* of a signal's sensitivity; it is still used "
                            f"at line {line_of(nd.ast)} after '{stmt_key(cl.ast)}', which zeroes / overwrites that array in place when "
                            f"the signal re-uses its buffer (sliced or pre-allocated sensitivities): all gathered gradients alias "
                            f"one array")
                    break
                else:
                    continue
                break
        if n_bad == 0:
            col.ok(where_of(f), f.rel, line_of(f.node), f"{f.short}: nothing kept across reset()/sensitivity() views a sensitivity",
                   f"{len(tainted)} view name(s), {len(clobber)} clobbering call(s)")
    dedupe(col)


@rule("R-CONCAT-FRESH", floor=2)
def r_concat_fresh(ctx: RuleCtx, col: Collector):
    """The helper that concatenates the variables' states / sensitivities into one design vector returns fresh memory
    on every path (never one of its inputs, not even when there is only one), and records the end offset of every entry,
    empty ones included: the drivers write the signals' states back from that vector and compare old and new designs."""
    m = ctx.model
    f = None
    for g in _functions(m):
        if g.name == "_concatenate_to_array":
            f = g
    if f is None:
        raise AnalysisError("_concatenate_to_array not found")
    p = f.pos_params()[0]

    def src(e):
        return isinstance(e, ast.Name) and e.id == p
    tainted = _taint_names(f.node, src)
    bad = False
    for r in [n for n in ast.walk(f.node) if isinstance(n, ast.Return) and n.value is not None]:
        first = r.value.elts[0] if isinstance(r.value, ast.Tuple) and r.value.elts else r.value
        if _view_tainted(first, set(tainted), src):
            bad = True
            col.bad(where_of(f), f.rel, line_of(r), f"{f.short}: '{stmt_key(r)}' returns fresh memory",
                    f"'{norm(first)}' is (a view of) an element of the argument list: the design vector then aliases a signal's "
                    f"state, and writing the new design back overwrites the 'old' design it is compared with")
    if not bad:
        col.ok(where_of(f), f.rel, line_of(f.node), f"{f.short}: returns fresh memory", "no return value views an input")
    # every iteration records its end offset ... or the offsets are formed in one go as the running sum of all entry sizes
    for n in ast.walk(f.node):
        if isinstance(n, ast.Call) and norm(n.func).split(".")[-1] == "cumsum" and n.args:
            a0 = n.args[0]
            comp_ok = isinstance(a0, (ast.ListComp, ast.GeneratorExp)) and len(a0.generators) == 1 and not a0.generators[0].ifs and \
                any(k in norm(a0.elt) for k in (".size", "len(", "np.size("))
            if comp_ok:
                col.ok(where_of(f), f.rel, line_of(n), f"{f.short}: every entry records its end offset '{norm(n)[:60]}'",
                       "offsets are the running sum over the sizes of all entries (no entry can be skipped)")
                return
            # a running sum over sizes collected per entry in the loop: judged below (the per-entry store of the size)
    cfg = ctx.flow.cfg(f)
    loops = [nd for nd in cfg.simple_nodes() if nd.kind == FOR]
    if not loops:
        raise AnalysisError(f"{f.short}: loop over the entries not found")
    lp = loops[0]
    stores = [nd for nd in cfg.simple_nodes() if nd.kind == STMT and isinstance(nd.ast, ast.Assign) and
              isinstance(nd.ast.targets[0], ast.Subscript) and any(isinstance(x, ast.Name) and x.id in _names(lp.ast.target) for x in ast.walk(nd.ast.targets[0].slice))]
    if not stores:
        raise AnalysisError(f"{f.short}: offset store not found")
    body_first = [s for s, lab in lp.succ if lab in ("T", "body", "iter")] or [s for s, lab in lp.succ][:1]
    skip = None
    for b in body_first:
        if b is cfg.exit:
            continue
        pth = cfg.find_path(b, lp, blocked=stores)
        if pth is not None and not any(nd.ast is not None and isinstance(nd.ast, ast.Raise) for nd in pth):
            skip = pth
    construct = f"{f.short}: every entry records its end offset '{stmt_key(stores[0].ast)}'"
    if skip is None:
        col.ok(where_of(f), f.rel, line_of(stores[0].ast), construct, "on every path through the loop body")
    else:
        col.bad(where_of(f), f.rel, line_of(stores[0].ast), construct,
                f"an iteration can reach the next one without storing the offset (e.g. via line "
                f"{[line_of(nd.ast) for nd in skip if nd.ast is not None][:3]}): the offset of that entry stays 0, so the "
                f"extent of the following signal starts at 0 and covers other signals' values")


# ------------------------------------------------------------------------------------------- last-index scans
def _scan_direction(it: ast.AST) -> Optional[str]:
    """'fwd' / 'rev' for the iteration orders a positional scan uses; None when not recognised"""
    t = norm(it)
    if t.startswith(("reversed(", "list(reversed(")) or t.endswith("[::-1]") or t.endswith(",-1,-1)") or t.endswith("[::-1])"):
        return "rev"
    if t.startswith(("enumerate(", "range(")) or isinstance(it, (ast.Name, ast.Attribute)):
        return "fwd"
    return None


@rule("R-LAST-SCAN", floor=1)
def r_last_scan(ctx: RuleCtx, col: Collector):
    """finite_difference locates the sub-chain of a Network as [first module reading an input ... LAST module writing
    an output] and evaluates `mods[first:last+1]`: the index used as the upper bound is that of the last match - found
    by a forward scan that visits every module and keeps overwriting (no break, no 'only if unset' guard), or by the
    first hit of a reversed scan."""
    m = ctx.model
    f0 = m.public_function("finite_difference")
    # finite_difference and the private helpers of its module it calls
    funcs = [f0]
    seen = {f0.qual}
    i = 0
    while i < len(funcs):
        for x in ast.walk(funcs[i].node):
            if isinstance(x, ast.Call) and isinstance(x.func, ast.Name):
                g = f0.module.functions.get(x.func.id)
                if g is not None and g.qual not in seen:
                    seen.add(g.qual)
                    funcs.append(g)
        i += 1
    n_found = 0
    for f in funcs:
        uppers = []
        for x in ast.walk(f.node):
            # <modules>[lo : hi + 1] handed to a Network(...)
            if isinstance(x, ast.Call) and norm(x.func).split(".")[-1] == "Network" and x.args and isinstance(x.args[0], ast.Subscript) \
                    and isinstance(x.args[0].slice, ast.Slice) and x.args[0].slice.upper is not None:
                up = x.args[0].slice.upper
                if isinstance(up, ast.BinOp) and isinstance(up.op, ast.Add) and isinstance(up.left, ast.Name) and norm(up.right) == "1":
                    uppers.append((up.left.id, x))
        for name, site in uppers:
            n_found += 1
            construct = f"finite_difference: index '{name}' of the last module of the sub-chain"
            verdicts = []
            for st in ast.walk(f.node):
                if not isinstance(st, ast.Assign):
                    continue
                tg = st.targets[0]
                if isinstance(tg, ast.Tuple) and isinstance(st.value, ast.Tuple) and len(tg.elts) == len(st.value.elts):
                    pairs = list(zip(tg.elts, st.value.elts))
                else:
                    pairs = [(tg, st.value)]
                for t, v in pairs:
                    if not (isinstance(t, ast.Name) and t.id == name):
                        continue
                    if isinstance(v, ast.Constant) or (isinstance(v, ast.UnaryOp) and isinstance(v.operand, ast.Constant)):
                        continue        # the 'not found' initial value
                    lp = parent(st)
                    while lp is not None and lp is not f.node and not isinstance(lp, (ast.For, ast.While)):
                        lp = parent(lp)
                    if isinstance(lp, ast.For):
                        d = _scan_direction(lp.iter)
                        first_only = False
                        g = parent(st)
                        while g is not lp and g is not None:
                            if isinstance(g, ast.If) and name in _names(g.test):
                                first_only = True
                            g = parent(g)
                        brk = [y for b in lp.body for y in ast.walk(b) if isinstance(y, ast.Break)]
                        if d == "fwd":
                            if brk:
                                verdicts.append((False, brk[0], f"'{name}' must end up as the index of the LAST matching module, but the "
                                                 f"forward scan is left by a break: modules producing the remaining outputs fall outside "
                                                 f"the evaluated sub-network and report 0 = 0"))
                            elif first_only:
                                verdicts.append((False, st, f"'{name}' is only recorded while unset in a forward scan: it is the FIRST "
                                                 f"matching module, later modules producing outputs fall outside the evaluated sub-network"))
                            else:
                                verdicts.append((True, lp, "the forward scan visits every module and keeps the last match"))
                        elif d == "rev":
                            if brk or first_only:
                                verdicts.append((True, lp, "first match of a reversed scan"))
                            else:
                                verdicts.append((False, st, f"'{name}' is overwritten throughout a reversed scan: it ends up as the "
                                                 f"FIRST matching module, not the last"))
                        else:
                            raise AnalysisError(f"finite_difference: order of the scan '{norm(lp.iter)}' not recognised")
                    elif isinstance(v, ast.Call) and norm(v.func) in ("next", "max", "min") and v.args and isinstance(v.args[0], ast.GeneratorExp):
                        ge = v.args[0]
                        d = _scan_direction(ge.generators[0].iter)
                        fn = norm(v.func)
                        if fn == "max":
                            verdicts.append((True, st, "largest matching index"))
                        elif fn == "min":
                            verdicts.append((False, st, f"'{name}' is the smallest matching index: the FIRST matching module, not the last"))
                        elif d == "rev":
                            verdicts.append((True, st, "first match of a reversed scan"))
                        elif d == "fwd":
                            verdicts.append((False, st, f"'{name}' is the first match of a forward scan: the FIRST matching module, "
                                             f"not the last; later modules producing outputs fall outside the evaluated sub-network"))
                        else:
                            raise AnalysisError(f"finite_difference: order of the scan '{norm(ge.generators[0].iter)}' not recognised")
                    else:
                        raise AnalysisError(f"finite_difference: definition '{stmt_key(st)}' of the sub-chain end not recognised")
            if not verdicts:
                raise AnalysisError(f"finite_difference: no definition of the sub-chain end '{name}' found")
            for okv, at, msg in verdicts:
                if okv:
                    col.ok(where_of(f), f.rel, line_of(at), construct, msg)
                else:
                    col.bad(where_of(f), f.rel, line_of(at), construct, msg)
    if n_found == 0:
        raise AnalysisError("finite_difference: sub-chain construction Network(mods[first:last+1]) not recognised")


# ------------------------------------------------------------------------------------------- solver typestate
@rule("R-SOLVER-FRESH", floor=8)
def r_solver_fresh(ctx: RuleCtx, col: Collector):
    """What solve() reads is what the *latest* update() produced: every attribute that update() assigns on some path and
    that solve() reads is assigned on every normal path of update() (exception handlers included).  An attribute that
    only the failure branch writes keeps the outcome of an earlier matrix.  Lazily initialised attributes (assigned
    under an `is None` test of themselves) are reported separately as latches."""
    from ..attrs import AttrFlow
    from .fresh import classify_attr, _lazy_latches
    m = ctx.model
    for c in m.solver_classes():
        upd = m.resolve_method(c, "update")
        sol = m.resolve_method(c, "solve")
        if upd is None or sol is None or upd.cls is m.solver_base():
            continue
        if upd.cls is not c and sol.cls is not c:
            continue
        af = AttrFlow(ctx.flow, c)
        may = af.may_write(upd)
        must = af.must_write(upd)
        reads = af.reads(sol)
        selfn = m.self_name(upd)
        optional_backend = any(isinstance(n, ast.Attribute) and n.attr == "defined" for g in (upd, sol) for n in ast.walk(g.node)) or \
            "defined" in {k for k in c.node.body and [t.id for st in c.node.body if isinstance(st, ast.Assign) for t in st.targets if isinstance(t, ast.Name)]}
        cfg = ctx.flow.cfg(upd)
        for a in sorted(may & set(reads)):
            construct = f"{c.name}: self.{a} written by update(), read by solve()"
            if a in must:
                col.ok(where_of(upd), upd.rel, line_of(upd.node), construct, "assigned on every path of update()")
                continue
            cls_, detail, lazy = classify_attr(ctx, c, upd, a)
            sites = [x for x in af.closure_sites(upd) if x.attr == a]
            at = sites[0].stmt if sites else upd.node
            if cls_ == "CONFIG-GUARDED":
                col.ok(where_of(upd), upd.rel, line_of(at), construct, f"{detail}")
            elif cls_ == "LAZY":
                # a held object that is re-factorised / updated on every path of update() is not a latch
                refresh = [nd for nd in cfg.simple_nodes() if nd.kind == STMT and nd.ast is not None and any(
                    isinstance(x, ast.Call) and isinstance(x.func, ast.Attribute) and norm(x.func.value) == f"{selfn}.{a}"
                    for x in ast.walk(nd.ast))]
                if refresh and cfg.must_pass(cfg.entry, cfg.exit, refresh):
                    col.ok(where_of(upd), upd.rel, line_of(at), construct, f"created once, '{stmt_key(refresh[0].ast)}' on every path of update()")
                elif optional_backend:
                    col.assume(f"{c.name}.{a}: lazily initialised attribute of an optional back-end (not installed here) is not judged")
                else:
                    before = len(col.obs)
                    _lazy_latches(ctx, c, upd, col, "update()", only=a)
                    if len(col.obs) == before:
                        col.ok(where_of(upd), upd.rel, line_of(at), construct, f"lazy: {detail}")
            else:
                col.bad(where_of(upd), upd.rel, line_of(at), construct,
                        f"update() assigns self.{a} only on some paths ({detail}): on the others solve() reads the value left by an "
                        f"earlier matrix (or by the constructor), e.g. a failure flag that is never cleared again")
        # what solve() memoises (stores into a container attribute, or assigns lazily) and reads back belongs to one
        # matrix: update() must clear or re-create it
        ssites = [x for x in af.closure_sites(sol)]
        for a in sorted({x.attr for x in ssites} & set(reads)):
            subs = [x for x in ssites if x.attr == a and x.sub]
            if not subs:
                continue
            cleared = a in must or any(
                isinstance(x, ast.Call) and isinstance(x.func, ast.Attribute) and x.func.attr == "clear" and norm(x.func.value) == f"{selfn}.{a}"
                for g in af.closure(upd) for x in ast.walk(g.node))
            construct = f"{c.name}: self.{a} memoised by solve()"
            if cleared:
                col.ok(where_of(upd), upd.rel, line_of(upd.node), construct, "cleared / re-created by update()")
            else:
                col.bad(where_of(sol), sol.rel, line_of(subs[0].stmt), construct,
                        f"solve() stores into self.{a} ('{stmt_key(subs[0].stmt)}') and reads it back later, but update() neither "
                        f"clears nor re-creates it: after a new matrix the cached entry still belongs to the old one")
    dedupe(col)


# ------------------------------------------------------------------------------------------- must-depend dataflow
def _dep_states(cfg: CFG, seed: str, selfn: Optional[str], must: bool = True) -> Dict[Node, Optional[Set[str]]]:
    """Forward dataflow: at each node, the set of names / 'self.attr' keys whose value depends on parameter `seed` on
    every path (must=True, join = intersection) or on some path (must=False, join = union)."""
    def key(t) -> Optional[str]:
        b = t
        while isinstance(b, ast.Subscript):
            b = b.value
        if isinstance(b, ast.Name):
            return b.id
        if isinstance(b, ast.Attribute) and isinstance(b.value, ast.Name) and b.value.id == selfn:
            return f"{selfn}.{b.attr}"
        return None

    def dep(e, st: Set[str]) -> bool:
        for x in ast.walk(e):
            if isinstance(x, ast.Name) and (x.id == seed or x.id in st):
                return True
            if isinstance(x, ast.Attribute) and isinstance(x.value, ast.Name) and x.value.id == selfn and f"{selfn}.{x.attr}" in st:
                return True
        return False

    def transfer(nd: Node, st: Set[str]) -> Set[str]:
        out = set(st)
        a = nd.ast
        if a is None:
            return out
        if nd.kind == FOR:
            d = dep(a.iter, st)
            for x in ast.walk(a.target):
                if isinstance(x, ast.Name) and x.id != seed:
                    (out.add if d else out.discard)(x.id)
            return out
        if nd.kind != STMT:
            return out
        if isinstance(a, ast.Assign):
            d = dep(a.value, st)
            for t in a.targets:
                elts = t.elts if isinstance(t, (ast.Tuple, ast.List)) else [t]
                for el in elts:
                    k = key(el)
                    if k is None:
                        continue
                    if isinstance(el, ast.Subscript):
                        if d:
                            out.add(k)
                    else:
                        (out.add if d else out.discard)(k)
        elif isinstance(a, ast.AugAssign):
            k = key(a.target)
            if k is not None and (dep(a.value, st) or k in st):
                out.add(k)
        return out
    # edge-based: a `for` loop over the (non-empty) node / sampling tables runs at least once, so in must-mode the state
    # leaving a FOR node through its 'done' edge is the join over the *back* edges only
    edge: Dict[Tuple[int, int], Set[str]] = {}
    body_of: Dict[int, Set[Node]] = {}
    for n in cfg.nodes:
        if n.kind == FOR:
            body_of[n.id] = cfg.reachable([x for x, lab in n.succ if lab == "loop"], blocked=[n])

    def join(sets):
        sets = [x for x in sets if x is not None]
        if not sets:
            return None
        out = set(sets[0])
        for x in sets[1:]:
            out = (out & x) if must else (out | x)
        return out

    def in_state(n: Node, only_back: bool = False):
        if n is cfg.entry:
            return {seed}
        srcs = []
        for p, lab in n.pred:
            if lab == "exc":
                continue
            if only_back and p not in body_of.get(n.id, ()):
                continue
            srcs.append(edge.get((p.id, n.id)))
        return join(srcs)
    state: Dict[Node, Optional[Set[str]]] = {n: None for n in cfg.nodes}
    work = [cfg.entry]
    it = 0
    while work and it < 40000:
        it += 1
        n = work.pop()
        st = in_state(n)
        if st is None:
            continue
        state[n] = st
        out = transfer(n, st)
        for succ, lab in n.succ:
            if lab == "exc":
                continue
            o = out
            if must and n.kind == FOR and lab == "done":
                b = in_state(n, only_back=True)
                if b is None:
                    continue
                o = transfer(n, b)
            if edge.get((n.id, succ.id)) != o:
                edge[(n.id, succ.id)] = set(o)
                work.append(succ)
    return state


@rule("R-MUST-DEP", floor=3)
def r_must_dep(ctx: RuleCtx, col: Collector):
    """Assembly modules: a constructor parameter that enters the element matrix on some path of _prepare enters it on
    every path (all dimensions, all options): a material property folded into a factor under `if domain.dim != 3`
    silently drops out of the 3-D element matrix."""
    m = ctx.model
    base = m.get_class("AssembleGeneral")
    n_inst = 0
    for c in m.subclasses(base, strict=True):
        f = m.resolve_method(c, "_prepare")
        if f is None or f.cls is not c:
            continue
        selfn = m.self_name(f)
        cfg = ctx.flow.cfg(f)
        sup = [nd for nd in cfg.simple_nodes() if nd.kind == STMT and nd.ast is not None and any(
            isinstance(x, ast.Call) and isinstance(x.func, ast.Attribute) and x.func.attr == "_prepare" and
            isinstance(x.func.value, ast.Call) and norm(x.func.value.func) == "super" for x in ast.walk(nd.ast))]
        if not sup:
            continue
        call = [x for x in ast.walk(sup[0].ast) if isinstance(x, ast.Call) and isinstance(x.func, ast.Attribute) and x.func.attr == "_prepare"][0]
        if len(call.args) < 2:
            continue
        elmat = call.args[1]
        params = [p for p in f.pos_params() + [a.arg for a in f.node.args.kwonlyargs] if p not in ("domain",)]
        for p in params:
            may = _dep_states(cfg, p, selfn, must=False).get(sup[0])
            must = _dep_states(cfg, p, selfn, must=True).get(sup[0])
            if may is None:
                continue

            def uses(st):
                return any((isinstance(x, ast.Name) and (x.id == p or x.id in st)) or
                           (isinstance(x, ast.Attribute) and isinstance(x.value, ast.Name) and x.value.id == selfn and f"{selfn}.{x.attr}" in st)
                           for x in ast.walk(elmat))
            if not uses(may):
                continue
            n_inst += 1
            construct = f"{c.name}._prepare: parameter '{p}' enters the element matrix '{norm(elmat)}'"
            if uses(must):
                col.ok(where_of(f), f.rel, line_of(sup[0].ast), construct, "on every path")
            else:
                col.bad(where_of(f), f.rel, line_of(sup[0].ast), construct,
                        f"'{p}' influences the element matrix only on some paths of _prepare (it is folded in under a "
                        f"dimension / option test): on the other paths the assembled matrix does not depend on it at all")
    if n_inst == 0:
        raise AnalysisError("no assembly parameter reaches an element matrix")


# ------------------------------------------------------------------------------------------- dyad guards
@rule("R-DYAD-BOTH", floor=1)
def r_dyad_both(ctx: RuleCtx, col: Collector):
    """DyadCarrier: a dyad u (x) v is skipped (continue / filtered) only by a test that looks at *both* factors; a
    guard on u alone (`if not np.iscomplexobj(u): continue`) drops dyads whose v carries the property."""
    m = ctx.model
    dc = m.public_class("DyadCarrier")
    n_inst = 0
    for name, defs in sorted(dc.methods.items()):
        for f in defs:
            selfn = m.self_name(f)
            if selfn is None:
                continue
            for lp in [n for n in ast.walk(f.node) if isinstance(n, ast.For)]:
                it = norm(lp.iter)
                if not ("zip(" in it and isinstance(lp.target, ast.Tuple)):
                    continue
                # the pair variables: last two names of the target that iterate over u-like and v-like lists
                tn = [x.id for x in ast.walk(lp.target) if isinstance(x, ast.Name)]
                if len(tn) < 2:
                    continue
                pair = tn[-2:]
                for n in lp.body:
                    if isinstance(n, ast.If) and any(isinstance(x, ast.Continue) for x in n.body) and not n.orelse:
                        used = _names(n.test) & set(pair)
                        if not used:
                            continue
                        n_inst += 1
                        construct = f"{f.short}: skip test '{norm(n.test)}'"
                        if used == set(pair):
                            col.ok(where_of(f), f.rel, line_of(n), construct, "looks at both factors")
                        else:
                            other = (set(pair) - used).pop()
                            col.bad(where_of(f), f.rel, line_of(n), construct,
                                    f"the dyad is skipped on a property of '{used.pop()}' alone; a dyad whose '{other}' has that "
                                    f"property (e.g. real u with complex v) is dropped although it contributes")
    if n_inst == 0:
        raise AnalysisError("DyadCarrier: no skip test in a loop over (u, v) pairs found")
    dedupe(col)


# ------------------------------------------------------------------------------------------- derived parameters
@rule("R-DERIVED-PARAM", floor=0, witness_min=0)
def r_derived_param(ctx: RuleCtx, col: Collector):
    """Aggregation functions read their tunable exponent live (`self.p`, `self.rho`, `self.alpha` can be changed between
    calls for continuation, as the test-suite does with KS): _prepare does not store a value *derived* from such a
    parameter that the response reads next to the parameter itself - the derived copy goes stale when the parameter is
    changed."""
    m = ctx.model
    base = m.get_class("Aggregation")
    n_inst = 0
    for c in m.subclasses(base, strict=True):
        prep = m.resolve_method(c, "_prepare")
        if prep is None or prep.cls is not c:
            continue
        sp = m.self_name(prep)
        stored: Dict[str, ast.AST] = {}      # attr -> value expr
        for n in ast.walk(prep.node):
            if isinstance(n, ast.Assign) and isinstance(n.targets[0], ast.Attribute) and isinstance(n.targets[0].value, ast.Name) and n.targets[0].value.id == sp:
                stored[n.targets[0].attr] = n
        plain = {a for a, n in stored.items() if isinstance(n.value, ast.Name) and n.value.id in prep.pos_params()}
        live_reads: Set[str] = set()
        for mname in ("aggregation_function", "aggregation_derivative", "_response", "_sensitivity"):
            g = m.resolve_method(c, mname)
            if g is None or g.cls is not c:
                continue
            sg = m.self_name(g)
            for x in ast.walk(g.node):
                if isinstance(x, ast.Attribute) and isinstance(x.value, ast.Name) and x.value.id == sg:
                    live_reads.add(x.attr)
        for a, n in sorted(stored.items()):
            if a in plain or a not in live_reads:
                continue
            srcs = set()
            for x in ast.walk(n.value):
                if isinstance(x, ast.Name) and x.id in prep.pos_params():
                    srcs |= {pa for pa in plain if isinstance(stored[pa].value, ast.Name) and stored[pa].value.id == x.id}
                if isinstance(x, ast.Attribute) and isinstance(x.value, ast.Name) and x.value.id == sp and x.attr in plain:
                    srcs.add(x.attr)
            srcs &= live_reads
            if not srcs:
                continue
            n_inst += 1
            col.bad(where_of(prep), prep.rel, line_of(n), f"{c.name}: self.{a} derived from self.{sorted(srcs)[0]} at construction",
                    f"'{stmt_key(n)}' freezes a function of the tunable parameter self.{sorted(srcs)[0]}, which the aggregation reads "
                    f"live as well: after the parameter is changed on the module (continuation) the two disagree, so the value "
                    f"leaves the function's bounds")
    if n_inst == 0:
        for c in m.subclasses(base, strict=True):
            prep = m.resolve_method(c, "_prepare")
            if prep is not None and prep.cls is c:
                col.ok(where_of(prep), prep.rel, line_of(prep.node), f"{c.name}: no construction-time copy of a live parameter", "")


# ------------------------------------------------------------------------------------------- diagonal shortcut
@rule("R-DIAG-SHORTCUT", floor=1)
def r_diag_shortcut(ctx: RuleCtx, col: Collector):
    """A branch that inverts a matrix through its diagonal alone (np.diag(1/np.diag(M)), 1/M.diagonal()) while the
    sibling branch uses the full inverse is guarded by a test that M itself is diagonal - a proxy (no pivoting
    happened, M is small, ...) is not equivalent: LDL's D has 2x2 blocks without any row interchange."""
    m = ctx.model
    n_inst = 0
    for c in m.solver_classes():
        for mname in ("update", "solve"):
            f = m.resolve_method(c, mname)
            if f is None or f.cls is not c:
                continue
            for n in ast.walk(f.node):
                if not isinstance(n, ast.If) or not n.orelse:
                    continue
                bt, et = " ".join(norm(b) for b in n.body), " ".join(norm(b) for b in n.orelse)
                for diag_side, full_side, pol in ((bt, et, True), (et, bt, False)):
                    md = None
                    for x in ast.walk(ast.Module(body=n.body if pol else n.orelse, type_ignores=[])):
                        if isinstance(x, ast.BinOp) and isinstance(x.op, ast.Div) and isinstance(x.right, ast.Call) and \
                                (norm(x.right.func) == "np.diag" or (isinstance(x.right.func, ast.Attribute) and x.right.func.attr == "diagonal")):
                            md = x.right.args[0] if norm(x.right.func) == "np.diag" else x.right.func.value
                    if md is None or "np.linalg.inv(" not in full_side and "spla.inv(" not in full_side:
                        continue
                    n_inst += 1
                    mt = norm(md)
                    t = norm(expand_names(f.node, n.test))
                    construct = f"{c.name}.{mname}: diagonal-only inverse of '{mt}' under '{t}'"
                    good = (f"matrix_is_diagonal({mt})" in t or f"isdiag({mt})" in t) and (pol != t.startswith("not"))
                    if good:
                        col.ok(where_of(f), f.rel, line_of(n), construct, "guarded by a diagonality test of the same matrix")
                    else:
                        col.bad(where_of(f), f.rel, line_of(n), construct,
                                f"only the diagonal of '{mt}' is inverted in this branch, but the guard does not test that '{mt}' is "
                                f"diagonal: whenever it is not (2x2 pivot blocks), the off-diagonal entries are ignored and the "
                                f"solution is wrong but finite")
    if n_inst == 0:
        raise AnalysisError("no diagonal-shortcut branch found in the solver classes")


# ------------------------------------------------------------------------------------------- padding slots
@rule("R-PAD-SLOT", floor=4)
def r_pad_slot(ctx: RuleCtx, col: Collector):
    """FilterConv._process_padding: in every (before, after) pad-width pair, the 'before' slot is non-zero only under
    the boundary type of the low edge (type_edge0) and the 'after' slot only under that of the high edge (type_edge1)."""
    from .solver import guard_facts
    m = ctx.model
    c = m.public_class("FilterConv")
    f = m.resolve_method(c, "_process_padding")
    params = f.pos_params()
    edge = [p for p in params if "edge" in p]
    if len(edge) != 2:
        raise AnalysisError("_process_padding: edge-type parameters not recognised")
    e0, e1 = edge
    size = [p for p in params if "size" in p]
    if not size:
        raise AnalysisError("_process_padding: pad size parameter not recognised")
    ps = size[0]
    cfg = ctx.flow.cfg(f)
    for n in ast.walk(f.node):
        if not (isinstance(n, ast.Assign) and isinstance(n.value, ast.Tuple) and len(n.value.elts) == 2):
            continue
        if not any(ps in _names(e) for e in n.value.elts):
            continue
        nd = cfg.node_of(n)
        facts = [t for t, pol in guard_facts(cfg, nd) if pol] if nd is not None else []
        for k, el in enumerate(n.value.elts):
            if ps not in _names(el):
                continue
            want, other = (e0, e1) if k == 0 else (e1, e0)
            tests = list(facts)
            if isinstance(el, ast.IfExp):
                tests.append(norm(el.test))
            # later statements of the same branch that identify the edge (pad1b = np.pad(.., mode=..) follow an elif on the type)
            mention_want = any(want in t for t in tests)
            mention_other = any(other in t for t in tests)
            construct = f"_process_padding: slot {k} ({'before' if k == 0 else 'after'}) of '{untag(stmt_key(n))}'"
            if mention_other and not mention_want:
                col.bad(where_of(f), f.rel, line_of(n), construct,
                        f"the {'low' if k == 0 else 'high'}-side pad width is set under a test of '{other}', the boundary type of the "
                        f"opposite edge: with different types on the two edges the padding lands on the wrong side")
            elif mention_want:
                col.ok(where_of(f), f.rel, line_of(n), construct, f"under a test of '{want}'")
            else:
                # unconditional: decided by the enclosing edge section; accept when the *other* slot is the literal 0
                oth = n.value.elts[1 - k]
                if isinstance(oth, ast.Constant) and oth.value == 0 and isinstance(n.targets[0], (ast.Name, ast.Subscript)):
                    # which edge does this width serve?  the np.pad calls consuming it name the edge type in their mode or
                    # sit under tests of it
                    from .common import dominating_tests
                    root = n.targets[0]
                    while isinstance(root, ast.Subscript):
                        root = root.value
                    # names the width flows into (not through the padded arrays themselves)
                    import copy as _copy

                    class _NoPad(ast.NodeTransformer):
                        def visit_Call(self, x):
                            self.generic_visit(x)
                            if norm(x.func).split(".")[-1] == "pad":
                                return ast.copy_location(ast.Constant(value=0), x)
                            return x
                    dep = _dependent_names(_NoPad().visit(_copy.deepcopy(f.node)), {root.id}) | {root.id}
                    # the definition reaches a consumer when no other width pair is stored to the same target in between
                    kills = [cfg.node_of(o) for o in ast.walk(f.node) if isinstance(o, ast.Assign) and o is not n
                             and norm(o.targets[0]) == norm(n.targets[0])]
                    live = cfg.reachable([s_ for s_, l_ in nd.succ if l_ != "exc"], blocked=[k_ for k_ in kills if k_ is not None],
                                         labels_excluded=("exc",)) if nd is not None else set()
                    mentioned = set()
                    for x in ast.walk(f.node):
                        if not (isinstance(x, ast.Call) and norm(x.func).split(".")[-1] == "pad"):
                            continue
                        if not any(_names(a) & dep for a in x.args[1:] + [kw.value for kw in x.keywords]):
                            continue
                        st = x
                        while not isinstance(st, ast.stmt):
                            st = parent(st)
                        nd2 = cfg.node_of(st)
                        if nd2 is None or nd2 not in live:
                            continue
                        exprs = [t for t, _pol in dominating_tests(cfg, nd2)] + [kw.value for kw in x.keywords]
                        for e_ in (want, other):
                            if any(e_ in _names(t) for t in exprs):
                                mentioned.add(e_)
                    if mentioned == {want}:
                        col.ok(where_of(f), f.rel, line_of(n), construct, f"section of '{want}'")
                    elif mentioned == {other}:
                        col.bad(where_of(f), f.rel, line_of(n), construct,
                                f"this pad width is consumed under tests of '{other}' but fills the {'low' if k == 0 else 'high'} side")
                    else:
                        raise AnalysisError(f"_process_padding: cannot tell which edge '{stmt_key(n)}' belongs to")
                else:
                    raise AnalysisError(f"_process_padding: cannot tell which edge '{stmt_key(n)}' belongs to")
    dedupe(col)


# ------------------------------------------------------------------------------------------- setters always store
@rule("R-SETTER-TOTAL", floor=3)
def r_setter_total(ctx: RuleCtx, col: Collector):
    """SignalSlice: the state setter, the sensitivity setter and add_sensitivity reach a normal exit only after writing
    through `self.base.<attr>[self.slice]`, except on the paths taken for a None argument.  No early return decides
    that the value 'is already there' and nothing is delegated to the base signal without the slice."""
    from .solver import guard_facts
    m = ctx.model
    ss = m.public_class("SignalSlice")
    targets = []
    for name, defs in ss.methods.items():
        for f in defs:
            if name == "add_sensitivity" or (name in ("state", "sensitivity") and len(f.pos_params()) == 1):
                targets.append(f)
    if len(targets) < 3:
        raise AnalysisError("SignalSlice setters / add_sensitivity not found")
    for f in targets:
        selfn = m.self_name(f)
        par = f.pos_params()[0]
        cfg = ctx.flow.cfg(f)
        stores = []
        for nd in cfg.simple_nodes():
            a = nd.ast
            if nd.kind != STMT or a is None:
                continue
            tg = a.targets[0] if isinstance(a, ast.Assign) else (a.target if isinstance(a, ast.AugAssign) else None)
            if isinstance(tg, ast.Subscript) and norm(tg.value).startswith(f"{selfn}.base.") and norm(tg.slice) == f"{selfn}.slice":
                stores.append(nd)
            # read-modify-write through the property:  self.sensitivity += ds
            if isinstance(a, ast.AugAssign) and isinstance(a.target, ast.Attribute) and norm(a.target.value) == selfn and a.target.attr in ("state", "sensitivity"):
                stores.append(nd)
            # custom accumulation on the sliced view:  self.sensitivity.add_sensitivity(ds)
            if isinstance(a, ast.Expr) and isinstance(a.value, ast.Call) and norm(a.value.func) == f"{selfn}.sensitivity.add_sensitivity":
                stores.append(nd)
        if not stores:
            raise AnalysisError(f"{f.short}: store through [self.slice] not found")
        exits = [nd for nd in cfg.simple_nodes() if nd.kind == STMT and isinstance(nd.ast, ast.Return)]
        bad = None
        for r in exits + [None]:
            tgt = r if r is not None else cfg.exit
            if r is None:
                # fall-through exit: predecessors of exit that are not returns / raises
                if cfg.must_pass(cfg.entry, cfg.exit, stores + exits + [nd for nd in cfg.simple_nodes() if nd.kind == STMT and isinstance(nd.ast, ast.Raise)]):
                    continue
                bad = ("the end of the function", None)
                break
            if cfg.must_pass(cfg.entry, tgt, stores):
                continue
            facts = guard_facts(cfg, tgt)
            if any(t == f"{par}isNone" and pol for t, pol in facts):
                continue
            bad = (f"'{stmt_key(r.ast)}' at line {line_of(r.ast)}", r)
            break
        construct = f"{f.short}({par}): every non-None path stores through [self.slice]"
        if bad is None:
            col.ok(where_of(f), f.rel, line_of(f.node), construct, f"{len(stores)} store site(s), {len(exits)} return(s)")
        else:
            col.bad(where_of(f), f.rel, line_of(bad[1].ast) if bad[1] is not None else line_of(f.node), construct,
                    f"{bad[0]} is reachable without the write through the slice although the argument is not None: the value is "
                    f"silently dropped (or handed to the base signal without the slice)")


# ------------------------------------------------------------------------------------------- imaginary pass guard
@rule("R-FD-IMAG-GUARD", floor=1)
def r_fd_imag_guard(ctx: RuleCtx, col: Collector):
    """finite_difference perturbs the imaginary direction of every entry of a complex input: the guard of the
    imaginary pass depends on the dtype only (np.iscomplexobj), never on the entry's value or on option flags."""
    m = ctx.model
    f = m.public_function("finite_difference")
    n = 0
    for x in ast.walk(f.node):
        if isinstance(x, ast.If) and "iscomplexobj(" in norm(expand_names(f.node, x.test)) and any(
                isinstance(y, ast.Constant) and isinstance(y.value, complex) or (isinstance(y, ast.Name) and y.id == "j") or "1j" in norm(y)
                for b in x.body for y in ast.walk(b) if isinstance(y, (ast.BinOp, ast.Constant))):
            n += 1
            t = expand_names(f.node, x.test)
            construct = "finite_difference: guard of the imaginary perturbation"
            if isinstance(t, ast.Call) and norm(t.func).endswith("iscomplexobj"):
                col.ok(where_of(f), f.rel, line_of(x), construct, norm(t))
            else:
                col.bad(where_of(f), f.rel, line_of(x), construct,
                        f"'{norm(t)}' makes the imaginary perturbation depend on more than the dtype: entries it excludes get no "
                        f"(analytical, numerical) pair for the imaginary direction, so a sensitivity that is wrong there passes")
    if n == 0:
        raise AnalysisError("finite_difference: imaginary pass not recognised")


# ------------------------------------------------------------------------------------------- file names
@rule("R-NAME-EXTEND", floor=1)
def r_name_extend(ctx: RuleCtx, col: Collector):
    """write_to_vti only ever *extends* the file name it is given (adds '.vti'): WriteToVTI puts the iteration counter
    in front of the extension it finds, so replacing 'the extension' of a name without one strips the counter and every
    iteration overwrites one file."""
    from .io import _vti
    f = _vti(ctx)
    fn = f.pos_params()[1] if len(f.pos_params()) > 1 else None
    cands = [p for p in f.pos_params() if "file" in p or "name" in p]
    if not cands:
        raise AnalysisError("write_to_vti: file name parameter not found")
    fn = cands[0]
    n = 0
    for x in ast.walk(f.node):
        tgt = val = None
        if isinstance(x, ast.AugAssign) and isinstance(x.target, ast.Name) and x.target.id == fn:
            n += 1
            if isinstance(x.op, ast.Add):
                col.ok(where_of(f), f.rel, line_of(x), f"write_to_vti: '{stmt_key(x)}'", "extends the given name")
            else:
                col.bad(where_of(f), f.rel, line_of(x), f"write_to_vti: '{stmt_key(x)}'", "the file name is not extended")
        if isinstance(x, ast.Assign) and any(isinstance(t, ast.Name) and t.id == fn for t in x.targets):
            n += 1
            v = x.value
            ok = isinstance(v, ast.BinOp) and isinstance(v.op, ast.Add) and isinstance(v.left, ast.Name) and v.left.id == fn
            ok = ok or (isinstance(v, ast.JoinedStr) and any(isinstance(p, ast.FormattedValue) and norm(p.value) == fn for p in v.values[:1]))
            if ok:
                col.ok(where_of(f), f.rel, line_of(x), f"write_to_vti: '{stmt_key(x)}'", "extends the given name")
            else:
                col.bad(where_of(f), f.rel, line_of(x), f"write_to_vti: '{stmt_key(x)}'",
                        f"the name is rebuilt from a part of the given one ('{norm(v)}'): whatever follows the last dot - for "
                        f"WriteToVTI without a '.vti' in saveto that is the iteration counter - is dropped")
    if n == 0:
        raise AnalysisError("write_to_vti: extension handling not recognised")


# ------------------------------------------------------------------------------------------- eigenvector scale factor
@rule("R-NORM-FACTOR", floor=2)
def r_norm_factor(ctx: RuleCtx, col: Collector):
    """EigenSolve: the factor each eigenvector is multiplied with is (orientation) / (norm), where the norm is computed
    from that very vector on every path (no branch trusts the back-end's normalisation: ARPACK's buckling mode
    normalises with A, not B), and the orientation is +1 or -1 on every path (np.sign gives 0 for a vector with zero
    mean and wipes it out)."""
    from .eig import _eig
    m = ctx.model
    es, resp = _eig(ctx)
    selfn = m.self_name(resp)
    loops = [n for n in ast.walk(resp.node) if isinstance(n, ast.For) and any(
        isinstance(x, ast.AugAssign) and isinstance(x.op, (ast.Mult, ast.Div)) for x in ast.walk(n))]
    loops = [lp_ for lp_ in loops if any(isinstance(x, ast.AugAssign) and isinstance(x.op, (ast.Mult, ast.Div)) and isinstance(x.target, (ast.Name, ast.Subscript))
                                         for x in ast.walk(lp_))]
    if not loops:
        # vectorised form  Q *= factors : the factors are judged as an expression of the whole matrix
        rets_ = [n for n in ast.walk(resp.node) if isinstance(n, ast.Return) and isinstance(n.value, ast.Tuple) and len(n.value.elts) == 2]
        qn = norm(rets_[-1].value.elts[1]) if rets_ else None
        whole = [x for x in ast.walk(resp.node) if isinstance(x, ast.AugAssign) and isinstance(x.op, (ast.Mult, ast.Div)) and norm(x.target) == qn]
        if not whole:
            raise AnalysisError("EigenSolve._response: normalisation loop not found")
        sc = whole[-1]
        expr = expand_names(resp.node, sc.value)
        num, den = [], []

        def split_v(e, inv=False):
            if isinstance(e, ast.BinOp) and isinstance(e.op, ast.Mult):
                split_v(e.left, inv)
                split_v(e.right, inv)
            elif isinstance(e, ast.BinOp) and isinstance(e.op, ast.Div):
                split_v(e.left, inv)
                split_v(e.right, not inv)
            else:
                (den if inv != isinstance(sc.op, ast.Div) else num).append(e)
        split_v(expr)
        construct = "EigenSolve: norm in the scale factor computed from the vector itself"
        if not den:
            col.bad(where_of(resp), resp.rel, line_of(sc), construct, f"'{norm(expr)[:80]}' contains no division by a norm")
        elif all(qn in _names(d) for d in den):
            col.ok(where_of(resp), resp.rel, line_of(sc), construct, f"divisor {[norm(d)[:60] for d in den]}")
        else:
            col.bad(where_of(resp), resp.rel, line_of(sc), construct,
                    f"a divisor of '{norm(expr)[:80]}' is not computed from the eigenvectors '{qn}'")
        construct = "EigenSolve: orientation factor is +1 or -1"
        txt = " ".join(norm(n_) for n_ in num)
        if "np.sign(" in txt or "numpy.sign(" in txt:
            col.bad(where_of(resp), resp.rel, line_of(sc), construct,
                    f"'{txt[:80]}' uses np.sign, which is 0 for a vector whose mean entry is exactly zero: that eigenvector is scaled to "
                    f"the zero vector (q^T B q = 0)")
        else:
            col.ok(where_of(resp), resp.rel, line_of(sc), construct, txt[:80] or "no orientation factor")
        return
    lp = loops[0]
    # what identifies the current eigenvector: the loop counter, or the vector itself (for i, q in enumerate(Q.T))
    idxs = [x.id for x in ast.walk(lp.target) if isinstance(x, ast.Name)]
    if not idxs:
        raise AnalysisError("EigenSolve._response: normalisation loop not found")
    idx = idxs[0]
    scaled = [x for x in ast.walk(lp) if isinstance(x, ast.AugAssign) and isinstance(x.op, (ast.Mult, ast.Div))]
    sc = scaled[-1]
    expr = expand_names(resp.node, sc.value)
    # a factor assigned in several branches (sf = 1/n in one, -1/n in the other): every definition is judged
    alts = [expr]
    if isinstance(expr, ast.Name):
        defs_ = [d.value for d in ast.walk(lp) if isinstance(d, ast.Assign) and len(d.targets) == 1 and isinstance(d.targets[0], ast.Name)
                 and d.targets[0].id == expr.id]
        if len(defs_) > 1:
            alts = [expand_names(resp.node, d) for d in defs_]
    # split into numerator (orientation) and denominator (norm)
    num, den = [], []
    den_per_alt: List[List[ast.AST]] = []

    def split(e, inv=False):
        if isinstance(e, ast.BinOp) and isinstance(e.op, ast.Mult):
            split(e.left, inv)
            split(e.right, inv)
        elif isinstance(e, ast.BinOp) and isinstance(e.op, ast.Div):
            split(e.left, inv)
            split(e.right, not inv)
        else:
            (den if inv != isinstance(sc.op, ast.Div) else num).append(e)
    for alt in alts:
        k0 = len(den)
        split(alt)
        den_per_alt.append(den[k0:])
    cfg = ctx.flow.cfg(resp)
    nd = cfg.node_of(sc)
    must = set()
    for ix in idxs:
        must |= _dep_states(cfg, ix, selfn, must=True).get(nd) or set()
    # names with several definitions are not expanded: judge them by must-dependence on the loop index
    construct = "EigenSolve: norm in the scale factor computed from the vector itself"
    if not den or any(not d_ for d_ in den_per_alt):
        col.bad(where_of(resp), resp.rel, line_of(sc), construct, f"'{norm(expr)}' contains no division by a norm")
    else:
        bad = [d for d in den if not any((isinstance(x, ast.Name) and (x.id in idxs or x.id in must)) for x in ast.walk(d))]
        if bad:
            col.bad(where_of(resp), resp.rel, line_of(sc), construct,
                    f"the divisor '{norm(bad[0])}' does not depend on the current eigenvector on every path (some branch uses a "
                    f"constant): whenever the back-end's own normalisation differs from q^T B q = 1 the vector is returned "
                    f"un-normalised")
        else:
            col.ok(where_of(resp), resp.rel, line_of(sc), construct, f"divisor {[norm(d) for d in den]}")
    # the norm is the bilinear form q^T (B) q the module documents (eigenvectors may be complex): a conjugating norm
    # (np.linalg.norm, vdot, q.conj() @ q) normalises q^H q instead
    alld = [d_ for d_ in den]
    for d_ in list(den):
        for x_ in ast.walk(d_):
            if isinstance(x_, ast.Name):
                alld += [dd.value for dd in ast.walk(lp) if isinstance(dd, ast.Assign) and len(dd.targets) == 1 and norm(dd.targets[0]) == x_.id]
    conj_norm = [d_ for d_ in alld if any(k_ in norm(d_) for k_ in ("linalg.norm(", "vdot(", ".conj()", "np.conj(", "np.abs(", "abs("))]
    construct = "EigenSolve: the norm in the scale factor is the bilinear form q^T B q"
    if conj_norm:
        col.bad(where_of(resp), resp.rel, line_of(sc), construct,
                f"'{norm(conj_norm[0])[:70]}' is a conjugating (Hermitian) norm: complex eigenvectors are scaled to q^H q = 1 instead of "
                f"the documented q^T B q = 1")
    elif den:
        col.ok(where_of(resp), resp.rel, line_of(sc), construct, "no conjugating norm among the divisors")
    construct = "EigenSolve: orientation factor is +1 or -1"
    txt = " ".join(norm(n_) for n_ in num)
    # unexpanded names in the numerator: look at all their definitions
    extra = []
    for n_ in num:
        for x in ast.walk(n_):
            if isinstance(x, ast.Name):
                for d in ast.walk(lp):
                    if isinstance(d, ast.Assign) and any(isinstance(t, ast.Name) and t.id == x.id for t in d.targets):
                        extra.append(norm(d.value))
    txt_all = txt + " " + " ".join(extra)
    if "np.sign(" in txt_all or "numpy.sign(" in txt_all:
        col.bad(where_of(resp), resp.rel, line_of(sc), construct,
                f"'{txt}' uses np.sign, which is 0 for a vector whose mean entry is exactly zero: that eigenvector is scaled to "
                f"the zero vector (q^T B q = 0)")
    elif not num:
        col.ok(where_of(resp), resp.rel, line_of(sc), construct, "no orientation factor")
    else:
        col.ok(where_of(resp), resp.rel, line_of(sc), construct, txt[:80])


# ------------------------------------------------------------------------------------------- integer truncation
@rule("R-INT-TRUNC", floor=0, witness_min=1)
def r_int_trunc(ctx: RuleCtx, col: Collector):
    """Public functions do not store the result of a true division (or of float arithmetic) into an array allocated
    'like' one of their arguments without a dtype: the caller may pass integers (a position [3, 1], an index array), for
    which NumPy truncates the stored values towards zero."""
    m = ctx.model
    for f in _functions(m):
        if f.name.startswith("_") and f.name not in ("__call__", "__init__"):
            continue
        params = set(f.pos_params())
        if not params:
            continue
        # names that are (np.asarray of) a parameter
        alias = set(params)
        for n in ast.walk(f.node):
            if isinstance(n, ast.Assign) and len(n.targets) == 1 and isinstance(n.targets[0], ast.Name) and isinstance(n.value, ast.Call) and \
                    norm(n.value.func) in ("np.asarray", "np.array", "np.asanyarray", "np.atleast_1d") and n.value.args and \
                    isinstance(n.value.args[0], ast.Name) and n.value.args[0].id in alias and not any(k.arg == "dtype" for k in n.value.keywords):
                alias.add(n.targets[0].id)
        like: Dict[str, ast.AST] = {}
        for n in ast.walk(f.node):
            if isinstance(n, ast.Assign) and len(n.targets) == 1 and isinstance(n.targets[0], ast.Name) and isinstance(n.value, ast.Call) and \
                    norm(n.value.func) in ("np.zeros_like", "np.empty_like", "np.ones_like", "np.full_like") and n.value.args and \
                    isinstance(n.value.args[0], ast.Name) and n.value.args[0].id in alias and not any(k.arg == "dtype" for k in n.value.keywords):
                like[n.targets[0].id] = n
        for n in ast.walk(f.node):
            tgt = val = None
            if isinstance(n, ast.Assign) and isinstance(n.targets[0], ast.Subscript):
                tgt, val = n.targets[0], n.value
            elif isinstance(n, ast.AugAssign) and isinstance(n.target, (ast.Subscript, ast.Name)):
                tgt, val = n.target, n.value
                if isinstance(n.op, ast.Div):
                    val = ast.BinOp(left=ast.Constant(1), op=ast.Div(), right=val)
            if tgt is None:
                continue
            b = tgt
            while isinstance(b, ast.Subscript):
                b = b.value
            if not (isinstance(b, ast.Name) and b.id in like):
                continue
            fl = any(isinstance(x, ast.BinOp) and isinstance(x.op, ast.Div) for x in ast.walk(val)) or \
                any(isinstance(x, ast.Constant) and isinstance(x.value, float) and x.value != int(x.value) for x in ast.walk(val))
            construct = f"{f.short}: '{stmt_key(n)}' into '{stmt_key(like[b.id])}'"
            if fl:
                col.bad(where_of(f), f.rel, line_of(n), construct,
                        f"'{b.id}' inherits the dtype of the caller's argument; for an integer argument the quotient stored here is "
                        f"truncated towards zero without any warning")
            else:
                col.ok(where_of(f), f.rel, line_of(n), construct, "no fractional values stored")
    dedupe(col)


# ------------------------------------------------------------------------------------------- transposition mode is honoured
@rule("R-TRANS-USE", floor=2)
def r_trans_use(ctx: RuleCtx, col: Collector):
    """A solve() that selects the matrix of the requested mode into a local (A = self.A / self.A.T / self.A.conj().T)
    uses that local for every product with the matrix - a residual formed with self.A belongs to the un-transposed
    system - and hands `trans` on to every inner solver / preconditioner it calls."""
    m = ctx.model
    sb = m.solver_base()
    for c in m.solver_classes():
        f = m.resolve_method(c, "solve")
        if f is None or f.cls is not c:
            continue
        selfn = m.self_name(f)
        params = f.pos_params()
        tp = "trans" if "trans" in params else None
        if tp is None:
            continue
        # mode-local matrix names: assigned from self.<attr> and from its transpose under tests of trans
        locals_: Dict[str, str] = {}
        for n in ast.walk(f.node):
            if isinstance(n, ast.Assign) and len(n.targets) == 1 and isinstance(n.targets[0], ast.Name):
                # the dispatch on the mode: the assignment sits under a test of the trans parameter
                g_ = parent(n)
                under_mode_test = False
                while g_ is not None and g_ is not f.node:
                    if isinstance(g_, ast.If) and tp in _names(g_.test):
                        under_mode_test = True
                    g_ = parent(g_)
                if not under_mode_test:
                    continue
                v = norm(n.value)
                for suffix in (".T", ".conj().T", ".T.conj()", ".conjugate().T"):
                    if v.startswith(f"{selfn}.") and v.endswith(suffix):
                        locals_[n.targets[0].id] = v[:-len(suffix)]
        at = ctx.flow.attr_types(c)
        for loc, attr in sorted(locals_.items()):
            dispatch = {id(n) for n in ast.walk(f.node) if isinstance(n, ast.Assign) and len(n.targets) == 1 and
                        isinstance(n.targets[0], ast.Name) and n.targets[0].id == loc}
            direct = []
            for n in ast.walk(f.node):
                if isinstance(n, ast.BinOp) and isinstance(n.op, ast.MatMult) and norm(n.left) == attr:
                    direct.append(n)
                if isinstance(n, ast.Call) and isinstance(n.func, ast.Attribute) and n.func.attr == "dot" and norm(n.func.value) == attr:
                    direct.append(n)
            construct = f"{c.name}.solve: products use the mode-local matrix '{loc}'"
            if direct:
                col.bad(where_of(f), f.rel, line_of(direct[0]), construct,
                        f"'{norm(direct[0])}' multiplies with {attr} although '{loc}' holds the matrix of the requested mode: for "
                        f"trans='T'/'H' and a matrix that is not real symmetric this residual belongs to another system "
                        f"({len(direct)} site(s))")
            else:
                col.ok(where_of(f), f.rel, line_of(f.node), construct, f"no direct product with {attr} outside the mode dispatch")
        # inner solver calls pass the mode on
        for n in ast.walk(f.node):
            if isinstance(n, ast.Call) and isinstance(n.func, ast.Attribute) and n.func.attr == "solve" and norm(n.func.value).startswith(f"{selfn}."):
                tys = m.expr_types(f, n.func.value, c, at)
                if not any(m.classes.get(t) is not None and m.is_subclass(m.classes[t], sb) for t in tys):
                    continue
                passed = [k.value for k in n.keywords if k.arg == "trans"] or (n.args[2:3] if len(n.args) >= 3 else [])
                construct = f"{c.name}.solve: '{norm(n)[:60]}' passes the mode on"
                if passed and tp in _names(passed[0]):
                    col.ok(where_of(f), f.rel, line_of(n), construct, "trans handed on")
                elif passed:
                    # a fixed or derived mode (the wrapper maps the requested mode onto its storage mode)
                    col.ok(where_of(f), f.rel, line_of(n), construct, f"mode {norm(passed[0])}")
                else:
                    col.bad(where_of(f), f.rel, line_of(n), construct,
                            f"the inner solve is called without trans: it solves the un-transposed (coarse / preconditioning) "
                            f"system whatever mode was requested")
    dedupe(col)


# =========================================================================================== after round 4
@rule("R-ATTR-OWNER", floor=3)
def r_attr_owner(ctx: RuleCtx, col: Collector):
    """A cache attribute that a `_sensitivity` closure reads has one writer class inside the `_response` closure: when
    a base-class method and a subclass method both assign the same attribute during one response (with different
    meanings: 'the scaled result' / 'the un-scaled soft-max'), the later one silently replaces what the other's
    derivative needs."""
    from ..attrs import AttrFlow
    m = ctx.model
    for c, sens in module_methods(ctx, "_sensitivity"):
        resp = m.resolve_method(c, "_response")
        if resp is None or resp.cls is m.module_base():
            continue
        af = AttrFlow(ctx.flow, c)
        reads = af.reads(sens)
        writers: Dict[str, Dict[str, ast.AST]] = {}
        for s in af.closure_sites(resp):
            if s.sub or s.aug:
                continue
            if isinstance(s.value, ast.Constant) and s.value.value is None:
                continue
            owner = s.f.cls.name if s.f.cls is not None else "?"
            writers.setdefault(s.attr, {}).setdefault(owner, s.stmt)
        for a in sorted(set(reads) & set(writers)):
            w = writers[a]
            construct = f"{c.name}: self.{a} written during response(), read by the sensitivity"
            if len(w) > 1:
                names = sorted(w)
                col.bad(where_of(resp), resp.rel, line_of(w[names[0]]), construct,
                        f"self.{a} is assigned by methods of {names} in one response ('{stmt_key(w[names[0]])}' and "
                        f"'{stmt_key(w[names[1]])}'): the value the sensitivity of {c.name} reads is whichever came last, not "
                        f"necessarily the one its own derivative was written for")
            else:
                col.ok(where_of(resp), resp.rel, line_of(list(w.values())[0]), construct, f"single writer class {sorted(w)[0]}")
    dedupe(col)


@rule("R-TRANS-GUARD", floor=1)
def r_trans_guard(ctx: RuleCtx, col: Collector):
    """A symmetry shortcut replaces the transposed solve of the general branch only for the matching symmetry class: when
    the general branch of `if <matrix test>:` solves with trans='T' (plain transpose) the test must establish A == A^T
    (symmetric), when it solves with trans='H' the test must establish A == A^H (Hermitian).  A Hermitian test in front of
    a 'T' solve takes the shortcut for complex Hermitian matrices, for which A^T = conj(A) != A."""
    m = ctx.model
    n_inst = 0
    for f in _functions(m):
        for n in ast.walk(f.node):
            if not isinstance(n, ast.If):
                continue
            t = expand_names(f.node, n.test)
            neg = False
            while isinstance(t, ast.UnaryOp) and isinstance(t.op, ast.Not):
                t, neg = t.operand, not neg
            tt = norm(t).lower()
            if not (isinstance(t, (ast.Call, ast.Attribute, ast.Name))):
                continue
            kind = "symmetric" if ("symmetric" in tt.split("(")[0].split(".")[-1]) else \
                ("hermitian" if ("hermitian" in tt.split("(")[0].split(".")[-1]) else None)
            if kind is None:
                continue
            general = n.body if neg else n.orelse
            shortcut = n.orelse if neg else n.body
            trans = {k.value.value for b in general for x in ast.walk(b) if isinstance(x, ast.Call) and isinstance(x.func, ast.Attribute)
                     and x.func.attr == "solve" for k in x.keywords if k.arg == "trans" and isinstance(k.value, ast.Constant)}
            short_solves = any(isinstance(x, ast.Call) and isinstance(x.func, ast.Attribute) and x.func.attr == "solve"
                               for b in shortcut for x in ast.walk(b))
            if not trans or short_solves or not (trans <= {"T", "H"}) or len(trans) != 1:
                continue
            n_inst += 1
            tr = next(iter(trans))
            want = "symmetric" if tr == "T" else "hermitian"
            construct = f"{f.short}: shortcut under '{norm(n.test)}' for the trans='{tr}' solve"
            if kind == want:
                col.ok(where_of(f), f.rel, line_of(n), construct, f"{want} test in front of a '{tr}' solve")
            else:
                col.bad(where_of(f), f.rel, line_of(n), construct,
                        f"the general branch solves with trans='{tr}', so skipping it needs a {want} matrix, but the test establishes "
                        f"'{kind}': for a complex {kind} (not {want}) matrix the shortcut result is the conjugate of the adjoint needed")
    if n_inst == 0:
        raise AnalysisError("no symmetry shortcut in front of a transposed solve found")
    dedupe(col)


@rule("R-SYM-HERM", floor=1)
def r_sym_herm(ctx: RuleCtx, col: Collector):
    """'Symmetric' implies 'Hermitian' only for real matrices: wherever a Hermitian flag is taken from a symmetric flag,
    the assignment is guarded by a test that the matrix is not complex (a complex-symmetric matrix is not Hermitian; a
    solver told otherwise reads one triangle and solves a different system)."""
    from .solver import guard_facts
    m = ctx.model
    n_inst = 0
    for f in _functions(m):
        cfg = None
        for n in ast.walk(f.node):
            if not isinstance(n, ast.Assign):
                continue
            tg = norm(n.targets[0]).lower()
            if "hermitian" not in tg:
                continue
            srcs = [x for x in ast.walk(n.value) if isinstance(x, (ast.Name, ast.Attribute)) and "symmetric" in norm(x).lower().split(".")[-1]
                    and "matrix_is" not in norm(x)]
            # the symmetric flag is the *value* taken (not merely tested)
            val_srcs = []
            for x in srcs:
                p_ = parent(x)
                if isinstance(p_, ast.Compare) or (isinstance(p_, ast.IfExp) and p_.test is x):
                    continue
                val_srcs.append(x)
            if not val_srcs:
                continue
            n_inst += 1
            cfg = cfg or ctx.flow.cfg(f)
            nd = cfg.node_of(n)
            facts = guard_facts(cfg, nd) if nd is not None else []
            real_guard = any(("complex" in t and not pol) or ("isreal" in t.replace("_", "") and pol) for t, pol in facts)
            construct = f"{f.short}: '{stmt_key(n)}'"
            if real_guard:
                col.ok(where_of(f), f.rel, line_of(n), construct, "only for real matrices")
            else:
                col.bad(where_of(f), f.rel, line_of(n), construct,
                        f"the Hermitian flag is taken from '{norm(val_srcs[0])}' without a test that the matrix is real: for a "
                        f"complex-symmetric matrix (K + i w C) a Hermitian solver is then selected")
    if n_inst == 0:
        raise AnalysisError("no assignment of a Hermitian flag from a symmetric flag found")
    dedupe(col)


NARROW_INT = {"np.uint8", "np.uint16", "np.uint32", "np.int8", "np.int16", "np.int32", "'uint8'", "'uint16'", "'uint32'", "'int8'", "'int16'", "'int32'"}


@rule("R-NARROW-INT", floor=0, witness_min=1)
def r_narrow_int(ctx: RuleCtx, col: Collector):
    """Index tables that enter arithmetic (conn * ndof, offsets added to node numbers) are platform integers: a table
    allocated with a narrow or size-dependent integer type (np.uint8..32, np.min_scalar_type) wraps around silently
    when multiplied.  Tables that are only used as indices may be narrow."""
    m = ctx.model
    for c in list(m.classes.values()):
        narrow: Dict[str, ast.AST] = {}
        for defs in c.methods.values():
            for f in defs:
                sn = m.self_name(f)
                for n in ast.walk(f.node):
                    if isinstance(n, ast.Assign) and isinstance(n.value, ast.Call):
                        dt = [k.value for k in n.value.keywords if k.arg == "dtype"]
                        if dt and (norm(dt[0]) in NARROW_INT or "min_scalar_type" in norm(dt[0])):
                            for t in n.targets:
                                if isinstance(t, ast.Attribute) and isinstance(t.value, ast.Name) and t.value.id == sn:
                                    narrow[t.attr] = n
        if not narrow:
            continue
        for defs in c.methods.values():
            for f in defs:
                sn = m.self_name(f)
                for n in ast.walk(f.node):
                    if isinstance(n, ast.BinOp) and isinstance(n.op, (ast.Mult, ast.Add, ast.Sub, ast.LShift)):
                        for side in (n.left, n.right):
                            b = side
                            while isinstance(b, ast.Subscript):
                                b = b.value
                            if isinstance(b, ast.Attribute) and isinstance(b.value, ast.Name) and b.value.id == sn and b.attr in narrow:
                                col.bad(where_of(f), f.rel, line_of(n), f"{c.name}.{b.attr} in '{norm(n)[:60]}'",
                                        f"self.{b.attr} is allocated by '{stmt_key(narrow[b.attr])}' with a narrow integer type and is "
                                        f"an operand of arithmetic here: the result keeps that type and wraps around (node number * "
                                        f"dofs per node exceeds 255 / 65535 long before the table itself does)")
    # local tables in functions
    for f in _functions(m):
        loc: Dict[str, ast.AST] = {}
        for n in ast.walk(f.node):
            if isinstance(n, ast.Assign) and isinstance(n.value, ast.Call) and len(n.targets) == 1 and isinstance(n.targets[0], ast.Name):
                dt = [k.value for k in n.value.keywords if k.arg == "dtype"]
                if dt and (norm(dt[0]) in NARROW_INT or "min_scalar_type" in norm(dt[0])):
                    loc[n.targets[0].id] = n
        for n in ast.walk(f.node):
            if isinstance(n, ast.BinOp) and isinstance(n.op, (ast.Mult, ast.LShift)):
                for side in (n.left, n.right):
                    b = side
                    while isinstance(b, ast.Subscript):
                        b = b.value
                    if isinstance(b, ast.Name) and b.id in loc:
                        col.bad(where_of(f), f.rel, line_of(n), f"{f.short}: '{b.id}' in '{norm(n)[:60]}'",
                                f"'{b.id}' is allocated with a narrow integer type ('{stmt_key(loc[b.id])}') and multiplied here: the "
                                f"product wraps around")
    dedupe(col)


@rule("R-LOOP-BUFFER", floor=0, witness_min=1)
def r_loop_buffer(ctx: RuleCtx, col: Collector):
    """A work array that is read as a whole inside a loop iteration after being filled through masked / indexed stores is
    created (or fully reset) in that iteration: hoisting the allocation in front of the loop leaves the entries an
    iteration does not store with the values of the previous one."""
    m = ctx.model
    todo = [f for _, f in module_methods(ctx, "_response") + module_methods(ctx, "_sensitivity")]
    todo += [f for f in _functions(m) if f.rel == "pymoto/_pmlint_witness.py"]
    seen = set()
    for f in todo:
        if id(f) in seen:
            continue
        seen.add(id(f))
        for lp in [n for n in ast.walk(f.node) if isinstance(n, (ast.For, ast.While))]:
            # arrays allocated before this loop, at the same nesting level as the loop or outside
            outer_allocs: Dict[str, ast.AST] = {}
            for n in ast.walk(f.node):
                if isinstance(n, ast.Assign) and len(n.targets) == 1 and isinstance(n.targets[0], ast.Name) and isinstance(n.value, ast.Call) and \
                        norm(n.value.func) in ("np.zeros", "np.zeros_like", "np.empty", "np.empty_like", "np.ones", "np.ones_like") and \
                        n.lineno < lp.lineno and not any(x is n for x in ast.walk(lp)):
                    outer_allocs[n.targets[0].id] = n
            for nm, at in outer_allocs.items():
                body_nodes = [x for b in lp.body for x in ast.walk(b)]
                rebound = any(isinstance(x, ast.Assign) and any(isinstance(t, ast.Name) and t.id == nm for t in x.targets) for x in body_nodes)
                whole_reset = any((isinstance(x, ast.Assign) and isinstance(x.targets[0], ast.Subscript) and norm(x.targets[0].value) == nm and
                                   norm(x.targets[0].slice) in (":", "...", "Ellipsis")) or
                                  (isinstance(x, ast.Call) and isinstance(x.func, ast.Attribute) and x.func.attr == "fill" and norm(x.func.value) == nm)
                                  for x in body_nodes)
                if rebound or whole_reset:
                    continue
                part_store = [x for x in body_nodes if isinstance(x, (ast.Assign, ast.AugAssign)) and
                              isinstance((x.targets[0] if isinstance(x, ast.Assign) else x.target), ast.Subscript) and
                              norm((x.targets[0] if isinstance(x, ast.Assign) else x.target).value) == nm]
                plain_assign = [x for x in part_store if isinstance(x, ast.Assign)]
                aug = [x for x in part_store if isinstance(x, ast.AugAssign)]
                whole_read = [x for x in body_nodes if isinstance(x, ast.Name) and x.id == nm and isinstance(x.ctx, ast.Load) and
                              not isinstance(parent(x), ast.Subscript)]
                # the signature of a per-iteration accumulator: assigned AND accumulated through indices, then read whole
                if plain_assign and aug and whole_read:
                    col.bad(where_of(f), f.rel, line_of(at), f"{f.short}: work array '{nm}' allocated in front of the loop at line {lp.lineno}",
                            f"'{nm}' is filled through indexed stores ('{stmt_key(plain_assign[0])}', '{stmt_key(aug[0])}') and then read as "
                            f"a whole ('{norm(parent(whole_read[0]))[:50]}') in every iteration, but it is allocated once before the loop "
                            f"and never reset: entries an iteration does not assign keep accumulating from the previous ones")
    dedupe(col)


@rule("R-FD-NO-SKIP", floor=1)
def r_fd_no_skip(ctx: RuleCtx, col: Collector):
    """finite_difference reports a pair for every perturbed entry of every input: nothing in the loop over the inputs is
    skipped on the strength of the *analytical* sensitivities (an input whose sensitivity came back None is exactly
    the case a forgotten dependency produces; it must be reported as 0 against the numerical value)."""
    m = ctx.model
    f = m.public_function("finite_difference")
    # names holding analytical sensitivities: assigned from expressions reading `.sensitivity`
    an = _dependent_names(f.node, set(), selfn=None)
    seeds = set()
    for n in ast.walk(f.node):
        if isinstance(n, (ast.Assign, ast.AugAssign)):
            val = n.value
            if any(isinstance(x, ast.Attribute) and x.attr == "sensitivity" and isinstance(x.ctx, ast.Load) for x in ast.walk(val)):
                tg = n.targets if isinstance(n, ast.Assign) else [n.target]
                for t in tg:
                    b = t
                    while isinstance(b, ast.Subscript):
                        b = b.value
                    if isinstance(b, ast.Name):
                        seeds.add(b.id)
    if not seeds:
        raise AnalysisError("finite_difference: analytical sensitivities not recognised")
    dep = _dependent_names(f.node, seeds)
    loops = [n for n in ast.walk(f.node) if isinstance(n, ast.For) and "enumerate" in norm(n.iter) and any(
        isinstance(x, ast.Call) and isinstance(x.func, ast.Attribute) and x.func.attr == "response" for x in ast.walk(n))]
    if not loops:
        raise AnalysisError("finite_difference: loop over the inputs not recognised")
    bad = False
    for lp in loops:
        for x in ast.walk(lp):
            if isinstance(x, (ast.Continue, ast.Break)):
                g = parent(x)
                guard = None
                while g is not lp and g is not None:
                    if isinstance(g, ast.If):
                        guard = g.test
                        break
                    g = parent(g)
                if guard is not None and (_names(guard) & dep):
                    bad = True
                    col.bad(where_of(f), f.rel, line_of(x), f"finite_difference: '{type(x).__name__.lower()}' under '{norm(guard)[:70]}'",
                            f"part of the perturbation loop is skipped depending on the analytical sensitivities "
                            f"({sorted(_names(guard) & dep)}): for an input whose sensitivity is None nothing is reported, so a module "
                            f"that forgot that dependency passes")
    if not bad:
        col.ok(where_of(f), f.rel, line_of(loops[0]), "finite_difference: no perturbation skipped on the analytical sensitivities",
               f"{len(loops)} input loop(s)")
