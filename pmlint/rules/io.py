"""Writer rules (C20): R-FMT-AGREE, R-SECTION-AGREE, R-TAG-BALANCE, R-LOG-LOCKSTEP."""
from __future__ import annotations

import ast
import re
from typing import Dict, List, Optional, Set, Tuple

from ..cfg import CFG, Node, STMT, TEST, FOR, WITH, run_typestate
from ..dep import DefUse
from ..model import stmt_key, AnalysisError, FuncInfo
from ..report import rule, Collector
from .common import RuleCtx, where_of, line_of, dedupe

U = ast.unparse


def norm(e) -> str:
    return "".join(U(e).split())


def _vti(ctx: RuleCtx) -> FuncInfo:
    m = ctx.model
    dd = m.public_class("DomainDefinition")
    f = m.resolve_method(dd, "write_to_vti")
    if f is None:
        raise AnalysisError("DomainDefinition.write_to_vti not found")
    return f


def _literal_text(e: ast.AST) -> str:
    """Constant text of a bytes / str / f-string expression (formatted values replaced by {})."""
    if isinstance(e, ast.Constant) and isinstance(e.value, (str, bytes)):
        return e.value.decode() if isinstance(e.value, bytes) else e.value
    if isinstance(e, ast.JoinedStr):
        return "".join(v.value if isinstance(v, ast.Constant) else "{}" for v in e.values)
    if isinstance(e, ast.Call) and isinstance(e.func, ast.Attribute) and e.func.attr == "encode":
        return _literal_text(e.func.value)
    if isinstance(e, ast.BinOp) and isinstance(e.op, ast.Add):
        return _literal_text(e.left) + _literal_text(e.right)
    return ""


def _writes(f: FuncInfo):
    out = []
    for n in ast.walk(f.node):
        if isinstance(n, ast.Call) and isinstance(n.func, ast.Attribute) and n.func.attr == "write" and n.args:
            out.append((n, _literal_text(n.args[0])))
    return out


def _guards(n: ast.AST, stop: ast.AST) -> Tuple[str, ...]:
    g = []
    p = getattr(n, "_parent", None)
    child = n
    while p is not None and p is not stop:
        if isinstance(p, ast.If):
            g.append(("if " if child in p.body else "else ") + norm(p.test))
        elif isinstance(p, ast.For):
            g.append("for " + norm(p.iter))
        elif isinstance(p, ast.While):
            g.append("while " + norm(p.test))
        child, p = p, getattr(p, "_parent", None)
    return tuple(reversed(g))


STRUCT_CODES = {"UInt64": ("Q", 8), "UInt32": ("I", 4), "Int64": ("q", 8), "Int32": ("i", 4)}
NP_OF_VTK = {"Float32": "float32", "Float64": "float64", "Int32": "int32", "Int64": "int64", "UInt8": "uint8"}


@rule("R-FMT-AGREE", floor=4)
def r_fmt_agree(ctx: RuleCtx, col: Collector):
    """The VTI writer's declarations agree with the data it writes: every DataArray declared with a VTK type writes data
    cast with the matching NumPy type; header_type matches the struct code of the block-length header; the declared
    byte_order and the struct prefix derive from the same byte-order test with a consistent mapping."""
    f = _vti(ctx)
    du = DefUse(f.node)
    ws = _writes(f)
    # DataArray declarations
    n_da = 0
    for call, text in ws:
        mt = re.search(r'<DataArray type="(\w+)"', text)
        if not mt:
            continue
        n_da += 1
        vt = mt.group(1)
        want = NP_OF_VTK.get(vt)
        # the data written in the same block: the argument of b64encode in the sibling statements
        blk = getattr(getattr(call, "_parent", None), "_parent", None)
        body = []
        p = getattr(call, "_parent", None)
        while p is not None and not hasattr(p, "body"):
            p = getattr(p, "_parent", None)
        stmts = p.body if p is not None else []
        data_names = []
        for st in stmts:
            for x in ast.walk(st):
                if isinstance(x, ast.Call) and norm(x.func).endswith("b64encode") and x.args and isinstance(x.args[0], ast.Name):
                    data_names.append(x.args[0].id)
        # every definition reaching the encoded name casts to the declared type: an assignment, or the element of a
        # sequence / generator the enclosing loop walks (for i, v in enumerate(blocks) with blocks = (a.astype(..) for ..))
        from .common import LoopElems
        seen_defs = 0

        def sources(name: str):
            out = []
            for x in ast.walk(f.node):
                if isinstance(x, ast.Assign) and any(isinstance(t, ast.Name) and t.id == name for t in x.targets):
                    out.append(("value", x.value))
                elif isinstance(x, ast.For):
                    le = LoopElems(x.target, x.iter)
                    if name in le.elems:
                        out.append(("elem", le.elems[name]))
                elif isinstance(x, (ast.ListComp, ast.GeneratorExp)):
                    for g in x.generators:
                        le = LoopElems(g.target, g.iter)
                        if name in le.elems:
                            out.append(("elem", le.elems[name]))
            return out

        def casts(e: ast.AST, elem: bool, depth: int = 0) -> bool:
            if depth > 6:
                return False
            if elem:
                # e is a sequence: its elements must be casts
                if isinstance(e, (ast.ListComp, ast.GeneratorExp)):
                    return casts(e.elt, False, depth + 1)
                if isinstance(e, ast.Name):
                    # a named sequence: every definition of the name is such a sequence (a sequence of sequences is not decided)
                    src = sources(e.id)
                    return bool(src) and all(k == "value" and casts(v, True, depth + 1) for k, v in src)
                return False
            t = norm(e)
            if isinstance(e, ast.Call) and (t.endswith(f".astype(np.{want})") or f"dtype=np.{want}" in t):
                return True
            if isinstance(e, ast.IfExp):
                return casts(e.body, False, depth + 1) and casts(e.orelse, False, depth + 1)
            if isinstance(e, ast.Subscript):
                return casts(e.value, False, depth + 1)
            if isinstance(e, ast.Name):
                src = sources(e.id)
                return bool(src) and all(casts(v, k == "elem", depth + 1) for k, v in src)
            return False

        casts_ok = True
        for dn in data_names[:1]:
            src = sources(dn)
            seen_defs = len(src)
            casts_ok = bool(src) and all(casts(v, k == "elem") for k, v in src)
        construct = f"DataArray type=\"{vt}\" ({'/'.join(_guards(call, f.node)[:1])})"
        if want is None:
            col.bad(where_of(f), f.rel, line_of(call), construct, f"unknown VTK type {vt}")
        elif casts_ok and seen_defs:
            col.ok(where_of(f), f.rel, line_of(call), construct, f"data cast with np.{want} in {seen_defs} definition(s)")
        else:
            col.bad(where_of(f), f.rel, line_of(call), construct,
                    f"the array is declared {vt} but the bytes written are not (all) produced by a cast to np.{want}: a "
                    f"reader decodes garbage (wrong item size)")
    if n_da < 2:
        raise AnalysisError("DataArray declarations not found")
    # header type vs struct code
    header = None
    for call, text in ws:
        mt = re.search(r'header_type="(\w+)"', text)
        if mt:
            header = (call, mt.group(1))
    packs = [n for n in ast.walk(f.node) if isinstance(n, ast.Call) and norm(n.func).endswith("struct.pack")]
    fmt_defs = []
    for p in packs:
        a = p.args[0]
        defs = du.defs.get(a.id, []) if isinstance(a, ast.Name) else [a]
        fmt_defs += defs
    codes = set()
    for d in fmt_defs:
        for c in ast.walk(d):
            if isinstance(c, ast.Constant) and isinstance(c.value, str) and c.value and c.value[-1].isalpha() and len(c.value) <= 2 \
                    and c.value not in ("<", ">"):
                codes.add(c.value[-1])
    if header is None or not packs:
        raise AnalysisError(f"{f.short}: header declaration or struct.pack not found")
    else:
        want = STRUCT_CODES.get(header[1], (None, None))[0]
        if codes == {want}:
            col.ok(where_of(f), f.rel, line_of(header[0]), f"header_type=\"{header[1]}\" vs struct code", f"'{want}'")
        else:
            col.bad(where_of(f), f.rel, line_of(header[0]), f"header_type=\"{header[1]}\" vs struct code",
                    f"block lengths are packed with struct code(s) {sorted(codes)} but the file declares header_type "
                    f"{header[1]} (code '{want}'): readers mis-parse every block header")
    # block-length header: the number packed is the byte count of the *raw* (un-encoded) data block
    for ipk, pk in enumerate(sorted(packs, key=lambda q: (q.lineno, q.col_offset))):
        if len(pk.args) < 2:
            continue
        val = pk.args[1]
        names = {x.id for x in ast.walk(val) if isinstance(x, ast.Name)}
        enc_names = set()
        for nm in names:
            for d in du.defs.get(nm, []):
                if any(isinstance(x, ast.Call) and norm(x.func).endswith("b64encode") for x in ast.walk(d)):
                    enc_names.add(nm)
        construct = f"block length header #{ipk + 1}"
        if enc_names:
            col.bad(where_of(f), f.rel, line_of(pk), construct,
                    f"the length written in front of a binary block is computed from '{sorted(enc_names)[0]}', the base64 "
                    f"*text*: the VTK XML format stores the byte count of the raw data (4/3 smaller), so a reader that honours "
                    f"the header decodes past the block")
        elif any(k in norm(val) for k in (".nbytes", ".tobytes()", ".itemsize", "len(")):
            col.ok(where_of(f), f.rel, line_of(pk), construct, f"raw byte count '{U(val)}'")
        else:
            raise AnalysisError(f"write_to_vti: cannot tell what the block length '{U(val)}' counts")
    # byte order
    tests = []
    for n in ast.walk(f.node):
        if isinstance(n, (ast.IfExp, ast.If)) and "sys.byteorder" in norm(n.test):
            tests.append(n)
    little_prefix = little_name = None
    for t in tests:
        tt = norm(t.test).replace('"', "'")
        neg = tt.startswith("not")
        is_little = ("=='little'" in tt or "!='big'" in tt) != neg
        body, orelse = (t.body, t.orelse) if is_little else (t.orelse, t.body)
        consts = [body] if isinstance(body, ast.AST) else [x for st in body for x in ast.walk(st)]
        for cst in consts:
            if isinstance(cst, ast.Constant) and cst.value in ("<", ">"):
                little_prefix = cst.value
            if isinstance(cst, ast.Constant) and isinstance(cst.value, str) and "Endian" in cst.value:
                little_name = cst.value
    if not tests:
        raise AnalysisError("write_to_vti: byte-order selection on sys.byteorder not found")
    if little_prefix == "<" and little_name == "LittleEndian":
        col.ok(where_of(f), f.rel, line_of(tests[0]), "byte order declaration vs struct prefix", "little -> '<' / LittleEndian")
    else:
        col.bad(where_of(f), f.rel, line_of(f.node), "byte order declaration vs struct prefix",
                f"on a little-endian machine the header is packed with prefix {little_prefix!r} and the file declares "
                f"{little_name!r}: they must be '<' and 'LittleEndian'")


@rule("R-SECTION-AGREE", floor=5)
def r_section_agree(ctx: RuleCtx, col: Collector):
    """Vectors classified by `size % nnodes` are written inside <PointData> using nnodes for axis / component detection,
    vectors classified by `size % nel` inside <CellData> using nel; WholeExtent and Piece Extent use the same three
    counts; 2-D vectors are padded to 3*nnodes values and declared with 3 components."""
    f = _vti(ctx)
    selfn = ctx.model.self_name(f)
    # classification: dict[key] = vec under a test on self.<count>
    cls: Dict[str, str] = {}
    for n in ast.walk(f.node):
        if isinstance(n, ast.Assign) and isinstance(n.targets[0], ast.Subscript) and isinstance(n.targets[0].value, ast.Name):
            g = _guards(n, f.node)
            for t in g:
                mt = re.search(rf"%{selfn}\.(\w+)==0", t)
                if mt and t.startswith(("if ", "else ")):
                    cls[n.targets[0].value.id] = mt.group(1)
    if len(cls) < 2:
        raise AnalysisError("VTI writer: cell/point classification not recognised")
    ws = _writes(f)
    for dname, count in sorted(cls.items()):
        loops = [n for n in ast.walk(f.node) if isinstance(n, ast.For) and norm(n.iter) == f"{dname}.items()"]
        want_tag = "PointData" if "node" in count else "CellData"
        if not loops:
            col.bad(where_of(f), f.rel, line_of(f.node), f"{dname} (size % {count}) written", f"vectors in {dname} are never written")
            continue
        lp = loops[0]
        used = set()
        for x in ast.walk(lp):
            if isinstance(x, ast.BinOp) and isinstance(x.op, (ast.Mod, ast.FloorDiv, ast.Div, ast.Mult)):
                for side in (x.left, x.right):
                    if isinstance(side, ast.Attribute) and norm(side.value) == selfn and side.attr in cls.values():
                        used.add(side.attr)
        others = used - {count}
        construct = f"{dname} (classified by size % self.{count})"
        if others:
            col.bad(where_of(f), f.rel, line_of(lp), construct + ": counts used inside its block",
                    f"the block that writes {dname} computes axis/components with self.{sorted(others)[0]} although the "
                    f"vectors were classified with self.{count}: wrong NumberOfComponents / IndexError")
        else:
            col.ok(where_of(f), f.rel, line_of(lp), construct + ": counts used inside its block", f"only self.{count}")
        # enclosing tag: the write immediately before the loop in the same block
        par = getattr(lp, "_parent", None)
        sibs = par.body if par is not None and hasattr(par, "body") else []
        i = sibs.index(lp) if lp in sibs else -1
        opening = ""
        for st in reversed(sibs[:i]):
            for c, t in ws:
                if c in list(ast.walk(st)) and "<" in t:
                    opening = t
                    break
            if opening:
                break
        if f"<{want_tag}>" in opening:
            col.ok(where_of(f), f.rel, line_of(lp), construct + f": inside <{want_tag}>", "")
        else:
            col.bad(where_of(f), f.rel, line_of(lp), construct + f": inside <{want_tag}>",
                    f"vectors classified with self.{count} are written after '{opening.strip()}' instead of <{want_tag}>")
    # extents
    ext = [t for c, t in ws if "Extent=" in t]
    exprs = []
    for c, t in ws:
        if "Extent=" in t and isinstance(c.args[0], ast.Call):
            js = c.args[0].func.value
            if isinstance(js, ast.JoinedStr):
                exprs.append([norm(v.value) for v in js.values if isinstance(v, ast.FormattedValue)])
    if len(exprs) >= 2 and exprs[0][:3] == exprs[1][:3] and len(exprs[0]) >= 3:
        col.ok(where_of(f), f.rel, line_of(f.node), "WholeExtent and Piece Extent agree", str(exprs[0][:3]))
    else:
        col.bad(where_of(f), f.rel, line_of(f.node), "WholeExtent and Piece Extent agree",
                f"the two extents are written from different counts: {exprs}")
    # padding
    t = norm(f.node)
    pad_alloc = re.search(rf"np\.zeros\(3\*{selfn}\.nnodes", t) is not None
    pad_flag = None
    for n in ast.walk(f.node):
        if isinstance(n, ast.If) and isinstance(n.test, ast.Name) and re.search(rf"np\.zeros\(3\*{selfn}\.nnodes", norm(n)):
            pad_flag = n.test.id
    pad_decl = pad_flag is not None and f"3if{pad_flag}else" in t
    if pad_flag is not None and not pad_decl:
        # the declared component count held in a local: 3 is assigned to it under the same flag
        for c_, t_ in ws:
            if "NumberOfComponents" not in t_ or not isinstance(c_.args[0], ast.Call):
                continue
            js = c_.args[0].func.value if isinstance(c_.args[0].func, ast.Attribute) else None
            if not isinstance(js, ast.JoinedStr):
                continue
            for k_, v_ in enumerate(js.values):
                if isinstance(v_, ast.FormattedValue) and k_ > 0 and isinstance(js.values[k_ - 1], ast.Constant) and \
                        str(js.values[k_ - 1].value).endswith('NumberOfComponents="') and isinstance(v_.value, ast.Name):
                    nm = v_.value.id
                    for n in ast.walk(f.node):
                        if isinstance(n, ast.If) and isinstance(n.test, ast.Name) and n.test.id == pad_flag and any(
                                isinstance(x, ast.Assign) and norm(x.targets[0]) == nm and norm(x.value) == "3" for x in n.body):
                            pad_decl = True
    if pad_alloc and not pad_decl:
        # the branch that allocates the padded array also sets the declared component count to 3
        for n in ast.walk(f.node):
            if isinstance(n, ast.If) and any(re.search(rf"np\.zeros\(3\*{selfn}\.nnodes", norm(b_)) for b_ in n.body):
                set3 = {norm(x.targets[0]) for b_ in n.body for x in ast.walk(b_) if isinstance(x, ast.Assign) and norm(x.value) == "3"}
                for c_, t_ in ws:
                    if "NumberOfComponents" not in t_ or not isinstance(c_.args[0], ast.Call) or not isinstance(c_.args[0].func, ast.Attribute):
                        continue
                    js = c_.args[0].func.value
                    if isinstance(js, ast.JoinedStr):
                        for k_, v_ in enumerate(js.values):
                            if isinstance(v_, ast.FormattedValue) and k_ > 0 and isinstance(js.values[k_ - 1], ast.Constant) and \
                                    str(js.values[k_ - 1].value).endswith('NumberOfComponents="') and norm(v_.value) in set3:
                                pad_decl = True
    if pad_alloc and pad_decl:
        col.ok(where_of(f), f.rel, line_of(f.node), "2-D vectors padded to 3 components", "3*nnodes values, 3 components declared")
    else:
        col.bad(where_of(f), f.rel, line_of(f.node), "2-D vectors padded to 3 components",
                "padding allocation (3*nnodes) and the declared NumberOfComponents (3 when padded) no longer agree")


@rule("R-TAG-BALANCE", floor=5, tier="thorough")
def r_tag_balance(ctx: RuleCtx, col: Collector):
    """Every XML element opened by the VTI writer is closed under the same guard (same enclosing conditions / loops)."""
    f = _vti(ctx)
    opens: Dict[str, List[Tuple[ast.AST, Tuple[str, ...]]]] = {}
    closes: Dict[str, List[Tuple[ast.AST, Tuple[str, ...]]]] = {}
    for call, text in _writes(f):
        g = _guards(call, f.node)
        for mt in re.finditer(r"<(/?)(\w+)", text):
            if mt.group(2) in ("xml",):
                continue
            (closes if mt.group(1) else opens).setdefault(mt.group(2), []).append((call, g))
    if len(opens) < 4:
        raise AnalysisError("VTI writer: XML tags not recognised")
    for tag in sorted(opens):
        o, c = opens[tag], closes.get(tag, [])
        og, cg = sorted(x[1] for x in o), sorted(x[1] for x in c)
        if og == cg:
            col.ok(where_of(f), f.rel, line_of(o[0][0]), f"<{tag}> closed", f"{len(o)} open / {len(c)} close under equal guards")
        else:
            col.bad(where_of(f), f.rel, line_of(o[0][0]), f"<{tag}> closed",
                    f"<{tag}> is opened under {og} but closed under {cg}: the file is not well-formed on some path")


@rule("R-LOG-LOCKSTEP", floor=4)
def r_log_lockstep(ctx: RuleCtx, col: Collector):
    """ScalarToFile: header names and row values are appended in lockstep whenever the header is collected, the header
    is collected iff it is the first iteration, and every call writes exactly one row and advances the counter once;
    WriteToVTI: the file name contains the counter unless overwriting, and the counter advances once per call."""
    m = ctx.model
    stf = m.public_class("ScalarToFile")
    f = m.resolve_method(stf, "_response")
    selfn = m.self_name(f)
    cfg = ctx.flow.cfg(f)
    # names: the row list and the header list
    tags = dat = None
    for n in ast.walk(f.node):
        if isinstance(n, ast.Assign) and isinstance(n.targets[0], ast.Name) and isinstance(n.value, ast.IfExp) and \
                isinstance(n.value.orelse, ast.Constant) and n.value.orelse.value is None:
            tags = n.targets[0].id
            tags_test = n.value.test
    if tags is None:
        # statement form: if <first call>: tags = [] else: tags = None
        for n in ast.walk(f.node):
            if isinstance(n, ast.If) and len(n.body) == 1 and len(n.orelse) == 1 and all(
                    isinstance(b, ast.Assign) and isinstance(b.targets[0], ast.Name) for b in (n.body[0], n.orelse[0])) and \
                    n.body[0].targets[0].id == n.orelse[0].targets[0].id:
                a, b = n.body[0].value, n.orelse[0].value
                if isinstance(a, ast.List) and not a.elts and isinstance(b, ast.Constant) and b.value is None:
                    tags, tags_test = n.body[0].targets[0].id, n.test
                elif isinstance(b, ast.List) and not b.elts and isinstance(a, ast.Constant) and a.value is None:
                    tags, tags_test = n.body[0].targets[0].id, ast.UnaryOp(op=ast.Not(), operand=n.test)
    for n in ast.walk(f.node):
        if isinstance(n, ast.Assign) and isinstance(n.targets[0], ast.Name) and isinstance(n.value, ast.List) and \
                n.targets[0].id != tags:
            dat = n.targets[0].id
            dat0 = len(n.value.elts)
    paired = False
    if tags is None or dat is None:
        # header and row produced together, as (name, value) pairs that are split afterwards: T, D = zip(*pairs)
        for n in ast.walk(f.node):
            if isinstance(n, ast.Assign) and isinstance(n.targets[0], ast.Tuple) and len(n.targets[0].elts) == 2 and \
                    all(isinstance(e, ast.Name) for e in n.targets[0].elts) and isinstance(n.value, ast.Call) and \
                    norm(n.value.func) == "zip" and len(n.value.args) == 1 and isinstance(n.value.args[0], ast.Starred):
                tags, dat = [e.id for e in n.targets[0].elts]
                paired = True
    pair_list = None
    if tags is None or dat is None:
        # ... or kept together as one list of (name, value) pairs, from which header and row are projected:
        #     sep.join(n for n, _ in cols)  /  sep.join(v for _, v in cols)
        cands = {}
        for n in ast.walk(f.node):
            if isinstance(n, (ast.GeneratorExp, ast.ListComp)) and len(n.generators) == 1 and isinstance(n.generators[0].iter, ast.Name) \
                    and isinstance(n.generators[0].target, ast.Tuple) and len(n.generators[0].target.elts) == 2 and isinstance(n.elt, ast.Name):
                names_ = [norm(e) for e in n.generators[0].target.elts]
                if n.elt.id in names_:
                    cands.setdefault(n.generators[0].iter.id, {})[names_.index(n.elt.id)] = n
        for lst, comps in cands.items():
            appended = [x for x in ast.walk(f.node) if isinstance(x, ast.Call) and isinstance(x.func, ast.Attribute) and x.func.attr == "append"
                        and norm(x.func.value) == lst]
            inits = [x.value for x in ast.walk(f.node) if isinstance(x, ast.Assign) and norm(x.targets[0]) == lst]
            pairs_only = all(len(x.args) == 1 and isinstance(x.args[0], ast.Tuple) and len(x.args[0].elts) == 2 for x in appended) and \
                all(isinstance(i_, ast.List) and all(isinstance(e, ast.Tuple) and len(e.elts) == 2 for e in i_.elts) for i_ in inits)
            if set(comps) == {0, 1} and appended and inits and pairs_only:
                pair_list = lst
                tags, dat = f"<{lst}:names>", f"<{lst}:values>"
                paired = True
                proj = {id(comps[0]): tags, id(comps[1]): dat}
    if tags is None or dat is None:
        raise AnalysisError("ScalarToFile._response: header / row lists not recognised")

    def mentions(e: ast.AST, role: str) -> bool:
        """does the expression use the header names (role = tags) / the row values (role = dat)?"""
        if pair_list is not None:
            return any(proj.get(id(y)) == role for y in ast.walk(e))
        return any(isinstance(y, ast.Name) and y.id == role for y in ast.walk(e))
    from .common import expand_names
    first_forms = (f"{selfn}.iter==0", f"0=={selfn}.iter", f"not{selfn}.iter!=0", f"not({selfn}.iter!=0)", f"notnot{selfn}.iter==0")
    if paired:
        from .common import dominating_tests
        hw = [nd for nd in cfg.simple_nodes() if nd.kind == STMT and nd.ast is not None and any(
            isinstance(x, ast.Call) and isinstance(x.func, ast.Attribute) and x.func.attr == "write" and
            any(mentions(a_, tags) for a_ in x.args) for x in ast.walk(nd.ast))]
        if not hw:
            raise AnalysisError("ScalarToFile._response: header write not recognised")
        for nd in hw:
            tests = [norm(expand_names(f.node, t)) for t, pol in dominating_tests(cfg, nd) if pol]
            if any(t in first_forms for t in tests):
                col.ok(where_of(f), f.rel, line_of(nd.ast), "header collected iff first iteration", "header written under the first-call test")
            else:
                col.bad(where_of(f), f.rel, line_of(nd.ast), "header collected iff first iteration",
                        f"the header is written under {tests or 'no test'} rather than on the first call only")
        col.ok(where_of(f), f.rel, line_of(f.node), "header names and row values appended in lockstep",
               f"{tags} and {dat} are the two halves of one sequence of (name, value) pairs")
        for w in [n for n in ast.walk(f.node) if isinstance(n, ast.With)]:
            for item in w.items:
                c = item.context_expr
                if isinstance(c, ast.Call) and isinstance(c.func, ast.Name) and c.func.id == "open" and len(c.args) >= 2:
                    md = c.args[1]
                    okm = isinstance(md, ast.IfExp) and norm(expand_names(f.node, md.test)) in first_forms and \
                        isinstance(md.body, ast.Constant) and str(md.body.value).startswith("w") and \
                        isinstance(md.orelse, ast.Constant) and str(md.orelse.value).startswith("a")
                    if okm:
                        col.ok(where_of(f), f.rel, line_of(w), "header written to a truncated file", f"mode {U(md)}")
                        col.ok(where_of(f), f.rel, line_of(w), "rows appended", f"mode {U(md)}")
                    elif isinstance(md, ast.Constant):
                        col.bad(where_of(f), f.rel, line_of(w), "header written to a truncated file / rows appended",
                                f"one mode '{md.value}' serves the first call (which must truncate) and the later ones (which must append)")
                    else:
                        raise AnalysisError(f"ScalarToFile._response: file mode '{U(md)}' not recognised")
    tt = norm(expand_names(f.node, tags_test)) if not paired else None
    if paired:
        pass
    elif tt in first_forms:
        col.ok(where_of(f), f.rel, line_of(tags_test), "header collected iff first iteration", U(tags_test))
    else:
        col.bad(where_of(f), f.rel, line_of(tags_test), "header collected iff first iteration",
                f"the header is collected when '{U(tags_test)}' rather than on the first call only")

    def appends(nd: Node, name: str) -> int:
        k = 0
        a = nd.ast
        if a is None or nd.kind not in (STMT,):
            return 0
        for x in ast.walk(a):
            if isinstance(x, ast.Call) and isinstance(x.func, ast.Attribute) and x.func.attr == "append" and norm(x.func.value) == name:
                k += 1
        return k

    def step(nd: Node, st):
        d = st
        a = nd.ast
        if nd.kind == STMT and isinstance(a, ast.Assign) and isinstance(a.targets[0], ast.Name):
            if a.targets[0].id == dat and isinstance(a.value, ast.List):
                d = d + len(a.value.elts)
            if a.targets[0].id == tags:
                d = d  # tags starts empty
        d = d + appends(nd, dat) - appends(nd, tags)
        d = max(-3, min(3, d))
        return [d]
    if not paired:
        at = run_typestate(cfg, [0], step, flag_sensitive=True, ignore_exc=True)
        bad_exit = set()
        for st, facts in at[cfg.exit]:
            fd = dict(facts)
            if fd.get(f"{tags} is None") is False and st != 0:
                bad_exit.add(st)
        # the correlated guard is `tags is not None`; with tags collected the difference must vanish at the exit
        if not bad_exit:
            col.ok(where_of(f), f.rel, line_of(f.node), "header names and row values appended in lockstep",
                   f"#{dat} - #{tags} = 0 at every exit where the header is collected")
        else:
            col.bad(where_of(f), f.rel, line_of(f.node), "header names and row values appended in lockstep",
                    f"on a path where the header is collected the row has {sorted(bad_exit)} more value(s) than the header has "
                    f"names: columns of the log file do not line up with its header")
        # file modes: the header write truncates, the row write appends
        for w in [n for n in ast.walk(f.node) if isinstance(n, ast.With)]:
            for item in w.items:
                c = item.context_expr
                if isinstance(c, ast.Call) and isinstance(c.func, ast.Name) and c.func.id == "open" and len(c.args) >= 2 and \
                        isinstance(c.args[1], ast.Constant):
                    mode = c.args[1].value
                    writes_header = any(mentions(b, tags) for b in w.body)
                    writes_row = any(mentions(b, dat) for b in w.body)
                    if writes_header:
                        if mode.startswith("w"):
                            col.ok(where_of(f), f.rel, line_of(w), "header written to a truncated file", f"mode '{mode}'")
                        else:
                            col.bad(where_of(f), f.rel, line_of(w), "header written to a truncated file",
                                    f"the header is written with mode '{mode}': a file left by an earlier run is not truncated, so "
                                    f"the log contains old rows and a second header")
                    if writes_row and not writes_header:
                        if mode.startswith("a"):
                            col.ok(where_of(f), f.rel, line_of(w), "rows appended", f"mode '{mode}'")
                        else:
                            col.bad(where_of(f), f.rel, line_of(w), "rows appended",
                                    f"rows are written with mode '{mode}': every call overwrites the earlier rows")
    # exactly one row write and one counter increment
    rowwrites = []
    incs = []
    for nd in cfg.simple_nodes():
        a = nd.ast
        if nd.kind == STMT and a is not None:
            for x in ast.walk(a):
                if isinstance(x, ast.Call) and isinstance(x.func, ast.Attribute) and x.func.attr == "write" and x.args and \
                        mentions(x.args[0], dat):
                    rowwrites.append(nd)
            if isinstance(a, ast.AugAssign) and norm(a.target) == f"{selfn}.iter" and isinstance(a.op, ast.Add):
                incs.append(nd)

    def count_paths(nodes):
        def st(nd, s):
            return [min(2, s + (1 if nd in nodes else 0))]
        r = run_typestate(cfg, [0], st, flag_sensitive=False, ignore_exc=True)
        return {s for s, _ in r[cfg.exit]}
    for what, nodes in (("row written exactly once per call", rowwrites), ("iteration counter advanced exactly once per call", incs)):
        c = count_paths(nodes)
        if c == {1}:
            col.ok(where_of(f), f.rel, line_of(nodes[0].ast), what, "")
        else:
            col.bad(where_of(f), f.rel, line_of(f.node), what, f"counts over the paths of _response: {sorted(c)}")
    # WriteToVTI
    w = m.public_class("WriteToVTI")
    g = m.resolve_method(w, "_response")
    gs = m.self_name(g)
    gcfg = ctx.flow.cfg(g)
    incs = [nd for nd in gcfg.simple_nodes() if nd.kind == STMT and isinstance(nd.ast, ast.AugAssign) and norm(nd.ast.target) == f"{gs}.iter"]

    def stg(nd, s):
        return [min(2, s + (1 if nd in incs else 0))]
    r = run_typestate(gcfg, [0], stg, flag_sensitive=False, ignore_exc=True)
    c = {s for s, _ in r[gcfg.exit]}
    if c == {1}:
        col.ok(where_of(g), g.rel, line_of(incs[0].ast), "WriteToVTI: counter advanced exactly once per call", "")
    else:
        col.bad(where_of(g), g.rel, line_of(g.node), "WriteToVTI: counter advanced exactly once per call", f"counts {sorted(c)}")
    named = False
    for n in ast.walk(g.node):
        if isinstance(n, ast.If) and f"{gs}.overwrite" in norm(n.test):
            other = n.orelse if norm(n.test) == f"{gs}.overwrite" else n.body
            named = any(f"{gs}.iter" in norm(x) for b in other for x in ast.walk(b) if isinstance(x, ast.Assign))
    if named:
        col.ok(where_of(g), g.rel, line_of(g.node), "WriteToVTI: file name carries the counter unless overwriting", "")
    else:
        col.bad(where_of(g), g.rel, line_of(g.node), "WriteToVTI: file name carries the counter unless overwriting",
                "without `overwrite` successive iterations are written to the same file name")
