"""Helpers shared by rules."""
from __future__ import annotations

import ast
from typing import Dict, Iterable, List, Optional, Set, Tuple

from ..flow import FlowCtx, Alias, Sink, Origin, matches, root_of, fmt_origin, o_state, o_sens, o_sig
from ..model import Model, FuncInfo, ClassInfo, stmt_key, AnalysisError
from ..report import Collector


class RuleCtx:
    def __init__(self, model: Model, flow: FlowCtx, tier: str):
        self.model = model
        self.flow = flow
        self.tier = tier
        self._alias: Dict[Tuple[str, Optional[str], bool], Alias] = {}

    def alias(self, f: FuncInfo, concrete: Optional[ClassInfo], role_env: bool = True) -> Alias:
        key = (f.qual, concrete.qual if concrete else None, role_env)
        if key not in self._alias:
            self._alias[key] = Alias(self.flow, f, concrete, role_env=role_env).run()
        return self._alias[key]


def chain(o: Origin) -> List[Origin]:
    """The origin and every object it is a field of."""
    out = [o]
    while o[0] == "field":
        o = o[1]
        out.append(o)
    return out


def hits(origins: Iterable[Origin], pats: Iterable[Origin]) -> List[Origin]:
    pats = list(pats)
    out = []
    for o in origins:
        if any(matches(x, p) for x in chain(o) for p in pats):
            out.append(o)
    return out


def hits_exact(origins: Iterable[Origin], pats: Iterable[Origin]) -> List[Origin]:
    pats = list(pats)
    return [o for o in origins if any(matches(o, p) for p in pats)]


def concrete_module_classes(model: Model) -> List[ClassInfo]:
    return model.module_classes()


def where_of(f: FuncInfo) -> str:
    return f.qual[len("pymoto."):] if f.qual.startswith("pymoto.") else f.qual


def line_of(node: ast.AST) -> int:
    return getattr(node, "lineno", 0)


def describe_sink(s: Sink) -> str:
    t = f"{s.kind} '{stmt_key(s.stmt)}'"
    if s.via:
        t += f" [{s.via}]"
    return t


def is_base_default(model: Model, f: FuncInfo, name: str) -> bool:
    """Is `f` the framework's default implementation on Module itself?"""
    return f.cls is model.module_base()


def dedupe(col: Collector):
    seen = {}
    out = []
    for o in col.obs:
        k = (o.key, o.status)
        if k in seen:
            continue
        seen[k] = o
        out.append(o)
    col.obs = out
