"""Helpers shared by rules."""
from __future__ import annotations

import ast
from typing import Dict, Iterable, List, Optional, Set, Tuple

from ..flow import FlowCtx, Alias, Sink, Origin, matches, root_of, fmt_origin, o_state, o_sens, o_sig
from ..model import Model, FuncInfo, ClassInfo, stmt_key, AnalysisError
from ..report import Collector


class RuleCtx:
    def __init__(self, model: Model, flow: FlowCtx, tier: str):
        self.model = model
        self.flow = flow
        self.tier = tier
        self._alias: Dict[Tuple[str, Optional[str], bool], Alias] = {}

    def alias(self, f: FuncInfo, concrete: Optional[ClassInfo], role_env: bool = True) -> Alias:
        key = (f.qual, concrete.qual if concrete else None, role_env)
        if key not in self._alias:
            self._alias[key] = Alias(self.flow, f, concrete, role_env=role_env).run()
        return self._alias[key]


def chain(o: Origin) -> List[Origin]:
    """The origin and every object it is a field of."""
    out = [o]
    while o[0] == "field":
        o = o[1]
        out.append(o)
    return out


def hits(origins: Iterable[Origin], pats: Iterable[Origin]) -> List[Origin]:
    pats = list(pats)
    out = []
    for o in origins:
        if any(matches(x, p) for x in chain(o) for p in pats):
            out.append(o)
    return out


def hits_exact(origins: Iterable[Origin], pats: Iterable[Origin]) -> List[Origin]:
    pats = list(pats)
    return [o for o in origins if any(matches(o, p) for p in pats)]


def concrete_module_classes(model: Model) -> List[ClassInfo]:
    return model.module_classes()


def where_of(f: FuncInfo) -> str:
    return f.qual[len("pymoto."):] if f.qual.startswith("pymoto.") else f.qual


def line_of(node: ast.AST) -> int:
    return getattr(node, "lineno", 0)


def describe_sink(s: Sink) -> str:
    t = f"{s.kind} '{stmt_key(s.stmt)}'"
    if s.via:
        t += f" [{s.via}]"
    return t


def is_base_default(model: Model, f: FuncInfo, name: str) -> bool:
    """Is `f` the framework's default implementation on Module itself?"""
    return f.cls is model.module_base()


def dedupe(col: Collector):
    seen = {}
    out = []
    for o in col.obs:
        k = (o.key, o.status)
        if k in seen:
            continue
        seen[k] = o
        out.append(o)
    col.obs = out


# ------------------------------------------------------------------------------------------- shared recognisers
import copy as _copy


def expand_names(fn: ast.FunctionDef, e: ast.AST, depth: int = 4) -> ast.AST:
    """Copy of `e` in which every local name that has exactly one definition in `fn` (a plain `name = expr`
    assignment, not a parameter, not loop-carried) is replaced by that definition, recursively.  Used before comparing
    expressions so that naming an intermediate does not change a verdict."""
    from ..model import _binding_counts
    cnt = _binding_counts(fn)
    defs = {}
    for n in ast.walk(fn):
        if isinstance(n, ast.Assign) and len(n.targets) == 1 and isinstance(n.targets[0], ast.Name) and \
                cnt.get(n.targets[0].id, 0) == 1:
            defs[n.targets[0].id] = n.value
    params = {a.arg for a in fn.args.posonlyargs + fn.args.args + fn.args.kwonlyargs}

    class X(ast.NodeTransformer):
        def __init__(self, d):
            self.d = d

        def visit_Name(self, node):
            if isinstance(node.ctx, ast.Load) and node.id in defs and node.id not in params and self.d > 0:
                return X(self.d - 1).visit(_copy.deepcopy(defs[node.id]))
            return node
    return X(depth).visit(_copy.deepcopy(e))


_TAG = None


def untag(text: str) -> str:
    """text without the suffixes the helper inliner appends to a helper's locals (`siz__gauss_points3` -> `siz`)"""
    global _TAG
    if _TAG is None:
        import re
        _TAG = re.compile(r"(?<=[A-Za-z0-9])__[A-Za-z][A-Za-z0-9_]*?\d+\b")
    return _TAG.sub("", text)


def canon_arith(e: ast.AST) -> str:
    """Text of an arithmetic expression with products/quotients flattened into sorted numerator / denominator factor
    lists and sums sorted, so that `n*(s/2)/r` and `(s/2)*n/r` compare equal."""
    def prod(x):
        if isinstance(x, ast.BinOp) and isinstance(x.op, ast.Mult):
            n1, d1 = prod(x.left)
            n2, d2 = prod(x.right)
            return n1 + n2, d1 + d2
        if isinstance(x, ast.BinOp) and isinstance(x.op, ast.Div):
            n1, d1 = prod(x.left)
            n2, d2 = prod(x.right)
            return n1 + d2, d1 + n2
        return [canon_arith(x)], []
    if isinstance(e, ast.BinOp) and isinstance(e.op, (ast.Mult, ast.Div)):
        n, d = prod(e)
        return "(" + "*".join(sorted(n)) + (")/(" + "*".join(sorted(d)) if d else "") + ")"
    if isinstance(e, ast.BinOp) and isinstance(e.op, ast.Add):
        return "(" + "+".join(sorted([canon_arith(e.left), canon_arith(e.right)])) + ")"
    if isinstance(e, ast.BinOp):
        return "(" + canon_arith(e.left) + type(e.op).__name__ + canon_arith(e.right) + ")"
    if isinstance(e, ast.Call):
        return "".join(ast.unparse(e.func).split()) + "(" + ",".join(
            [canon_arith(a) for a in e.args] + sorted(f"{k.arg}={canon_arith(k.value)}" for k in e.keywords)) + ")"
    if isinstance(e, ast.Subscript):
        return canon_arith(e.value) + "[" + "".join(ast.unparse(e.slice).split()) + "]"
    return "".join(ast.unparse(e).split())


def none_facts(cfg, nd):
    """{expression text: True/False}: on every path to `nd` the expression is None (True) / is not None (False), as
    established by dominating tests (conjuncts split, `is not` normalised)."""
    out = {}
    for t in cfg.dominators().get(nd, ()):
        if t.kind != "test" or t.ast is None or t is nd:
            continue
        for lab, truth in (("T", True), ("F", False)):
            succ = [s for s, l in t.succ if l == lab]
            other = [s for s, l in t.succ if l not in (lab, "exc")]
            if succ and nd in cfg.reachable(succ, labels_excluded=("exc",)) and \
                    nd not in cfg.reachable(other, blocked=[t], labels_excluded=("exc",)):
                for expr, isnone in _none_conjuncts(t.ast, truth):
                    out[expr] = isnone
    return out


def dominating_tests(cfg, nd):
    """[(test expression, truth)] of the branch decisions every path to `nd` has taken"""
    out = []
    for t in cfg.dominators().get(nd, ()):
        if t.kind != "test" or t.ast is None or t is nd:
            continue
        for lab, truth in (("T", True), ("F", False)):
            succ = [s for s, l in t.succ if l == lab]
            other = [s for s, l in t.succ if l not in (lab, "exc")]
            if succ and nd in cfg.reachable(succ, labels_excluded=("exc",)) and \
                    nd not in cfg.reachable(other, blocked=[t], labels_excluded=("exc",)):
                out.append((t.ast, truth))
    return out


def _bool_eval(e, val):
    """three-valued evaluation of a test under an assignment of its `X is None` atoms (other atoms: by text)"""
    if isinstance(e, ast.UnaryOp) and isinstance(e.op, ast.Not):
        return not _bool_eval(e.operand, val)
    if isinstance(e, ast.BoolOp):
        vs = [_bool_eval(v, val) for v in e.values]
        return all(vs) if isinstance(e.op, ast.And) else any(vs)
    if isinstance(e, ast.Compare) and len(e.ops) == 1 and isinstance(e.comparators[0], ast.Constant) and \
            e.comparators[0].value is None and isinstance(e.ops[0], (ast.Is, ast.IsNot)):
        v = val["N:" + "".join(ast.unparse(e.left).split())]
        return v if isinstance(e.ops[0], ast.Is) else not v
    return val["O:" + "".join(ast.unparse(e).split())]


def _bool_atoms(e, out):
    if isinstance(e, ast.UnaryOp) and isinstance(e.op, ast.Not):
        _bool_atoms(e.operand, out)
    elif isinstance(e, ast.BoolOp):
        for v in e.values:
            _bool_atoms(v, out)
    elif isinstance(e, ast.Compare) and len(e.ops) == 1 and isinstance(e.comparators[0], ast.Constant) and \
            e.comparators[0].value is None and isinstance(e.ops[0], (ast.Is, ast.IsNot)):
        out.add("N:" + "".join(ast.unparse(e.left).split()))
    else:
        out.add("O:" + "".join(ast.unparse(e).split()))


def none_entailed(constraints, expr_text: str) -> Optional[bool]:
    """Given branch decisions [(test, truth)], is `expr_text is None` forced True / forced False / open (None)?  Decided
    by enumeration over the atoms (`X is None` comparisons; anything else is an opaque boolean)."""
    import itertools
    atoms: Set[str] = set()
    for t, _ in constraints:
        _bool_atoms(t, atoms)
    key = "N:" + expr_text
    if key not in atoms or len(atoms) > 10:
        return None
    names = sorted(atoms)
    seen = set()
    for bits in itertools.product((False, True), repeat=len(names)):
        val = dict(zip(names, bits))
        if all(bool(_bool_eval(t, val)) == truth for t, truth in constraints):
            seen.add(val[key])
    if len(seen) == 1:
        return seen.pop()
    return None


def _none_conjuncts(test, truth):
    if isinstance(test, ast.UnaryOp) and isinstance(test.op, ast.Not):
        return _none_conjuncts(test.operand, not truth)
    if isinstance(test, ast.BoolOp):
        if (isinstance(test.op, ast.And) and truth) or (isinstance(test.op, ast.Or) and not truth):
            out = []
            for v in test.values:
                out += _none_conjuncts(v, truth)
            return out
        return []
    if isinstance(test, ast.Compare) and len(test.ops) == 1 and isinstance(test.comparators[0], ast.Constant) and \
            test.comparators[0].value is None and isinstance(test.ops[0], (ast.Is, ast.IsNot)):
        isnone = isinstance(test.ops[0], ast.Is)
        return [("".join(ast.unparse(test.left).split()), isnone if truth else not isnone)]
    return []


# ------------------------------------------------------------------------------------- lockstep iteration
class LoopElems:
    """What the names bound by one `for` / comprehension clause denote: `elems[name]` is the sequence the name walks
    through, element by element and in lockstep with every other bound name (for x in S; for i, x in enumerate(S);
    for a, b in zip(A, B); for i, (a, b) in enumerate(zip(A, B))), `idx` the name of the position counter (from
    enumerate, or the target of `for i in range(...)`, in which case `count` is range's argument)."""

    def __init__(self, target: ast.AST, it: ast.AST):
        self.elems: Dict[str, ast.AST] = {}
        self.idx: Optional[str] = None
        self.count: Optional[ast.AST] = None
        self.reversed = False
        self._bind(target, it)

    def _bind(self, target, it):
        if isinstance(it, ast.Call) and isinstance(it.func, ast.Name) and not it.keywords:
            fn = it.func.id
            if fn == "enumerate" and len(it.args) == 1 and isinstance(target, ast.Tuple) and len(target.elts) == 2 \
                    and isinstance(target.elts[0], ast.Name):
                self.idx = target.elts[0].id
                self._bind(target.elts[1], it.args[0])
                return
            if fn == "zip" and isinstance(target, ast.Tuple) and len(target.elts) == len(it.args) \
                    and not any(isinstance(a, ast.Starred) for a in it.args):
                for t, a in zip(target.elts, it.args):
                    self._bind(t, a)
                return
            if fn == "range" and len(it.args) == 1 and isinstance(target, ast.Name):
                self.idx = target.id
                self.count = it.args[0]
                return
        if isinstance(target, ast.Name):
            self.elems[target.id] = it

    def denotes(self, e: ast.AST) -> Optional[str]:
        """normalised text of the sequence whose current element `e` is, or None"""
        if isinstance(e, ast.Name) and e.id in self.elems:
            return "".join(ast.unparse(self.elems[e.id]).split())
        if isinstance(e, ast.Subscript) and isinstance(e.slice, ast.Name) and e.slice.id == self.idx and self.idx:
            return "".join(ast.unparse(e.value).split())
        return None


def flat_sequence_parts(it: ast.AST) -> Optional[List[ast.AST]]:
    """`A + B + C`, `(*A, *B)`, `[*A, *B]`, `itertools.chain(A, B)`: the concatenated sequences in order; None if
    `it` is not a pure concatenation"""
    if isinstance(it, ast.BinOp) and isinstance(it.op, ast.Add):
        l, r = flat_sequence_parts(it.left), flat_sequence_parts(it.right)
        return (l or [it.left]) + (r or [it.right])
    if isinstance(it, (ast.Tuple, ast.List)) and it.elts and all(isinstance(x, ast.Starred) for x in it.elts):
        return [x.value for x in it.elts]
    if isinstance(it, ast.Call) and ast.unparse(it.func) in ("chain", "itertools.chain") and it.args and not it.keywords \
            and not any(isinstance(a, ast.Starred) for a in it.args):
        return list(it.args)
    return None
