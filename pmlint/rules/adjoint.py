"""Response/sensitivity agreement rules (C01, C12): R-ARITY, R-NULL-SEED, R-ADJ-TRANS, R-SCATTER, R-INDEX-PAIR,
R-EINSUM-VJP, R-TRANSPOSE-PAIR, R-CONV-PAIR, R-FILTER-ORDER, R-CLONE-OVERHANG."""
from __future__ import annotations

import ast
import re
from typing import Dict, List, Optional, Set, Tuple

from ..cfg import CFG, Node, STMT, TEST, FOR, WITH, HANDLER
from ..dep import DefUse
from ..flow import o_sens, o_state, K_LIST, K_TUPLE, UNK
from ..model import stmt_key, AnalysisError, FuncInfo, ClassInfo
from ..report import rule, Collector
from .common import expand_names, RuleCtx, where_of, line_of, hits, dedupe, chain
from .eff import module_methods
from .fresh import _af

U = ast.unparse


def norm(e) -> str:
    return "".join(U(e).split())


# --------------------------------------------------------------------------------------------------- arity
def _return_counts(ctx: RuleCtx, c: ClassInfo, f: FuncInfo) -> List[Tuple[ast.AST, object, str]]:
    """(return node, count | 'variadic', how) for every return of `f` (falling off the end counts as zero)."""
    an = ctx.alias(f, c)
    out = []
    cfg = an.cfg
    for nd in cfg.simple_nodes():
        if nd.kind != STMT or not isinstance(nd.ast, ast.Return):
            continue
        v = nd.ast.value
        if v is None or (isinstance(v, ast.Constant) and v.value is None):
            out.append((nd.ast, 0, "returns None"))
            continue
        if isinstance(v, (ast.Tuple, ast.List)):
            if any(isinstance(x, ast.Starred) for x in v.elts):
                out.append((nd.ast, "variadic", "starred elements"))
            else:
                out.append((nd.ast, len(v.elts), "literal"))
            continue
        if isinstance(v, ast.ListComp):
            out.append((nd.ast, "variadic", "list comprehension"))
            continue
        env = an.state_in.get(nd)
        kinds = an.eval(v, dict(env)).kinds if env is not None else UNK
        if kinds and kinds <= {K_LIST, K_TUPLE}:
            # a Python sequence held in a name: literal length if its single definition is a literal
            n = None
            if isinstance(v, ast.Name):
                defs = [x.value for x in ast.walk(f.node) if isinstance(x, ast.Assign) and any(
                    isinstance(t, ast.Name) and t.id == v.id for t in x.targets)]
                if len(defs) == 1 and isinstance(defs[0], (ast.List, ast.Tuple)) and defs[0].elts and \
                        not any(isinstance(x, ast.Call) and isinstance(x.func, ast.Attribute) and x.func.attr in ("append", "extend")
                                and norm(x.func.value) == v.id for x in ast.walk(f.node)):
                    n = len(defs[0].elts)
            out.append((nd.ast, n if n is not None else "variadic", "sequence built at run time" if n is None else "literal via name"))
            continue
        out.append((nd.ast, 1, "single value"))
    # fall-through
    if any(not (p.kind == STMT and isinstance(p.ast, ast.Return)) for p, lab in cfg.exit.pred):
        out.append((f.node, 0, "falls off the end"))
    return out


@rule("R-ARITY", floor=40, witness_min=1)
def r_arity(ctx: RuleCtx, col: Collector):
    """The call completes without raising: the number of values `_response` returns on every return path equals the
    number of seeds `_sensitivity` takes, and every `_sensitivity` return has one entry per `_response` parameter
    (variadic sides are recorded as such, not guessed).  Module.response/sensitivity raise TypeError on a mismatch."""
    m = ctx.model
    for c, sens in module_methods(ctx, "_sensitivity"):
        resp = m.resolve_method(c, "_response")
        if resp is None or resp.cls is m.module_base():
            continue
        if m.is_abstract(c) and resp.cls is not c and sens.cls is not c:
            pass
        n_in = "variadic" if resp.vararg() else len(resp.pos_params())
        n_out = "variadic" if sens.vararg() else len(sens.pos_params())
        for (node, cnt, how) in _return_counts(ctx, c, resp):
            construct = f"{c.name}: {resp.short} {stmt_key(node) if isinstance(node, ast.Return) else 'end of function'}"
            if cnt == 0 and how == "falls off the end" and any(isinstance(x, ast.Raise) for x in ast.walk(resp.node)) and \
                    not any(isinstance(x, ast.Return) for x in ast.walk(resp.node)):
                continue  # abstract body that only raises
            if cnt == "variadic" or n_out == "variadic":
                col.ok(c.name, resp.rel, line_of(node), construct, f"variadic-matched ({how}; seeds: {n_out})")
            elif cnt == n_out or (cnt == 0 and n_out == 0):
                col.ok(c.name, resp.rel, line_of(node), construct, f"{cnt} value(s) for {n_out} seed parameter(s)")
            else:
                col.bad(c.name, resp.rel, line_of(node), construct,
                        f"{resp.short} returns {cnt} value(s) here but {sens.short} takes {n_out} seed(s): "
                        f"response()/sensitivity() raise TypeError for this module")
        for (node, cnt, how) in _return_counts(ctx, c, sens):
            construct = f"{c.name}: {sens.short} {stmt_key(node) if isinstance(node, ast.Return) else 'end of function'}"
            if cnt == "variadic" or n_in == "variadic":
                col.ok(c.name, sens.rel, line_of(node), construct, f"variadic-matched ({how}; inputs: {n_in})")
            elif cnt == n_in:
                col.ok(c.name, sens.rel, line_of(node), construct, f"{cnt} entr(ies) for {n_in} input(s)")
            elif how == "falls off the end" and _end_guarded_by_len(sens.node):
                col.ok(c.name, sens.rel, line_of(node), construct, "end reached only for an unsupported number of inputs")
            else:
                col.bad(c.name, sens.rel, line_of(node), construct,
                        f"{sens.short} returns {cnt} entr(ies) here but {resp.short} takes {n_in} input(s): "
                        f"sensitivity() raises TypeError ('Number of sensitivities calculated ... unequal')")
    dedupe(col)


def _end_guarded_by_len(fn: ast.FunctionDef) -> bool:
    last = fn.body[-1]
    return isinstance(last, ast.If) and "len(self.sig_in)" in norm(last.test)


# ----------------------------------------------------------------------------------------------- null seeds
NULLDEREF_FUNCS_MODULES = ("numpy.", "scipy.")


class NullAnalysis:
    """Forward analysis: which names may be None.  Reports dereferences of possibly-None tracked names."""

    def __init__(self, ctx: RuleCtx, f: FuncInfo, c: Optional[ClassInfo], maybe_none: Set[str], depth=0):
        self.ctx, self.f, self.c, self.depth = ctx, f, c, depth
        self.m = ctx.model
        self.cfg = ctx.flow.cfg(f)
        self.init = set(maybe_none)
        self.derefs: List[Tuple[ast.AST, str, str]] = []     # (node, var, how) unguarded
        self.guarded = 0
        self.run()

    def run(self):
        cfg = self.cfg
        state: Dict[Node, Optional[frozenset]] = {n: None for n in cfg.nodes}
        state[cfg.entry] = frozenset(self.init)
        work = [cfg.entry]
        while work:
            n = work.pop()
            s = state[n]
            outs = self.transfer(n, s, collect=False)
            for succ, lab in n.succ:
                o = outs.get(lab, outs.get(None))
                if o is None:
                    continue
                old = state[succ]
                new = o if old is None else (old | o)
                if old is None or new != old:
                    state[succ] = new
                    work.append(succ)
        seen = set()
        for n, s in state.items():
            if s is not None:
                self.transfer(n, s, collect=True)

    def transfer(self, n: Node, s: frozenset, collect: bool):
        a = n.ast
        if n.kind == TEST:
            if collect:
                self.scan(a, s)
            t, f_ = set(s), set(s)
            self.refine(a, t, True)
            self.refine(a, f_, False)
            return {"T": frozenset(t), "F": frozenset(f_), "exc": s, None: s}
        if n.kind == STMT:
            if collect:
                self.scan(a, s)
            out = set(s)
            if isinstance(a, ast.Assign):
                for tg in a.targets:
                    self.assign(tg, a.value, out, s)
            elif isinstance(a, ast.AnnAssign) and a.value is not None:
                self.assign(a.target, a.value, out, s)
            return {None: frozenset(out), "exc": s}
        if n.kind == FOR:
            if collect:
                self.scan(a.iter, s)
            out = set(s)
            for x in ast.walk(a.target):
                if isinstance(x, ast.Name):
                    out.discard(x.id)
            return {"loop": frozenset(out), "done": s, "exc": s, None: s}
        if n.kind == WITH:
            return {None: s, "exc": s}
        return {None: s}

    def may_be_none(self, e: ast.AST, s) -> bool:
        # only None-ness that flows from the tracked seeds is followed (a literal None assigned to some other
        # local is correlated with conditions this analysis does not model)
        if isinstance(e, ast.Name):
            return e.id in s
        if isinstance(e, ast.IfExp):
            return self.may_be_none(e.body, s) or self.may_be_none(e.orelse, s)
        return False

    def assign(self, tg, val, out: set, s):
        if isinstance(tg, ast.Name):
            if self.may_be_none(val, s):
                out.add(tg.id)
            else:
                out.discard(tg.id)
        elif isinstance(tg, (ast.Tuple, ast.List)):
            vals = val.elts if isinstance(val, (ast.Tuple, ast.List)) and len(val.elts) == len(tg.elts) else None
            for i, x in enumerate(tg.elts):
                if isinstance(x, ast.Name):
                    if vals is not None and self.may_be_none(vals[i], s):
                        out.add(x.id)
                    else:
                        out.discard(x.id)

    def _call_may_return_none(self, c: ast.Call) -> bool:
        for g in self.m.resolve_call(self.f, c, concrete=self.c):
            for n in ast.walk(g.node):
                if isinstance(n, ast.Return) and n.value is not None:
                    for x in (n.value.elts if isinstance(n.value, ast.Tuple) else [n.value]):
                        if isinstance(x, ast.Constant) and x.value is None:
                            return True
                        if isinstance(x, ast.IfExp) and any(isinstance(y, ast.Constant) and y.value is None for y in (x.body, x.orelse)):
                            return True
        return False

    def refine(self, test, s: set, truth: bool):
        if isinstance(test, ast.UnaryOp) and isinstance(test.op, ast.Not):
            return self.refine(test.operand, s, not truth)
        if isinstance(test, ast.BoolOp):
            if (isinstance(test.op, ast.And) and truth) or (isinstance(test.op, ast.Or) and not truth):
                for v in test.values:
                    self.refine(v, s, truth)
            return
        if isinstance(test, ast.Compare) and len(test.ops) == 1 and isinstance(test.left, ast.Name) and \
                isinstance(test.comparators[0], ast.Constant) and test.comparators[0].value is None:
            isnone = isinstance(test.ops[0], (ast.Is, ast.Eq))
            isnot = isinstance(test.ops[0], (ast.IsNot, ast.NotEq))
            if (isnot and truth) or (isnone and not truth):
                s.discard(test.left.id)
        elif isinstance(test, ast.Name) and truth:
            s.discard(test.id)

    def scan(self, e: ast.AST, s):
        """Report dereferences of names in `s` inside expression/statement e (short-circuit guards respected for
        `x is not None and x[...]` / IfExp)."""
        if e is None:
            return
        self._scan(e, set(s))

    def _deref(self, node, name, how, s):
        if name in s:
            self.derefs.append((node, name, how))
        elif name in self.init:
            self.guarded += 1

    def _scan(self, e, s: set):
        if isinstance(e, ast.BoolOp):
            cur = set(s)
            for v in e.values:
                self._scan(v, cur)
                self.refine(v, cur, isinstance(e.op, ast.And))
            return
        if isinstance(e, ast.IfExp):
            self._scan(e.test, s)
            t, f_ = set(s), set(s)
            self.refine(e.test, t, True)
            self.refine(e.test, f_, False)
            self._scan(e.body, t)
            self._scan(e.orelse, f_)
            return
        if isinstance(e, ast.Subscript) and isinstance(e.value, ast.Name):
            self._deref(e, e.value.id, f"subscript '{U(e)}'", s)
        if isinstance(e, ast.Attribute) and isinstance(e.value, ast.Name):
            self._deref(e, e.value.id, f"attribute '{U(e)}'", s)
        if isinstance(e, ast.BinOp):
            for x in (e.left, e.right):
                if isinstance(x, ast.Name):
                    self._deref(e, x.id, f"arithmetic '{U(e)}'", s)
        if isinstance(e, ast.UnaryOp) and not isinstance(e.op, ast.Not) and isinstance(e.operand, ast.Name):
            self._deref(e, e.operand.id, f"arithmetic '{U(e)}'", s)
        if isinstance(e, ast.AugAssign):
            for x in (e.target, e.value):
                if isinstance(x, ast.Name):
                    self._deref(e, x.id, f"in-place arithmetic '{stmt_key(e)}'", s)
        if isinstance(e, ast.Compare):
            ops_ident = all(isinstance(o, (ast.Is, ast.IsNot)) for o in e.ops)
            none_cmp = any(isinstance(x, ast.Constant) and x.value is None for x in [e.left] + e.comparators)
            if not ops_ident and not none_cmp:
                for x in [e.left] + e.comparators:
                    if isinstance(x, ast.Name):
                        self._deref(e, x.id, f"comparison '{U(e)}'", s)
        if isinstance(e, ast.Call):
            callees = self.m.resolve_call(self.f, e, concrete=self.c)
            dotted = self.m.expr_dotted(self.f.module, e.func) if isinstance(e.func, (ast.Name, ast.Attribute)) else None
            for i, a in enumerate(e.args):
                if not isinstance(a, ast.Name):
                    continue
                if callees and self.depth < 3:
                    for g in callees:
                        ps = g.pos_params()
                        if i < len(ps):
                            sub = NullAnalysis(self.ctx, g, self.c if (g.cls and self.c and self.m.is_subclass(self.c, g.cls)) else g.cls,
                                               {ps[i]} if a.id in s else set(), self.depth + 1)
                            if a.id in s and sub.derefs:
                                nd, var, how = sub.derefs[0]
                                self.derefs.append((e, a.id, f"passed to {g.short}, which dereferences it unguarded "
                                                              f"({how} at L{getattr(nd, 'lineno', 0)})"))
                            elif a.id in self.init:
                                self.guarded += 1
                elif dotted and dotted.startswith(NULLDEREF_FUNCS_MODULES):
                    self._deref(e, a.id, f"argument of {dotted.split('.', 1)[1]}()", s)
        if isinstance(e, (ast.ListComp, ast.GeneratorExp, ast.SetComp)):
            for g in e.generators:
                self._scan(g.iter, s)
                if isinstance(g.iter, ast.Name):
                    self._deref(e, g.iter.id, f"iteration over '{g.iter.id}'", s)
            self._scan(e.elt, s)
            return
        for ch in ast.iter_child_nodes(e):
            if isinstance(ch, (ast.expr, ast.keyword)):
                self._scan(ch.value if isinstance(ch, ast.keyword) else ch, s)
            elif isinstance(ch, ast.stmt):
                pass


@rule("R-NULL-SEED", floor=2, witness_min=1)
def r_null_seed(ctx: RuleCtx, col: Collector):
    """An unseeded output counts as zero: in every module with two or more outputs each seed parameter of
    `_sensitivity` may be None, and every dereference of it (subscript, attribute, arithmetic, argument to a callee
    that dereferences it) must be dominated by a None refinement; interprocedural through repository helpers."""
    m = ctx.model
    for c, sens in module_methods(ctx, "_sensitivity"):
        ps = sens.pos_params()
        if len(ps) < 2:
            continue
        na = NullAnalysis(ctx, sens, c, set(ps))
        if na.derefs:
            seen = set()
            for node, var, how in na.derefs:
                key = (getattr(node, "lineno", 0), var)
                if key in seen:
                    continue
                seen.add(key)
                col.bad(where_of(sens), sens.rel, line_of(node), f"{c.name}: seed '{var}' {how[:80]}",
                        f"seed '{var}' may be None (that output was not seeded) but is used here without a None test: {how}")
        else:
            col.ok(where_of(sens), sens.rel, line_of(sens.node), f"{c.name}: {sens.short} tolerates None seeds",
                   f"seeds {ps}; {na.guarded} guarded uses")
    dedupe(col)


# -------------------------------------------------------------------------------------------------- adjoint trans
@rule("R-ADJ-TRANS", floor=3)
def r_adj_trans(ctx: RuleCtx, col: Collector):
    """The adjoint of a linear solve is a transposed solve: every `<solver>.solve(...)` reached from a `_sensitivity`
    closure passes trans='T' (the library's bilinear convention), or trans='H' sandwiched between conjugations."""
    m = ctx.model
    sb = m.solver_base()
    for c, sens in module_methods(ctx, "_sensitivity"):
        af = _af(ctx, c)
        resp = m.resolve_method(c, "_response")
        resp_closure = set(g.qual for g in af.closure(resp)) if resp is not None else set()
        for f in af.closure(sens):
            if f.qual in resp_closure:
                continue
            for n in ast.walk(f.node):
                if not (isinstance(n, ast.Call) and isinstance(n.func, ast.Attribute) and n.func.attr == "solve"):
                    continue
                tys = m.expr_types(f, n.func.value, c, ctx.flow.attr_types(c))
                if not any(m.classes.get(t) is not None and m.is_subclass(m.classes[t], sb) for t in tys):
                    continue
                tr = None
                for k in n.keywords:
                    if k.arg == "trans":
                        tr = k.value
                if tr is None and len(n.args) >= 3:
                    tr = n.args[2]
                construct = f"{stmt_key(n)} in {f.short}"
                if tr is None or not isinstance(tr, ast.Constant):
                    col.bad(where_of(f), f.rel, line_of(n), construct,
                            f"adjoint solve without an explicit transposition mode (defaults to 'N'): for a "
                            f"non-symmetric matrix the sensitivity is that of the transposed system")
                elif tr.value == "T":
                    col.ok(where_of(f), f.rel, line_of(n), construct, "trans='T'")
                elif tr.value == "H":
                    arg0 = n.args[0] if n.args else None
                    par = getattr(n, "_parent", None)
                    conj_in = arg0 is not None and any(isinstance(x, ast.Call) and isinstance(x.func, ast.Attribute)
                                                       and x.func.attr in ("conj", "conjugate") for x in ast.walk(arg0))
                    conj_out = isinstance(par, ast.Attribute) and par.attr in ("conj", "conjugate")
                    if conj_in and conj_out:
                        col.ok(where_of(f), f.rel, line_of(n), construct, "trans='H' between conjugations (= 'T')")
                    else:
                        col.bad(where_of(f), f.rel, line_of(n), construct,
                                "trans='H' without conjugating the argument and the result: wrong for complex matrices")
                else:
                    col.bad(where_of(f), f.rel, line_of(n), construct,
                            f"adjoint solve uses trans='{tr.value}': the sensitivities are those of the transposed "
                            f"system (only correct for symmetric matrices, which is all the suite exercises)")
    dedupe(col)


# ------------------------------------------------------------------------------------------- scatter / index pair
REPEAT_SOURCES = {"get_dofconnectivity", "pad", "kron", "repeat", "tile", "get_elemconnectivity"}


def _repeat_index_attrs(ctx: RuleCtx, c: ClassInfo) -> Dict[str, str]:
    """Attributes holding index tables that may contain repeated indices (element->dof connectivity, padded element
    maps): provenance through the construction-time methods."""
    m = ctx.model
    af = _af(ctx, c)
    out: Dict[str, str] = {}
    funcs = []
    for k in m.mro(c):
        for defs in k.methods.values():
            for f in defs:
                if m.self_name(f):
                    funcs.append(f)
    changed = True
    rounds = 0
    while changed and rounds < 4:
        changed = False
        rounds += 1
        for f in funcs:
            selfn = m.self_name(f)
            du = DefUse(f.node)
            for s in af.sites(f):
                if s.sub or s.attr in out:
                    continue
                why = _repeat_prov(ctx, c, f, s.value, du, selfn, out, set())
                if why:
                    out[s.attr] = why
                    changed = True
    return out


def _repeat_prov(ctx, c, f, e, du, selfn, known, seen) -> Optional[str]:
    m = ctx.model
    for n in ast.walk(e):
        if isinstance(n, ast.Call) and isinstance(n.func, (ast.Attribute, ast.Name)):
            name = n.func.attr if isinstance(n.func, ast.Attribute) else n.func.id
            if name in REPEAT_SOURCES:
                return f"{name}()"
            if isinstance(n.func, ast.Attribute) and isinstance(n.func.value, ast.Name) and n.func.value.id == selfn:
                for g in m.resolve_call(f, n, concrete=c):
                    if g.qual in seen:
                        continue
                    seen.add(g.qual)
                    gdu = DefUse(g.node)
                    gs = m.self_name(g)
                    for r in ast.walk(g.node):
                        if isinstance(r, ast.Return) and r.value is not None:
                            w = _repeat_prov(ctx, c, g, r.value, gdu, gs, known, seen)
                            if w:
                                return f"{g.name}() -> {w}"
        if isinstance(n, ast.Attribute) and n.attr == "conn":
            return ".conn"
        if isinstance(n, ast.Attribute) and isinstance(n.value, ast.Name) and n.value.id == selfn and n.attr in known:
            return f"self.{n.attr}"
        if isinstance(n, ast.Name) and n.id not in seen and n.id in du.defs:
            seen.add(n.id)
            for d in du.defs[n.id]:
                w = _repeat_prov(ctx, c, f, d, du, selfn, known, seen)
                if w:
                    return w
    return None


def _index_attr(sl: ast.AST, selfn: str) -> Optional[str]:
    if isinstance(sl, ast.Attribute) and isinstance(sl.value, ast.Name) and sl.value.id == selfn:
        return sl.attr
    return None


@rule("R-SCATTER", floor=3, witness_min=1)
def r_scatter(ctx: RuleCtx, col: Collector):
    """The adjoint of a gather through an index table with repeated entries is an *accumulating* scatter: a store
    through such a table (element->dof connectivity, padded element maps) must be np.add.at / np.bincount;
    `buf[idx] = v` and `buf[idx] += v` silently keep only the last contribution per repeated index."""
    m = ctx.model
    for c in m.module_classes():
        rep = _repeat_index_attrs(ctx, c)
        if not rep:
            continue
        for name in ("_response", "_sensitivity"):
            f0 = m.resolve_method(c, name)
            if f0 is None or f0.cls is m.module_base():
                continue
            for f in _af(ctx, c).closure(f0):
                selfn = m.self_name(f)
                for n in ast.walk(f.node):
                    if isinstance(n, (ast.Assign, ast.AugAssign)):
                        tg = n.targets if isinstance(n, ast.Assign) else [n.target]
                        for t in tg:
                            if isinstance(t, ast.Subscript):
                                a = _index_attr(t.slice, selfn)
                                if a in rep:
                                    col.bad(where_of(f), f.rel, line_of(n), stmt_key(n),
                                            f"store through self.{a} (index table with repeated entries: {rep[a]}) with "
                                            f"{'+=' if isinstance(n, ast.AugAssign) else '='}: contributions to a repeated "
                                            f"index are lost; use np.add.at")
                    if isinstance(n, ast.Call) and isinstance(n.func, ast.Attribute) and n.func.attr == "at" and \
                            norm(n.func.value).endswith("add") and len(n.args) >= 2:
                        a = _index_attr(n.args[1], selfn)
                        if a in rep:
                            col.ok(where_of(f), f.rel, line_of(n), stmt_key(n), f"accumulating scatter through self.{a} ({rep[a]})")
    dedupe(col)


def _gather_scatter(ctx: RuleCtx, c: ClassInfo, f0: FuncInfo, role: str):
    """-> (gathers of the protected input through self.I, scatters into fresh memory through self.J), as attribute sets.
    role: 'resp' (protected = input states) or 'sens' (protected = seeds)."""
    m = ctx.model
    gathers: Set[str] = set()
    scatters: Set[str] = set()
    pats = [o_state("in", "*")] if role == "resp" else [o_sens("out", "*")]
    af = _af(ctx, c)
    for f in af.closure(f0):
        an = ctx.alias(f, c) if f is f0 else ctx.alias(f, c, role_env=False)
        selfn = m.self_name(f)
        params_prot = set()
        if f is not f0:
            # helper: parameters bound to protected data at some call site in the closure
            for h in af.closure(f0):
                hn = ctx.alias(h, c) if h is f0 else ctx.alias(h, c, role_env=False)
                for nd, env in hn.state_in.items():
                    if nd.ast is None:
                        continue
                    for x in ast.walk(nd.ast):
                        if isinstance(x, ast.Call) and f in m.resolve_call(h, x, concrete=c):
                            ps = f.pos_params()
                            for i, a in enumerate(x.args):
                                if i < len(ps) and not isinstance(a, ast.Starred):
                                    v = hn.eval(a, dict(env))
                                    if hits(v.orig, pats) or (h is not f0 and any(o[0] == "param" and o[1] in getattr(hn, "_prot", set()) for o in v.orig)):
                                        params_prot.add(ps[i])
        an._prot = params_prot  # type: ignore[attr-defined]
        for nd, env in an.state_in.items():
            if nd.ast is None:
                continue
            roots = [nd.ast] if nd.kind in (STMT, TEST) else ([nd.ast.iter] if nd.kind == FOR else [])
            for root in roots:
                for x in ast.walk(root):
                    if isinstance(x, ast.Subscript) and isinstance(x.ctx, ast.Load):
                        a = _index_attr(x.slice, selfn)
                        if a is None:
                            continue
                        v = an.eval(x.value, dict(env))
                        prot = hits(v.orig, pats) or any(o[0] == "param" and o[1] in params_prot for o in v.orig)
                        if prot:
                            gathers.add(a)
                    if isinstance(x, ast.Call) and isinstance(x.func, ast.Attribute) and x.func.attr == "at" and len(x.args) >= 2:
                        a = _index_attr(x.args[1], selfn)
                        if a is not None:
                            scatters.add(a)
                if isinstance(root, (ast.Assign, ast.AugAssign)):
                    tg = root.targets if isinstance(root, ast.Assign) else [root.target]
                    for t in tg:
                        if isinstance(t, ast.Subscript):
                            a = _index_attr(t.slice, selfn)
                            if a is not None:
                                v = an.eval(t.value, dict(env))
                                if not v.orig:     # into fresh memory (the result being built)
                                    scatters.add(a)
    return gathers, scatters


@rule("R-INDEX-PAIR", floor=4)
def r_index_pair(ctx: RuleCtx, col: Collector):
    """Gather/scatter agreement: the index attributes through which `_response` gathers its input are exactly those
    through which `_sensitivity` scatters its result, and the attributes through which the response scatters its
    output are exactly those through which the sensitivity gathers the seed."""
    m = ctx.model
    n = 0
    for c, sens in module_methods(ctx, "_sensitivity"):
        resp = m.resolve_method(c, "_response")
        if resp is None or resp.cls is m.module_base():
            continue
        g_r, s_r = _gather_scatter(ctx, c, resp, "resp")
        g_s, s_s = _gather_scatter(ctx, c, sens, "sens")
        if not (g_r or s_r or g_s or s_s):
            continue
        n += 1
        construct = f"{c.name}: gather/scatter index attributes"
        msgs = []
        if g_r != s_s:
            msgs.append(f"response gathers its input through {sorted(g_r) or '-'} but the sensitivity scatters its "
                        f"result through {sorted(s_s) or '-'}")
        if s_r != g_s:
            msgs.append(f"response scatters its output through {sorted(s_r) or '-'} but the sensitivity gathers the "
                        f"seed through {sorted(g_s) or '-'}")
        if msgs:
            col.bad(c.name, sens.rel, line_of(sens.node), construct, "; ".join(msgs) +
                    " (the adjoint of x[I] is a scatter through I, of a scatter through J a gather through J)")
        else:
            col.ok(c.name, sens.rel, line_of(sens.node), construct,
                   f"input gather/result scatter via {sorted(g_r) or '-'}; output scatter/seed gather via {sorted(s_r) or '-'}")
    dedupe(col)


# --------------------------------------------------------------------------------------------------- einsum
def _einsum_calls(ctx: RuleCtx, f: FuncInfo):
    m = ctx.model
    out = []
    for n in ast.walk(f.node):
        if isinstance(n, ast.Call) and isinstance(n.func, (ast.Name, ast.Attribute)) and n.args and \
                isinstance(n.args[0], ast.Constant) and isinstance(n.args[0].value, str) and "->" in n.args[0].value:
            alts = m.name_alternatives(f.module, n.func.id) if isinstance(n.func, ast.Name) else \
                {m.expr_dotted(f.module, n.func)}
            if any(a and a.split(".")[-1] in ("einsum", "contract") for a in alts):
                out.append(n)
    return out


def parse_einsum(spec: str) -> Tuple[List[str], str]:
    s = spec.replace(" ", "")
    ins, outp = s.split("->")
    return ins.split(","), outp


def _canon(ops: List[str], out: str, fixed_last: bool = False) -> Tuple[Tuple[str, ...], str]:
    """Canonical form modulo bijective renaming of index letters: operands permuted (all, or all but the last when
    `fixed_last`: the last operand plays a distinguished role), letters renamed in order of first appearance in
    (operands, output); '...' kept."""
    best = None
    import itertools
    n_free = len(ops) - 1 if fixed_last else len(ops)
    for perm0 in itertools.permutations(range(n_free)):
        perm = list(perm0) + ([len(ops) - 1] if fixed_last else [])
        seq = [ops[i] for i in perm]
        ren: Dict[str, str] = {}

        def r(t):
            o = ""
            i = 0
            while i < len(t):
                if t.startswith("...", i):
                    o += "..."
                    i += 3
                    continue
                ch = t[i]
                if ch not in ren:
                    ren[ch] = chr(ord("a") + len(ren))
                o += ren[ch]
                i += 1
            return o
        cand = (tuple(r(x) for x in seq), r(out))
        if best is None or cand < best:
            best = cand
    return best


@rule("R-EINSUM-VJP", floor=2)
def r_einsum_vjp(ctx: RuleCtx, col: Collector):
    """For modules whose response and sensitivity are literal einsum contractions: the sensitivity's subscripts are the
    vector-Jacobian product of the response's subscripts w.r.t. the signal operand - (constant operands, output) ->
    signal operand - up to renaming of index letters."""
    m = ctx.model
    for c, sens in module_methods(ctx, "_sensitivity"):
        resp = m.resolve_method(c, "_response")
        if resp is None or resp.cls is m.module_base():
            continue
        rc = _einsum_calls(ctx, resp)
        sc = _einsum_calls(ctx, sens)
        if len(rc) != 1 or len(sc) != 1:
            continue
        ar = ctx.alias(resp, c)
        asn = ctx.alias(sens, c)
        r_ops, r_out = parse_einsum(rc[0].args[0].value)
        s_ops, s_out = parse_einsum(sc[0].args[0].value)
        r_args = rc[0].args[1:]
        s_args = sc[0].args[1:]
        if len(r_args) != len(r_ops) or len(s_args) != len(s_ops):
            continue

        def sig_index(an, f, args, pats):
            nd = an.cfg.node_of(args[0])
            env = an.state_in.get(nd, {})
            idx = []
            for i, a in enumerate(args):
                v = an.eval(a, dict(env))
                deriv = hits(v.orig, pats) or _derives_from_param(f, a)
                if deriv:
                    idx.append(i)
            return idx
        ri = sig_index(ar, resp, r_args, [o_state("in", "*")])
        si = sig_index(asn, sens, s_args, [o_sens("out", "*")])
        construct = f"{c.name}: response '{rc[0].args[0].value}' / sensitivity '{sc[0].args[0].value}'"
        if len(ri) != 1 or len(si) != 1:
            col.ok(c.name, sens.rel, line_of(sc[0]), construct, "signal operand not unique: not judged")
            continue
        const_ops = [o for i, o in enumerate(r_ops) if i != ri[0]]
        expected = _canon(const_ops + [r_out], r_ops[ri[0]], fixed_last=True)
        s_const = [o for i, o in enumerate(s_ops) if i != si[0]]
        actual = _canon(s_const + [s_ops[si[0]]], s_out, fixed_last=True)
        # the seed operand must carry the response's output pattern: check by canonical forms with the seed last
        if expected == actual:
            col.ok(c.name, sens.rel, line_of(sc[0]), construct, f"VJP subscripts agree ({','.join(expected[0])}->{expected[1]})")
        else:
            col.bad(c.name, sens.rel, line_of(sc[0]), construct,
                    f"the sensitivity contraction is not the vector-Jacobian product of the response contraction: "
                    f"expected {','.join(expected[0])}->{expected[1]} (up to letter renaming), found "
                    f"{','.join(actual[0])}->{actual[1]}")
    dedupe(col)


def _derives_from_param(f: FuncInfo, e: ast.AST) -> bool:
    params = set(f.pos_params())
    return any(isinstance(n, ast.Name) and n.id in params for n in ast.walk(e))


@rule("R-TRANSPOSE-PAIR", floor=2)
def r_transpose_pair(ctx: RuleCtx, col: Collector):
    """NodalOperation is the transpose of ElementOperation: the response contraction of one is the sensitivity
    contraction of the other (same subscripts up to renaming), and the gather/scatter index attributes swap roles."""
    m = ctx.model
    eo = m.public_class("ElementOperation")
    no = m.public_class("NodalOperation")

    class _Verdict(Exception):
        def __init__(self, node, msg):
            self.node, self.msg = node, msg

    def matmul_spec(c, f):
        """A contraction written as  X.reshape(..) @ M.reshape(..)  (data x with axes [*lead, element], operator with
        axes [*lead, k]) is translated into the einsum it computes, by following which labelled axis ends up where.
        A reshape that asks for the element / dof count at an end where that axis is not, or a product whose two
        flattened operator groups are in different orders, is a recognised wrong construct."""
        sn = m.self_name(f)
        params = f.pos_params()
        if len(params) != 1:
            return None
        size_label: Dict[str, str] = {}
        for n in ast.walk(f.node):
            if isinstance(n, ast.Assign) and isinstance(n.targets[0], ast.Tuple) and len(n.targets[0].elts) == 2 and \
                    norm(n.value) == f"{sn}.dofconn.shape":
                a, b = n.targets[0].elts
                if isinstance(a, ast.Name) and isinstance(b, ast.Name):
                    size_label[a.id], size_label[b.id] = "l", "k"
        size_label[f"{sn}.domain.nel"] = "l"
        size_label[f"{params[0]}.shape[-1]"] = "l"
        size_label[f"{sn}.element_matrix.shape[-1]"] = "k"
        size_label[f"{sn}.dofconn.shape[0]"] = "l"
        size_label[f"{sn}.dofconn.shape[1]"] = "k"

        def layout(e):
            if isinstance(e, ast.Name) and e.id == params[0]:
                return ["*", "l"]
            if norm(e) == f"{sn}.element_matrix":
                return ["*", "k"]
            if isinstance(e, ast.Attribute) and e.attr == "T":
                lay = layout(e.value)
                if lay is None:
                    return None
                return [{"*": "*r", "*r": "*"}.get(t, t) for t in reversed(lay)]
            if isinstance(e, ast.Call) and isinstance(e.func, ast.Attribute) and e.func.attr == "reshape":
                lay = layout(e.func.value)
                args = e.args[0].elts if len(e.args) == 1 and isinstance(e.args[0], ast.Tuple) else e.args
                if lay is None or len(args) != 2 or len(lay) != 2:
                    return None
                a0, a1 = args
                minus = lambda a: isinstance(a, ast.UnaryOp) and isinstance(a.op, ast.USub) and isinstance(a.operand, ast.Constant) and a.operand.value == 1  # noqa: E731
                if minus(a0) and norm(a1) in size_label:
                    want = size_label[norm(a1)]
                    if lay[-1] != want:
                        raise _Verdict(e, f"'{norm(e)}' asks for the {'element' if want == 'l' else 'dof'} count as the last axis, but "
                                          f"that axis is the first one of '{norm(e.func.value)}': reshape does not transpose, it "
                                          f"re-interprets the memory, so entries of different elements are mixed")
                    return [{"*": "F", "*r": "Fr"}.get(lay[0], lay[0]), want]
                if minus(a1) and norm(a0) in size_label:
                    want = size_label[norm(a0)]
                    if lay[0] != want:
                        raise _Verdict(e, f"'{norm(e)}' asks for the {'element' if want == 'l' else 'dof'} count as the first axis, but "
                                          f"that axis is the last one of '{norm(e.func.value)}': reshape does not transpose, it "
                                          f"re-interprets the memory, so entries of different elements and operator rows are mixed")
                    return [want, {"*": "F", "*r": "Fr"}.get(lay[1], lay[1])]
                return None
            if isinstance(e, ast.BinOp) and isinstance(e.op, ast.MatMult):
                la, lb = layout(e.left), layout(e.right)
                if la is None or lb is None:
                    return None
                if la[1] in ("*", "*r") or lb[0] in ("*", "*r"):
                    return None      # un-flattened operands: not a 2-D product we can follow
                if la[1] != lb[0]:
                    raise _Verdict(e, f"the two factors of '{norm(e)}' flatten the leading operator dimensions in different orders "
                                      f"({la[1]} against {lb[0]}; .T reverses all axes): for an operator with two or more leading "
                                      f"dimensions the wrong entries are paired")
                return [la[0], lb[1]]
            return None
        for n in ast.walk(f.node):
            if isinstance(n, ast.BinOp) and isinstance(n.op, ast.MatMult):
                lay = layout(n)        # may raise _Verdict
                if lay is not None and set(lay) == {"l", "k"}:
                    return n, f"...k,...l->{''.join(lay)}"
        return None

    def spec(c, name):
        f = m.resolve_method(c, name)
        calls = _einsum_calls(ctx, f)
        if len(calls) == 0:
            mm = matmul_spec(c, f)
            if mm is not None:
                node, sp = mm
                ops, out = parse_einsum(sp)
                fake = ast.Call(func=ast.Name(id="einsum", ctx=ast.Load()), args=[ast.Constant(value=sp)], keywords=[])
                ast.copy_location(fake, node)
                return f, fake, _canon(ops, out, fixed_last=True)
        if len(calls) != 1:
            raise AnalysisError(f"{c.name}.{name}: expected exactly one literal einsum")
        ops, out = parse_einsum(calls[0].args[0].value)
        args = calls[0].args[1:]
        sn = m.self_name(f)
        # constant operand(s) (attributes of self) first, the data operand last, so that roles are compared too
        const = [o for o, a in zip(ops, args) if isinstance(a, ast.Attribute) and norm(a.value) == sn]
        data = [o for o, a in zip(ops, args) if not (isinstance(a, ast.Attribute) and norm(a.value) == sn)]
        if len(data) == 1:
            return f, calls[0], _canon(const + data, out, fixed_last=True)
        return f, calls[0], _canon(ops, out)
    for (ca, na, cb, nb) in ((eo, "_response", no, "_sensitivity"), (eo, "_sensitivity", no, "_response")):
        try:
            fa, calla, sa = spec(ca, na)
            fb, callb, sb_ = spec(cb, nb)
        except _Verdict as v:
            g = m.resolve_method(cb, nb)
            for cc, nn in ((ca, na), (cb, nb)):
                h = m.resolve_method(cc, nn)
                if any(x is v.node for x in ast.walk(h.node)):
                    g = h
            col.bad(g.cls.name if g.cls else "", g.rel, line_of(v.node), f"{g.short}: contraction written as a matrix product", v.msg)
            continue
        construct = f"{ca.name}.{na} '{calla.args[0].value}' vs {cb.name}.{nb} '{callb.args[0].value}'"
        if sa == sb_:
            col.ok(ca.name, fa.rel, line_of(calla), construct, "same contraction")
        else:
            col.bad(ca.name, fb.rel, line_of(callb), construct,
                    f"{cb.name}.{nb} is no longer the same contraction as {ca.name}.{na}: the two operators are not "
                    f"transposes of each other")
        ga, sca = _gather_scatter(ctx, ca, fa, "resp" if na == "_response" else "sens")
        gb, scb = _gather_scatter(ctx, cb, fb, "resp" if nb == "_response" else "sens")
        if bool(ga) == bool(gb) and bool(sca) == bool(scb):
            col.ok(ca.name, fa.rel, line_of(fa.node), f"{ca.name}.{na} / {cb.name}.{nb}: gather/scatter roles",
                   f"gather {sorted(ga) or '-'} / {sorted(gb) or '-'}; scatter {sorted(sca) or '-'} / {sorted(scb) or '-'}")
        else:
            col.bad(ca.name, fb.rel, line_of(fb.node), f"{ca.name}.{na} / {cb.name}.{nb}: gather/scatter roles",
                    f"{ca.name}.{na} gathers through {sorted(ga) or '-'} and scatters through {sorted(sca) or '-'}, but "
                    f"{cb.name}.{nb} gathers through {sorted(gb) or '-'} and scatters through {sorted(scb) or '-'}")


# ------------------------------------------------------------------------------------------------ filters
def _call_named(f: FuncInfo, m, names: Set[str]):
    out = []
    for n in ast.walk(f.node):
        if isinstance(n, ast.Call) and isinstance(n.func, (ast.Name, ast.Attribute)):
            d = m.resolve_name(f.module, n.func.id) if isinstance(n.func, ast.Name) else m.expr_dotted(f.module, n.func)
            if d and d.split(".")[-1] in names:
                out.append((n, d.split(".")[-1]))
    return out


def _kw(call: ast.Call, name: str, pos: Optional[int] = None):
    for k in call.keywords:
        if k.arg == name:
            return k.value
    if pos is not None and len(call.args) > pos:
        return call.args[pos]
    return None


@rule("R-CONV-PAIR", floor=3, tier="thorough")
def r_conv_pair(ctx: RuleCtx, col: Collector):
    """FilterConv: the adjoint of a 'valid' convolution with kernel W is a 'full' correlation with the same W; padded
    entries that the response overwrites with constants (the override table) carry no sensitivity and are zeroed in
    the sensitivity over the same table."""
    m = ctx.model
    fc = m.public_class("FilterConv")
    resp = m.resolve_method(fc, "_response")
    sens = m.resolve_method(fc, "_sensitivity")
    af = _af(ctx, fc)
    rc = [x for g in af.closure(resp) for x in _call_named(g, m, {"convolve", "correlate"})]
    sc = [x for g in af.closure(sens) for x in _call_named(g, m, {"convolve", "correlate"})]
    if len(rc) != 1 or len(sc) != 1:
        raise AnalysisError("FilterConv: expected one convolution in the response and one in the sensitivity")
    (rcall, rname), (scall, sname) = rc[0], sc[0]
    rmode, smode = _kw(rcall, "mode", 2), _kw(scall, "mode", 2)
    rk, sk = (rcall.args[1] if len(rcall.args) > 1 else None), (scall.args[1] if len(scall.args) > 1 else None)
    construct = f"FilterConv: {rname}(mode={U(rmode) if rmode is not None else 'default'}) / {sname}(mode={U(smode) if smode is not None else 'default'})"
    problems = []
    if (rname, sname) != ("convolve", "correlate"):
        problems.append(f"response uses {rname} and sensitivity uses {sname}: the filter is defined as the *convolution* of "
                        f"the kernel with the padded field and its adjoint is the correlation with the same kernel (the two "
                        f"differ for kernels that are not point-symmetric)")
    rm = rmode.value if isinstance(rmode, ast.Constant) else None
    sm = smode.value if isinstance(smode, ast.Constant) else None
    if not ((rm, sm) in (("valid", "full"), ("full", "valid"), ("same", "same"))):
        problems.append(f"modes ({rm}, {sm}) are not adjoint to each other (valid<->full)")
    if rk is None or sk is None or norm(rk) != norm(sk):
        problems.append(f"different kernels: '{U(rk) if rk is not None else '?'}' vs '{U(sk) if sk is not None else '?'}'")
    if problems:
        col.bad("FilterConv", sens.rel, line_of(scall), construct, "; ".join(problems))
    else:
        col.ok("FilterConv", sens.rel, line_of(scall), construct, f"adjoint pair on kernel {U(rk)}")
    # override table
    def loops_over(fs, attr):
        out = []
        for g in fs:
            sn = m.self_name(g)
            for n in ast.walk(g.node):
                if isinstance(n, ast.For) and norm(n.iter) == f"{sn}.{attr}":
                    out.append((g, n))
        return out
    table = None
    for g in af.closure(resp):
        sn = m.self_name(g)
        for n in ast.walk(g.node):
            if isinstance(n, ast.For) and isinstance(n.iter, ast.Attribute) and norm(n.iter.value) == sn and any(
                    isinstance(x, ast.Assign) and isinstance(x.targets[0], ast.Subscript) for x in n.body):
                table = n.iter.attr
                rloop = (g, n)
    if table is None:
        col.bad("FilterConv", resp.rel, line_of(resp.node), "FilterConv: override table applied in the response",
                "the response no longer applies the constant-value overrides")
        return
    col.ok("FilterConv", rloop[0].rel, line_of(rloop[1]), "FilterConv: override table applied in the response", f"self.{table}")
    sl = loops_over(af.closure(sens), table)
    okz = False
    for g, n in sl:
        for x in n.body:
            if isinstance(x, ast.Assign) and isinstance(x.targets[0], ast.Subscript) and isinstance(x.value, ast.Constant) \
                    and x.value.value == 0:
                # index variable must be the first element of the loop target (the index of the table entry)
                tgt = n.target.elts[0] if isinstance(n.target, ast.Tuple) else n.target
                if norm(x.targets[0].slice) == norm(tgt):
                    okz = True
    if okz:
        col.ok("FilterConv", sens.rel, line_of(sl[0][1]), "FilterConv: overridden entries zeroed in the sensitivity", f"over self.{table}")
    else:
        col.bad("FilterConv", sens.rel, line_of(sens.node), "FilterConv: overridden entries zeroed in the sensitivity",
                f"the sensitivity does not zero the entries listed in self.{table}: sensitivity of constant-valued padding "
                f"leaks into the elements the padding indices point to")


@rule("R-FILTER-ORDER", floor=2, tier="thorough")
def r_filter_order(ctx: RuleCtx, col: Collector):
    """Filter (y = S^-1 H x): the response divides the product H x by the normalisation, the sensitivity multiplies H
    with the seed divided by the normalisation (H (S^-1 dy)) - the division is inside the product."""
    m = ctx.model
    fl = m.public_class("Filter")
    resp = m.resolve_method(fl, "_response")
    sens = m.resolve_method(fl, "_sensitivity")
    rs, ss = m.self_name(resp), m.self_name(sens)
    # roles from the response expression: product with self.<H>, division by self.<S>
    hattr = sattr = None
    for n in ast.walk(resp.node):
        if isinstance(n, ast.BinOp) and isinstance(n.op, ast.Div) and isinstance(n.right, ast.Attribute) and norm(n.right.value) == rs:
            sattr = n.right.attr
        if isinstance(n, ast.BinOp) and isinstance(n.op, (ast.Mult, ast.MatMult)) and isinstance(n.left, ast.Attribute) and \
                norm(n.left.value) == rs:
            hattr = n.left.attr
    if not hattr or not sattr:
        raise AnalysisError("Filter._response: product with the filter matrix and division by the normalisation not found")

    def shape(f, sn):
        """('div-of-prod' | 'prod-of-div' | None)"""
        for n in ast.walk(f.node):
            if isinstance(n, ast.BinOp) and isinstance(n.op, ast.Div) and norm(n.right) == f"{sn}.{sattr}":
                left_has_h = any(isinstance(x, ast.BinOp) and isinstance(x.op, (ast.Mult, ast.MatMult)) and
                                 norm(x.left) == f"{sn}.{hattr}" for x in ast.walk(n.left))
                if left_has_h:
                    return "div-of-prod"
                # is this division an operand of a product with H ?
                p = getattr(n, "_parent", None)
                while p is not None and not isinstance(p, ast.stmt):
                    if isinstance(p, ast.BinOp) and isinstance(p.op, (ast.Mult, ast.MatMult)) and norm(p.left) == f"{sn}.{hattr}":
                        return "prod-of-div"
                    p = getattr(p, "_parent", None)
        return None
    r, s = shape(resp, rs), shape(sens, ss)
    if r == "div-of-prod":
        col.ok("Filter", resp.rel, line_of(resp.node), "Filter._response: (H x) / s", "")
    else:
        col.bad("Filter", resp.rel, line_of(resp.node), "Filter._response: (H x) / s",
                f"the response is not the product with self.{hattr} divided by self.{sattr}")
    if s == "prod-of-div":
        col.ok("Filter", sens.rel, line_of(sens.node), "Filter._sensitivity: H (dy / s)", "")
    else:
        col.bad("Filter", sens.rel, line_of(sens.node), "Filter._sensitivity: H (dy / s)",
                f"the sensitivity must multiply self.{hattr} with the seed divided by self.{sattr}; dividing after the "
                f"product is the adjoint only when all normalisation entries are equal (interior elements)")


# ----------------------------------------------------------------------------------------------- overhang clone
def _canon_value(e: ast.AST) -> str:
    """text of a set-up value in which constant tuples and lists read the same ((-1, 0) / [-1, 0]: the code only indexes them)"""
    import copy as _copy

    class L(ast.NodeTransformer):
        def visit_Tuple(self, n):
            self.generic_visit(n)
            if isinstance(n.ctx, ast.Load) and all(isinstance(x, (ast.Constant, ast.List, ast.UnaryOp)) for x in n.elts):
                return ast.copy_location(ast.List(elts=n.elts, ctx=ast.Load()), n)
            return n
    return norm(L().visit(_copy.deepcopy(e)))


def _top_assigns(fn: ast.FunctionDef) -> Dict[str, List[str]]:
    """name -> normalised dumps of the values assigned at function-body level (incl. inside top-level for loops)."""
    out: Dict[str, List[str]] = {}

    def visit(stmts, in_while):
        for st in stmts:
            if isinstance(st, ast.Assign) and not in_while:
                for t in st.targets:
                    for x in (t.elts if isinstance(t, ast.Tuple) else [t]):
                        base = x
                        while isinstance(base, ast.Subscript):
                            base = base.value
                        if isinstance(base, ast.Name):
                            out.setdefault(base.id, []).append(norm(x) + "=" + _canon_value(st.value))
            elif isinstance(st, ast.For) and not in_while:
                out.setdefault("<for>" + norm(st.target), []).append(norm(st.iter))
                visit(st.body, in_while)
            elif isinstance(st, ast.If) and not in_while:
                assigns_local = any(isinstance(x, ast.Assign) and any(isinstance(y, ast.Name) for t in x.targets
                                                                      for y in (t.elts if isinstance(t, ast.Tuple) else [t]))
                                    for b in st.body + st.orelse for x in ast.walk(b))
                if assigns_local:
                    out.setdefault("<if>", []).append(norm(st.test))
                visit(st.body, in_while)
                visit(st.orelse, in_while)
    visit(fn.body, False)
    return out


def _loop_assigned(fn: ast.FunctionDef) -> Set[str]:
    out = set()
    for n in ast.walk(fn):
        if isinstance(n, ast.While):
            for x in ast.walk(n):
                if isinstance(x, (ast.Assign, ast.AugAssign)):
                    tg = x.targets if isinstance(x, ast.Assign) else [x.target]
                    for t in tg:
                        base = t
                        while isinstance(base, ast.Subscript):
                            base = base.value
                        if isinstance(base, ast.Name):
                            out.add(base.id)
    return out


@rule("R-CLONE-OVERHANG", floor=6, tier="thorough")
def r_clone_overhang(ctx: RuleCtx, col: Collector):
    """OverhangFilter duplicates the sweep set-up (print axis, direction, orthogonal axes, support offsets, masks) in
    _response and _sensitivity: the definitions of the shared locals must be identical; the response advances by
    +step reading its support from layer (i - step), the sensitivity advances by -step pushing to layer (i - step),
    and the base layer is transferred directly."""
    m = ctx.model
    oh = m.public_class("OverhangFilter")
    resp = m.resolve_method(oh, "_response")
    sens = m.resolve_method(oh, "_sensitivity")
    ra, sa = _top_assigns(resp.node), _top_assigns(sens.node)
    carried = _loop_assigned(resp.node) | _loop_assigned(sens.node)
    # geometry only: locals defined from the inputs (the response's argument, the signals' states / sensitivities) are data,
    # not part of the traversal set-up
    data_pat = set(resp.pos_params()) | set(sens.pos_params())

    def is_data(defs: List[str]) -> bool:
        import re
        return any(".state" in d or ".sensitivity" in d or any(re.search(rf"(?<![\w.]){re.escape(p_)}(?!\w)", d.split("=", 1)[-1]) for p_ in data_pat)
                   for d in defs)
    shared = [k for k in ra if k in sa and k not in carried and not k.startswith("<if>") and not (is_data(ra[k]) or is_data(sa[k]))]
    if len(shared) < 4:
        # set-up factored into a helper: single definition, nothing to compare
        col.ok("OverhangFilter", resp.rel, line_of(resp.node), "OverhangFilter: sweep set-up",
               "set-up is not duplicated (single definition)")
    for k in shared:
        if ra[k] == sa[k]:
            col.ok("OverhangFilter", sens.rel, line_of(sens.node), f"OverhangFilter set-up '{k}'", "identical in both methods")
        else:
            col.bad("OverhangFilter", sens.rel, line_of(sens.node), f"OverhangFilter set-up '{k}'",
                    f"'{k}' is defined as {ra[k]} in _response but {sa[k]} in _sensitivity: the adjoint sweeps a "
                    f"different stencil / axis than the response")
    if sorted(ra.get("<if>") or []) != sorted(sa.get("<if>") or []):
        col.bad("OverhangFilter", sens.rel, line_of(sens.node), "OverhangFilter set-up conditions",
                f"conditional set-up differs: {ra.get('<if>')} vs {sa.get('<if>')}")
    # sweep direction
    def sweep(fn):
        adv = sup = None
        for n in ast.walk(fn):
            if isinstance(n, ast.While):
                for x in ast.walk(n):
                    if isinstance(x, ast.AugAssign) and isinstance(x.target, ast.Name) and isinstance(x.op, (ast.Add, ast.Sub)):
                        adv = (x.target.id, "+" if isinstance(x.op, ast.Add) else "-", norm(x.value))
                if adv is not None:
                    # the supporting layer: <layer index> - <step>, wherever it is formed (index store or a local)
                    for x in ast.walk(n):
                        if isinstance(x, ast.BinOp) and isinstance(x.op, ast.Sub) and norm(x.left) == adv[0] and \
                                isinstance(x.right, ast.Name):
                            sup = (norm(x.left), norm(x.right))
        return adv, sup
    # the response sweep written as a loop over explicit layer ranges: for i in (range(1, n) if step >= 0 else range(n-2, -1, -1))
    def range_sweep(fn):
        from .common import expand_names
        for lp in [n for n in ast.walk(fn) if isinstance(n, ast.For) and isinstance(n.target, ast.Name)]:
            sups = [x for x in ast.walk(lp) if isinstance(x, ast.BinOp) and isinstance(x.op, ast.Sub) and norm(x.left) == lp.target.id
                    and isinstance(x.right, ast.Name)]
            if not sups:
                continue
            its = [lp.iter]
            if isinstance(lp.iter, ast.Name):
                its = [d.value for d in ast.walk(fn) if isinstance(d, ast.Assign) and len(d.targets) == 1 and
                       isinstance(d.targets[0], ast.Name) and d.targets[0].id == lp.iter.id]
            alts = []
            for it in its:
                for e in ([it.body, it.orelse] if isinstance(it, ast.IfExp) else [it]):
                    alts.append(e)
            if not alts or not all(isinstance(e, ast.Call) and norm(e.func) == "range" for e in alts):
                continue
            return lp, sups[0], alts
        return None
    rs = range_sweep(resp.node)
    if rs is not None and not any(isinstance(n, ast.While) for n in ast.walk(resp.node)):
        lp, sup_e, alts = rs
        for e in alts:
            a = [norm(x) for x in e.args]
            construct = f"OverhangFilter response sweep '{norm(e)}'"
            if len(a) == 3 and a[2] == "-1":
                # downwards: from the layer next to the base (n-2) down to and including layer 0
                if a[1] == "-1":
                    col.ok("OverhangFilter", resp.rel, line_of(e), construct, "reaches layer 0")
                elif a[1] in ("0", "1"):
                    col.bad("OverhangFilter", resp.rel, line_of(e), construct,
                            f"the downward sweep stops before layer {a[1]} is processed (range excludes its stop value): the last "
                            f"printed layer(s) keep their unfiltered densities while the sensitivity treats them as filtered")
                else:
                    raise AnalysisError(f"OverhangFilter: extent of the sweep '{norm(e)}' not recognised")
            elif (len(a) == 2 or (len(a) == 3 and a[2] == "1")) and a[0] == "1":
                col.ok("OverhangFilter", resp.rel, line_of(e), construct, "from the layer above the base upwards")
            elif len(a) >= 1 and a[0] == "0" or len(a) == 1:
                col.bad("OverhangFilter", resp.rel, line_of(e), construct,
                        "the upward sweep starts at the base layer, whose support (layer -1) wraps around to the top of the domain")
            else:
                raise AnalysisError(f"OverhangFilter: extent of the sweep '{norm(e)}' not recognised")
        sadv, ssup = sweep(sens.node)
        if None in (sadv, ssup):
            raise AnalysisError("OverhangFilter: layer sweep not recognised")
        if (norm(sup_e.left), norm(sup_e.right)) == ssup and sadv[1] == "-":
            col.ok("OverhangFilter", sens.rel, line_of(sens.node), "OverhangFilter sweep direction",
                   f"response reads its support from {norm(sup_e)}; sensitivity {sadv[0]} {sadv[1]}= {sadv[2]} pushes to {ssup[0]}-{ssup[1]}")
        else:
            col.bad("OverhangFilter", sens.rel, line_of(sens.node), "OverhangFilter sweep direction",
                    f"response reads its support from {norm(sup_e)} but the sensitivity pushes to {ssup[0]}-{ssup[1]}")
        return
    radv, rsup = sweep(resp.node)
    sadv, ssup = sweep(sens.node)
    if None in (radv, rsup, sadv, ssup):
        raise AnalysisError("OverhangFilter: layer sweep not recognised")
    ok = radv[0] == sadv[0] and radv[2] == sadv[2] and radv[1] == "+" and sadv[1] == "-" and rsup == ssup and \
        rsup == (radv[0], radv[2])
    construct = f"OverhangFilter sweep: response {radv[0]} {radv[1]}= {radv[2]} (support {rsup[0]}-{rsup[1]}) / " \
                f"sensitivity {sadv[0]} {sadv[1]}= {sadv[2]} (push to {ssup[0]}-{ssup[1]})"
    if ok:
        col.ok("OverhangFilter", sens.rel, line_of(sens.node), "OverhangFilter sweep direction", construct)
    else:
        col.bad("OverhangFilter", sens.rel, line_of(sens.node), "OverhangFilter sweep direction",
                construct + ": the sensitivity must traverse the layers in the opposite order and push to the same "
                            "supporting layer the response read from")


# ------------------------------------------------------------------------------------------------ same point
@rule("R-SAME-POINT", floor=3)
def r_same_point(ctx: RuleCtx, col: Collector):
    """A derivative helper must be evaluated at the point the function helper was evaluated: every view of an input
    that `_sensitivity` hands to a self-method helper (e.g. `x[self.select]`) must be a view that `_response` handed to
    a helper as well (same index attributes)."""
    m = ctx.model
    for c, sens in module_methods(ctx, "_sensitivity"):
        resp = m.resolve_method(c, "_response")
        if resp is None or resp.cls is m.module_base():
            continue

        def helper_views(f0, pats):
            an = ctx.alias(f0, c)
            selfn = m.self_name(f0)
            out = []
            for nd, env in an.state_in.items():
                if nd.ast is None:
                    continue
                for x in ast.walk(nd.ast):
                    if isinstance(x, ast.Call) and isinstance(x.func, ast.Attribute) and isinstance(x.func.value, ast.Name) \
                            and x.func.value.id == selfn and m.resolve_call(f0, x, concrete=c):
                        for a in x.args:
                            # a view taken beforehand and named (xa = x[self.select]; helper(xa)) is that view
                            base = expand_names(f0.node, a)
                            idx = []
                            while isinstance(base, ast.Subscript):
                                idx.append(norm(base.slice).replace(selfn + ".", "self."))
                                base = base.value
                            bv = an.eval(base, dict(env))
                            if hits(bv.orig, pats):
                                out.append((x, tuple(reversed(idx))))
            return out
        rv = helper_views(resp, [o_state("in", "*")])
        sv = helper_views(sens, [o_state("in", "*")])
        if not sv:
            continue
        rset = {idx for _, idx in rv}
        for call, idx in sv:
            construct = f"{c.name}: input view {list(idx) or 'whole'} passed to {U(call.func)} in _sensitivity"
            if idx in rset or not rset:
                col.ok(c.name, sens.rel, line_of(call), construct, "same view as in _response")
            else:
                col.bad(c.name, sens.rel, line_of(call), construct,
                        f"_sensitivity evaluates the helper {U(call.func)} on the input view {list(idx) or 'the whole input'}, "
                        f"but _response evaluated its helper(s) on {sorted(map(list, rset))}: the derivative is taken at a "
                        f"different point (e.g. over all entries instead of the active set)")
    dedupe(col)
