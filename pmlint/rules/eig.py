"""EigenSolve rules (C11): R-PERM, R-HERM-GUARD, R-NORM-VIEW."""
from __future__ import annotations

import ast
from typing import List, Optional

from ..cfg import TEST, STMT
from ..model import stmt_key, AnalysisError
from ..report import rule, Collector
from .common import RuleCtx, where_of, line_of, untag
from .fresh import _af
from .solver import guard_facts

U = ast.unparse


def norm(e) -> str:
    return "".join(U(e).split())


def _eig(ctx: RuleCtx):
    m = ctx.model
    es = m.public_class("EigenSolve")
    resp = m.resolve_method(es, "_response")
    if resp is None:
        raise AnalysisError("EigenSolve._response not found")
    return es, resp


@rule("R-PERM", floor=2)
def r_perm(ctx: RuleCtx, col: Collector):
    """Eigenvalues and eigenvector COLUMNS are reordered by the same index variable (the result of the sorting
    function), so that Q[:, i] still belongs to lambda[i] after sorting."""
    es, resp = _eig(ctx)
    rets = [n for n in ast.walk(resp.node) if isinstance(n, ast.Return) and isinstance(n.value, ast.Tuple) and len(n.value.elts) == 2]
    if not rets:
        raise AnalysisError("EigenSolve._response does not return (values, vectors)")
    wname, qname = [norm(x) for x in rets[-1].value.elts]
    class _P:      # (target, value) pair of a plain or tuple assignment, keeping the statement for positions
        def __init__(self, st, t, v):
            self.st, self.targets, self.value, self.lineno = st, [t], v, st.lineno
    pairs = []
    for n in ast.walk(resp.node):
        if isinstance(n, ast.Assign):
            t = n.targets[0]
            if isinstance(t, ast.Tuple) and isinstance(n.value, ast.Tuple) and len(t.elts) == len(n.value.elts):
                pairs += [_P(n, a, b) for a, b in zip(t.elts, n.value.elts)]
            else:
                pairs.append(_P(n, t, n.value))
    # the sorted arrays may be rebound to the same names or to the returned ones (W = Wraw[isort]): what is permuted is the
    # pair that the sorting function was given
    perm_w = [x for x in pairs if norm(x.targets[0]) == wname and isinstance(x.value, ast.Subscript) and isinstance(x.value.value, ast.Name)]
    perm_q = [x for x in pairs if norm(x.targets[0]) == qname and isinstance(x.value, ast.Subscript) and isinstance(x.value.value, ast.Name)]
    if not perm_w or not perm_q:
        col.bad(where_of(resp), resp.rel, line_of(resp.node), "EigenSolve: values and vectors sorted",
                "the sorting permutation is not applied to both the eigenvalues and the eigenvectors")
        return
    iw = norm(perm_w[0].value.slice)
    sq = perm_q[0].value.slice
    okq = isinstance(sq, ast.Tuple) and len(sq.elts) == 2 and isinstance(sq.elts[0], ast.Slice) and \
        sq.elts[0].lower is None and sq.elts[0].upper is None and norm(sq.elts[1]) == iw
    col.ok(where_of(resp), resp.rel, line_of(perm_w[0]), f"eigenvalues permuted by '{iw}'", stmt_key(perm_w[0].st))
    if okq:
        col.ok(where_of(resp), resp.rel, line_of(perm_q[0]), f"eigenvector columns permuted by '{iw}'", stmt_key(perm_q[0].st))
    else:
        col.bad(where_of(resp), resp.rel, line_of(perm_q[0]), f"eigenvector columns permuted by '{iw}'",
                f"eigenvalues are reordered with '{iw}' but the eigenvectors with '{U(sq)}' (expected [:, {iw}]): "
                f"vector i no longer belongs to value i")
    # the index is the result of the sorting function applied to (values, vectors)
    d = [n for n in ast.walk(resp.node) if isinstance(n, ast.Assign) and norm(n.targets[0]) == iw]
    src_w, src_q = norm(perm_w[0].value.value), norm(perm_q[0].value.value)
    if d and isinstance(d[0].value, ast.Call) and [norm(a) for a in d[0].value.args] == [src_w, src_q]:
        col.ok(where_of(resp), resp.rel, line_of(d[0]), f"'{iw}' computed by the sorting function from (values, vectors)", "")
    else:
        col.bad(where_of(resp), resp.rel, line_of(resp.node), f"'{iw}' computed by the sorting function from (values, vectors)",
                "the permutation is not the result of the sorting function applied to the computed spectrum")


@rule("R-HERM-GUARD", floor=2)
def r_herm_guard(ctx: RuleCtx, col: Collector):
    """The symmetric eigensolvers (eigh / eigsh) are reached only when the Hermitian flag holds; the general ones
    (eig / eigs) only when it does not."""
    m = ctx.model
    es, resp = _eig(ctx)
    af = _af(ctx, es)
    n_found = 0
    for f in af.closure(resp):
        selfn = m.self_name(f)
        cfg = ctx.flow.cfg(f)
        for nd in cfg.simple_nodes():
            if nd.ast is None:
                continue
            for x in ast.walk(nd.ast):
                if isinstance(x, ast.Call) and isinstance(x.func, ast.Attribute) and x.func.attr in ("eigh", "eigsh", "eig", "eigs"):
                    n_found += 1
                    herm_needed = x.func.attr in ("eigh", "eigsh")
                    facts = dict(guard_facts(cfg, nd))
                    # conditional expression: a if flag else b
                    p = getattr(x, "_parent", None)
                    while p is not None and not isinstance(p, ast.stmt):
                        if isinstance(p, ast.IfExp):
                            inside_body = any(y is x for y in ast.walk(p.body))
                            facts[norm(p.test)] = inside_body
                        p = getattr(p, "_parent", None)
                    flags = {k: v for k, v in facts.items() if "hermitian" in k.lower()}
                    ok = any(v == herm_needed for v in flags.values()) and not any(v != herm_needed for v in flags.values())
                    construct = f"{x.func.attr}() in {f.short}"
                    if ok:
                        col.ok(where_of(f), f.rel, line_of(x), construct, f"under {'' if herm_needed else 'not '}{list(flags)[0]}")
                    else:
                        col.bad(where_of(f), f.rel, line_of(x), construct,
                                f"{x.func.attr}() is {'not guarded by the Hermitian flag' if not flags else 'reached when the Hermitian flag is ' + str(not herm_needed)}: "
                                f"{'a symmetric solver would silently use one triangle of a general matrix' if herm_needed else 'the general solver is used for Hermitian input'}")
    if n_found < 2:
        raise AnalysisError("EigenSolve: eigensolver calls not found")


@rule("R-NORM-VIEW", floor=2)
def r_norm_view(ctx: RuleCtx, col: Collector):
    """The normalisation loop ranges over all computed modes and scales each eigenvector in place through a view
    (column slice) of the matrix that is returned."""
    es, resp = _eig(ctx)
    rets = [n for n in ast.walk(resp.node) if isinstance(n, ast.Return) and isinstance(n.value, ast.Tuple) and len(n.value.elts) == 2]
    wname, qname = [norm(x) for x in rets[-1].value.elts]
    loops = [n for n in ast.walk(resp.node) if isinstance(n, ast.For) and any(
        isinstance(x, ast.AugAssign) and isinstance(x.op, (ast.Mult, ast.Div)) for x in ast.walk(n))]
    if not loops:
        # vectorised form: the whole matrix of eigenvectors is scaled in place by a vector of per-mode factors (Q *= s)
        whole = [x for x in ast.walk(resp.node) if isinstance(x, ast.AugAssign) and isinstance(x.op, (ast.Mult, ast.Div))
                 and norm(x.target) == qname]
        if whole:
            col.ok(where_of(resp), resp.rel, line_of(whole[0]), "normalisation loop ranges over all modes",
                   f"'{stmt_key(whole[0])}' scales every column at once")
            col.ok(where_of(resp), resp.rel, line_of(whole[0]), "eigenvectors scaled in place through a view of the returned matrix",
                   stmt_key(whole[0]))
            return
        raise AnalysisError("EigenSolve: no loop scaling the eigenvectors in place found")
    lp = loops[0]
    it = norm(lp.iter)
    counts = (f"{wname}.size", f"len({wname})", f"{qname}.shape[1]", f"{qname}.shape[-1]", f"{wname}.shape[0]")
    full = it in tuple(f"range({c_})" for c_ in counts)
    if not full and isinstance(lp.iter, ast.Call) and norm(lp.iter.func) == "range" and len(lp.iter.args) == 1 and \
            isinstance(lp.iter.args[0], ast.Name):
        # the count is held in a local: every definition of it is the number of computed modes
        nm = lp.iter.args[0].id
        defs = [d.value for d in ast.walk(resp.node) if isinstance(d, ast.Assign) and len(d.targets) == 1
                and isinstance(d.targets[0], ast.Name) and d.targets[0].id == nm]
        others = [d for d in ast.walk(resp.node) if isinstance(d, ast.Name) and d.id == nm and isinstance(d.ctx, ast.Store)]
        full = bool(defs) and len(others) == len(defs) and all(norm(d) in counts for d in defs)
    # for [i,] q in [enumerate](Q.T): the rows of the transpose are the columns of Q, all of them, as views
    from .common import LoopElems
    le = LoopElems(lp.target, lp.iter)
    col_views = {nm for nm, seq in le.elems.items() if norm(seq) in (f"{qname}.T", f"{qname}.transpose()")}
    full = full or bool(col_views)
    if full:
        col.ok(where_of(resp), resp.rel, line_of(lp), "normalisation loop ranges over all modes", it)
    else:
        col.bad(where_of(resp), resp.rel, line_of(lp), "normalisation loop ranges over all modes",
                f"the loop iterates '{U(lp.iter)}', not all computed modes: some eigenvectors are returned un-normalised")
    idx = lp.target.id if isinstance(lp.target, ast.Name) else None
    scaled = [x for x in ast.walk(lp) if isinstance(x, ast.AugAssign) and isinstance(x.op, (ast.Mult, ast.Div))]
    okv = False
    for s in scaled:
        t = s.target
        if isinstance(t, ast.Subscript) and norm(t.value) == qname:
            okv = True
        if isinstance(t, ast.Name) and t.id in col_views:
            okv = True
        if isinstance(t, ast.Name):
            # defined in the loop as a basic column slice of the returned matrix
            for d in ast.walk(lp):
                if isinstance(d, ast.Assign):
                    tg = d.targets[0]
                    pairs = list(zip(tg.elts, d.value.elts)) if isinstance(tg, ast.Tuple) and isinstance(d.value, ast.Tuple) else [(tg, d.value)]
                    for a, v in pairs:
                        if isinstance(a, ast.Name) and a.id == t.id and isinstance(v, ast.Subscript) and norm(v.value) == qname \
                                and isinstance(v.slice, ast.Tuple) and isinstance(v.slice.elts[0], ast.Slice) and norm(v.slice.elts[1]) == idx:
                            okv = True
    if okv:
        col.ok(where_of(resp), resp.rel, line_of(scaled[0]), "eigenvectors scaled in place through a view of the returned matrix", stmt_key(scaled[0]))
    else:
        col.bad(where_of(resp), resp.rel, line_of(scaled[0]) if scaled else line_of(lp),
                "eigenvectors scaled in place through a view of the returned matrix",
                f"the scaling is applied to something that is not a column view of '{qname}': the returned eigenvectors "
                f"are not normalised / sign-fixed")


@rule("R-SHIFT-PAIR", floor=2)
def r_shift_pair(ctx: RuleCtx, col: Collector):
    """Sparse shift-and-invert: the operator handed to the eigensolver as OPinv must be the inverse of (A - sigma*M) for
    the very M (and sigma) that are passed to the eigensolver: the matrix subtracted in the shift is the one passed as
    M=, and the operator's solver is the one updated with the shifted matrix."""
    m = ctx.model
    es, resp = _eig(ctx)
    f = None
    for g in _af(ctx, es).closure(resp):
        if any(isinstance(x, ast.Call) and isinstance(x.func, ast.Attribute) and x.func.attr in ("eigsh", "eigs") for x in ast.walk(g.node)):
            f = g
    if f is None:
        raise AnalysisError("sparse eigensolver call not found")
    selfn = m.self_name(f)
    shift = None
    for n in ast.walk(f.node):
        if isinstance(n, ast.Assign) and isinstance(n.value, ast.BinOp) and isinstance(n.value.op, ast.Sub) and \
                isinstance(n.value.right, ast.BinOp) and isinstance(n.value.right.op, ast.Mult) and "sigma" in norm(n.value.right):
            shift = n
    if shift is None:
        raise AnalysisError(f"{f.short}: shifted matrix (A - sigma*M) not found")
    mat = [x for x in (shift.value.right.left, shift.value.right.right) if "sigma" not in norm(x)]
    a_in_shift = norm(shift.value.left)
    m_in_shift = norm(mat[0]) if mat else "?"
    for call in [x for x in ast.walk(f.node) if isinstance(x, ast.Call) and isinstance(x.func, ast.Attribute) and x.func.attr in ("eigsh", "eigs")]:
        mk = [k.value for k in call.keywords if k.arg == "M"]
        a0 = norm(call.args[0]) if call.args else "?"
        construct = f"{call.func.attr}({a0}, M={U(mk[0]) if mk else None}, sigma=...) vs shift '{stmt_key(shift)}'"
        wh = [k.value for k in call.keywords if k.arg == "which"]
        if wh and not (isinstance(wh[0], ast.Constant) and wh[0].value == "LM"):
            col.bad(where_of(f), f.rel, line_of(call), f"{call.func.attr}: which={U(wh[0])} in shift-invert mode",
                    f"in shift-invert mode 'which' selects among nu = 1/(lambda - sigma): only 'LM' (the default) returns the "
                    f"eigenvalues closest to the shift on both sides; {U(wh[0])} returns those on one side of it only")
        # M=<name> denotes the matrix of the shift when it is that name, or when on every path to the call it was last set
        # by a plain copy of it (B = Bloc after a helper was inlined); a copy on some paths only does not make them equal
        same = {m_in_shift}
        if mk and isinstance(mk[0], ast.Name) and mk[0].id != m_in_shift:
            mname = mk[0].id
            cfg_ = ctx.flow.cfg(f)
            st_ = call
            while not isinstance(st_, ast.stmt):
                st_ = getattr(st_, "_parent", None)
            cn_ = cfg_.node_of(st_)
            assigns = [n_ for n_ in ast.walk(f.node) if isinstance(n_, ast.Assign) and any(
                isinstance(x_, ast.Name) and x_.id == mname for t_ in n_.targets for x_ in ast.walk(t_))]
            copies = [n_ for n_ in assigns if len(n_.targets) == 1 and isinstance(n_.value, ast.Name) and n_.value.id == m_in_shift]
            nodes_ = [cfg_.node_of(n_) for n_ in copies]
            others_ = [cfg_.node_of(n_) for n_ in assigns if n_ not in copies]
            overwritten = any(o_ is not None and cn_ is not None and cn_ in cfg_.reachable([o_]) and
                              any(x_ is not None and o_ in cfg_.reachable([s2 for s2, _l in x_.succ]) for x_ in nodes_) for o_ in others_)
            if copies and not overwritten and cn_ is not None and all(x_ is not None for x_ in nodes_) and \
                    cfg_.must_pass(cfg_.entry, cn_, nodes_):
                # ... and the shift matrix is not changed between such a copy and the call
                later = [n_ for n_ in ast.walk(f.node) if isinstance(n_, ast.Assign) and any(
                    isinstance(x_, ast.Name) and x_.id == m_in_shift for t_ in n_.targets for x_ in ast.walk(t_))]
                if not any(cfg_.node_of(l_) is not None and any(
                        cn_ in cfg_.reachable([cfg_.node_of(l_)]) and cfg_.node_of(l_) in cfg_.reachable([nd_]) for nd_ in nodes_) for l_ in later):
                    same.add(mname)
        if mk and norm(mk[0]) in same and a0 == a_in_shift:
            col.ok(where_of(f), f.rel, line_of(call), construct, "same pencil in the shift and in the eigensolver")
        else:
            col.bad(where_of(f), f.rel, line_of(call), construct,
                    f"the shift-invert operator is built from {a_in_shift} - sigma*{m_in_shift} but the eigensolver is called for the "
                    f"pencil ({a0}, {U(mk[0]) if mk else 'I'}): OPinv is not the inverse of (A - sigma*M), so the returned pairs are "
                    f"not eigenpairs of the requested problem")
