"""Rules for assembly, filters, grid numbering, overhang set-up and aggregation helpers
(C07, C08, C09, C12, C13, C14, C16): R-BLOCK-T, R-BC-BOTH, R-PARALLEL, R-GAUSS-SIB, R-CONSTIT, R-KERNEL-NORM,
R-ROWSUM, R-PAD-SIB, R-RADIX, R-NODE-TABLE, R-DIR-VALID, R-BAND."""
from __future__ import annotations

import ast
from typing import Dict, List, Optional, Set, Tuple

from ..cfg import CFG, Node, STMT, TEST, FOR, fmt_path
from ..dep import DefUse
from ..model import stmt_key, AnalysisError, FuncInfo, ClassInfo
from ..report import rule, Collector
from .common import RuleCtx, where_of, line_of, dedupe
from .eff import module_methods
from .fresh import _af

U = ast.unparse


def norm(e) -> str:
    return "".join(U(e).split())


# ------------------------------------------------------------------------------------------------- block transposes
def _is_block_of(e: ast.AST, names: Set[str]) -> bool:
    """e is obtained purely by indexing one of `names` (A[f, :][:, p] ...)."""
    while isinstance(e, ast.Subscript):
        e = e.value
    return isinstance(e, ast.Name) and e.id in names


def _matrix_blocks(resp: FuncInfo, params: Set[str]) -> Dict[str, ast.AST]:
    """locals / attributes assigned from pure indexing of a parameter, two subscripts deep (rows, then columns).  A block
    may be cut in two steps (Af = A[f, ...]; Afm = Af[..., m]): subscripts are counted through slice-derived names."""
    blocks: Dict[str, ast.AST] = {}
    depth: Dict[str, int] = {p: 0 for p in params}
    changed = True
    while changed:
        changed = False
        for n in ast.walk(resp.node):
            if isinstance(n, ast.Assign) and isinstance(n.value, ast.Subscript):
                e, k = n.value, 0
                while isinstance(e, ast.Subscript):
                    e, k = e.value, k + 1
                if isinstance(e, ast.Name) and e.id in depth:
                    for t in n.targets:
                        if isinstance(t, (ast.Name, ast.Attribute)) and norm(t) not in params:
                            d = depth[e.id] + k
                            if depth.get(norm(t)) != d:
                                depth[norm(t)] = d
                                changed = True
                            if d >= 2:
                                blocks[norm(t)] = n.value
    return blocks


@rule("R-BLOCK-T", floor=2)
def r_block_t(ctx: RuleCtx, col: Collector):
    """Partitioned linear-system modules: a sub-block obtained purely by indexing the input matrix must not be used
    transposed in the forward path (that silently assumes a symmetric matrix: A_pf is replaced by A_fp^T)."""
    m = ctx.model
    n_inst = 0
    for c, resp in module_methods(ctx, "_response"):
        params = set(resp.pos_params())
        selfn = m.self_name(resp)
        blocks = _matrix_blocks(resp, params)
        if not blocks:
            continue
        for b, src in sorted(blocks.items()):
            n_inst += 1
            uses = [x for x in ast.walk(resp.node) if isinstance(x, ast.Attribute) and x.attr in ("T", "H") and norm(x.value) == b] + \
                   [x for x in ast.walk(resp.node) if isinstance(x, ast.Call) and isinstance(x.func, ast.Attribute)
                    and x.func.attr == "transpose" and norm(x.func.value) == b]
            if uses:
                for u in uses:
                    col.bad(where_of(resp), resp.rel, line_of(u), f"{c.name}._response uses {b}.T (block {norm(src)})",
                            f"the forward path uses the transpose of the block {b} = {U(src)} in place of the mirrored block "
                            f"of the input matrix: only valid for symmetric matrices (for a general matrix the returned "
                            f"right-hand side does not satisfy A x = b)")
            else:
                col.ok(where_of(resp), resp.rel, line_of(src), f"{c.name}._response block {b} = {norm(src)}", "never transposed in the forward path")
    if n_inst == 0:
        raise AnalysisError("no partitioned linear-system module found")
    dedupe(col)


@rule("R-BLOCK-MATMUL", floor=3)
def r_block_matmul(ctx: RuleCtx, col: Collector):
    """Partitioned linear-system modules accept dense or sparse matrices: a block of the input matrix must be combined
    with vectors through the matrix product `@` (or .dot); `*` is a matrix product only for scipy sparse *matrices* and
    broadcasts element-wise for dense arrays and sparse arrays."""
    m = ctx.model
    for c, resp in module_methods(ctx, "_response"):
        params = set(resp.pos_params())
        blocks = set(_matrix_blocks(resp, params))
        if not blocks:
            continue
        sens = m.resolve_method(c, "_sensitivity")
        for f in [resp] + ([sens] if sens is not None and sens.cls is not m.module_base() else []):
            for n in ast.walk(f.node):
                if not isinstance(n, ast.BinOp) or not isinstance(n.op, (ast.Mult, ast.MatMult)):
                    continue
                sides = [n.left, n.right]
                blk = [s_ for s_ in sides if norm(s_) in blocks or (isinstance(s_, ast.Attribute) and s_.attr in ("T", "H")
                                                                    and norm(s_.value) in blocks)]
                if not blk:
                    continue
                other = [s_ for s_ in sides if s_ is not blk[0]][0]
                if isinstance(other, ast.Constant) or (isinstance(other, ast.Name) and other.id in ("lam",) and False):
                    continue
                # scalar factors (e.g. lam * B with an eigenvalue) are element-wise by intent: only judge products whose
                # other operand is array-like: a parameter, a subscripted array, or a name defined from those
                if isinstance(n.op, ast.MatMult):
                    col.ok(where_of(f), f.rel, line_of(n), f"{c.name}: {U(n)}", "matrix product")
                elif _is_arraylike(f, other):
                    col.bad(where_of(f), f.rel, line_of(n), f"{c.name}: {U(n)}",
                            f"'{U(blk[0])}' is a block of the input matrix and is multiplied with '{U(other)}' using '*': "
                            f"for dense input (documented as supported) this is an element-wise product, not A·x")
    dedupe(col)


def _is_arraylike(f: FuncInfo, e: ast.AST) -> bool:
    if isinstance(e, ast.Subscript):
        return True
    if isinstance(e, ast.Name):
        if e.id in f.pos_params():
            return True
        for n in ast.walk(f.node):
            if isinstance(n, ast.Assign) and any(isinstance(t, ast.Name) and t.id == e.id for t in n.targets):
                if isinstance(n.value, (ast.Subscript, ast.Attribute, ast.Call)):
                    return True
    return False


# ---------------------------------------------------------------------------------------------------- assembly
def _operand_calls(e: ast.AST, du: DefUse, fname: str, _seen=None) -> List[ast.Call]:
    """Calls of `fname` the value of e depends on through operand positions (out= slots excluded)."""
    from .lints import BINARY_UFUNCS, UNARY_UFUNCS
    _seen = _seen if _seen is not None else set()
    out: List[ast.Call] = []
    if isinstance(e, ast.Name):
        if e.id in _seen:
            return out
        _seen.add(e.id)
        for d in du.defs.get(e.id, []):
            out += _operand_calls(d, du, fname, _seen)
        return out
    if isinstance(e, ast.Call):
        name = norm(e.func).split(".")[-1]
        if name == fname:
            out.append(e)
        args = list(e.args)
        if name in BINARY_UFUNCS:
            args = args[:2]
        elif name in UNARY_UFUNCS:
            args = args[:1]
        if isinstance(e.func, ast.Attribute) and not (isinstance(e.func.value, ast.Name) and e.func.value.id in ("np", "numpy")):
            out += _operand_calls(e.func.value, du, fname, _seen)
        for a in args:
            out += _operand_calls(a.value if isinstance(a, ast.Starred) else a, du, fname, _seen)
        for k in e.keywords:
            if k.arg not in ("out", "where", "dtype"):
                out += _operand_calls(k.value, du, fname, _seen)
        return out
    for ch in ast.iter_child_nodes(e):
        if isinstance(ch, ast.expr):
            out += _operand_calls(ch, du, fname, _seen)
    return out


def expand_names_keep(fn: ast.FunctionDef, e: ast.AST, keep: Set[str]) -> ast.AST:
    """expand_names, except that the names in `keep` stay as they are"""
    import copy as _copy
    from ..model import _binding_counts
    cnt = _binding_counts(fn)
    defs = {}
    for n in ast.walk(fn):
        if isinstance(n, ast.Assign) and len(n.targets) == 1 and isinstance(n.targets[0], ast.Name) and cnt.get(n.targets[0].id, 0) == 1 \
                and n.targets[0].id not in keep:
            defs[n.targets[0].id] = n.value

    class X(ast.NodeTransformer):
        def __init__(self, d):
            self.d = d

        def visit_Name(self, node):
            if isinstance(node.ctx, ast.Load) and node.id in defs and self.d > 0:
                return X(self.d - 1).visit(_copy.deepcopy(defs[node.id]))
            return node
    return X(4).visit(_copy.deepcopy(e))


@rule("R-BC-BOTH", floor=1)
def r_bc_both(ctx: RuleCtx, col: Collector):
    """Assembly with constrained dofs: the mask of removed entries depends on membership of the entry's ROW index and of
    its COLUMN index in the constrained set (rows-only masking leaves constrained columns and an unsymmetric matrix)."""
    m = ctx.model
    ag = m.public_class("AssembleGeneral")
    prep = m.resolve_method(ag, "_prepare")
    resp = m.resolve_method(ag, "_response")
    selfn = m.self_name(prep)
    rs = m.self_name(resp)
    # row / column index attributes: the pair handed to the matrix constructor in _response
    rowa = cola = None
    for n in ast.walk(resp.node):
        if isinstance(n, ast.Call) and n.args and isinstance(n.args[0], ast.Tuple) and len(n.args[0].elts) == 2 and \
                isinstance(n.args[0].elts[1], ast.Tuple) and len(n.args[0].elts[1].elts) == 2:
            r, c = n.args[0].elts[1].elts
            if isinstance(r, ast.Attribute) and isinstance(c, ast.Attribute):
                rowa, cola = r.attr, c.attr
    if rowa is None:
        raise AnalysisError("AssembleGeneral._response: sparse constructor call (vals, (rows, cols)) not found")
    du = DefUse(prep.node)
    # selector attribute: used to index inside the definitions of the row/col attributes
    sel = None
    base_r = base_c = None
    for n in ast.walk(prep.node):
        if isinstance(n, ast.Assign) and isinstance(n.targets[0], ast.Attribute) and n.targets[0].attr in (rowa, cola):
            for x in ast.walk(n.value):
                if isinstance(x, ast.Subscript) and isinstance(x.slice, ast.Attribute) and norm(x.slice.value) == selfn \
                        and isinstance(x.value, ast.Attribute):
                    sel = x.slice.attr
                    if n.targets[0].attr == rowa:
                        base_r = x.value.attr
                    else:
                        base_c = x.value.attr
    if sel is None or base_r is None or base_c is None:
        raise AnalysisError("AssembleGeneral._prepare: boundary-condition selector not recognised")
    seldef = [n.value for n in ast.walk(prep.node) if isinstance(n, ast.Assign) and isinstance(n.targets[0], ast.Attribute)
              and n.targets[0].attr == sel and not (isinstance(n.value, ast.Constant))]
    if not seldef:
        raise AnalysisError("selector definition not found")
    calls = []
    for d in seldef:
        calls += _operand_calls(d, du, "isin")
    tested = {norm(c.args[0]) for c in calls if c.args}
    need = {f"{selfn}.{base_r}", f"{selfn}.{base_c}"}
    construct = f"AssembleGeneral: selector self.{sel} built from membership tests"
    if not (need <= tested) and len(tested) == 1:
        # membership tested once on the connectivity both index vectors are expanded from, then placed along the row axis
        # and along the column axis:  m = isin(conn, bc);  keep = ~(m[:, :, None] | m[:, None, :])
        src = next(iter(tested))
        defs_rc = [norm(n.value) for n in ast.walk(prep.node) if isinstance(n, ast.Assign) and isinstance(n.targets[0], ast.Attribute)
                   and norm(n.targets[0]) in need]
        if len(defs_rc) >= 2 and all(src in d for d in defs_rc):
            mnames = {norm(n.targets[0]) for n in ast.walk(prep.node) if isinstance(n, ast.Assign) and n.value in calls}
            from .common import expand_names
            placements = set()
            for d in seldef:
                for x in ast.walk(expand_names_keep(prep.node, d, mnames)):
                    if isinstance(x, ast.Subscript) and norm(x.value) in mnames and any(
                            k in norm(x.slice) for k in ("None", "np.newaxis", "numpy.newaxis")):
                        placements.add(norm(x.slice).replace("np.newaxis", "None").replace("numpy.newaxis", "None"))
            if len(placements) >= 2:
                col.ok(where_of(prep), prep.rel, line_of(seldef[0]), construct,
                       f"membership of {src} placed along both the row and the column axis {sorted(placements)}")
                return
            if len(placements) == 1:
                col.bad(where_of(prep), prep.rel, line_of(seldef[0]), construct,
                        f"membership of {src} is placed along one axis only ({sorted(placements)[0]}): entries are removed for "
                        f"constrained rows or for constrained columns, not for both")
                return
    if need <= tested:
        col.ok(where_of(prep), prep.rel, line_of(seldef[0]), construct, f"tests {sorted(tested)}")
    else:
        col.bad(where_of(prep), prep.rel, line_of(seldef[0]), construct,
                f"the entries removed for boundary conditions are selected by membership of {sorted(tested) or 'nothing'} "
                f"only; {sorted(need - tested)} is not tested as an operand: constrained "
                f"{'columns' if f'{selfn}.{base_c}' in need - tested else 'rows'} keep their entries")


@rule("R-PARALLEL", floor=3, tier="thorough")
def r_parallel(ctx: RuleCtx, col: Collector):
    """The value, row-index and column-index arrays handed to the sparse constructor are built from the same selector
    and extended by constraint-length blocks in the same order (diagonal entries: row tail == column tail == bc)."""
    m = ctx.model
    ag = m.public_class("AssembleGeneral")
    prep = m.resolve_method(ag, "_prepare")
    resp = m.resolve_method(ag, "_response")
    ps, rs = m.self_name(prep), m.self_name(resp)

    def concat_parts(fn, target_pred):
        out = []
        for n in ast.walk(fn.node):
            if isinstance(n, ast.Assign) and target_pred(n.targets[0]) and isinstance(n.value, ast.Call) and \
                    norm(n.value.func).endswith("concatenate") and n.value.args and isinstance(n.value.args[0], ast.Tuple):
                out.append((n, n.value.args[0].elts))
        return out
    rowa = cola = vals = None
    for n in ast.walk(resp.node):
        if isinstance(n, ast.Call) and n.args and isinstance(n.args[0], ast.Tuple) and len(n.args[0].elts) == 2 and \
                isinstance(n.args[0].elts[1], ast.Tuple):
            vals = n.args[0].elts[0]
            rowa, cola = [x.attr for x in n.args[0].elts[1].elts]
    rparts = concat_parts(prep, lambda t: isinstance(t, ast.Attribute) and t.attr == rowa)
    cparts = concat_parts(prep, lambda t: isinstance(t, ast.Attribute) and t.attr == cola)
    vparts = concat_parts(resp, lambda t: isinstance(t, ast.Name) and isinstance(vals, ast.Name) and t.id == vals.id)
    if not (rparts and cparts and vparts):
        raise AnalysisError("AssembleGeneral: concatenated (values, rows, cols) not recognised")
    (rn, r), (cn, c), (vn, v) = rparts[0], cparts[0], vparts[0]

    def selector(e):
        return norm(e.slice).split(".")[-1] if isinstance(e, ast.Subscript) else None
    sels = {selector(r[0]), selector(c[0]), selector(v[0])}
    if len(r) == len(c) == len(v) == 2 and len(sels) == 1 and None not in sels:
        col.ok("AssembleGeneral", prep.rel, line_of(rn), "values/rows/cols share one selector", f"self.{sels.pop()}")
    else:
        col.bad("AssembleGeneral", prep.rel, line_of(rn), "values/rows/cols share one selector",
                f"selectors differ or part counts differ: rows {[U(x) for x in r]}, cols {[U(x) for x in c]}, values {[U(x) for x in v]}")
    if norm(r[-1]).split(".")[-1] == norm(c[-1]).split(".")[-1]:
        col.ok("AssembleGeneral", prep.rel, line_of(rn), "diagonal entries: row tail == column tail", U(r[-1]))
    else:
        col.bad("AssembleGeneral", prep.rel, line_of(rn), "diagonal entries: row tail == column tail",
                f"appended row indices '{U(r[-1])}' differ from appended column indices '{U(c[-1])}': the constraint "
                f"values do not land on the diagonal")
    tail_len = norm(v[-1])
    bcname = norm(r[-1]).split(".")[-1]
    if f"len({rs}.{bcname})" in tail_len or f"{rs}.{bcname}.size" in tail_len or f"{rs}.{bcname}.shape" in tail_len:
        col.ok("AssembleGeneral", resp.rel, line_of(vn), "appended values have constraint length", U(v[-1]))
    else:
        col.bad("AssembleGeneral", resp.rel, line_of(vn), "appended values have constraint length",
                f"'{U(v[-1])}' is not sized by the constrained-dof set self.{bcname}")


@rule("R-GAUSS-SIB", floor=5, tier="thorough")
def r_gauss_sib(ctx: RuleCtx, col: Collector):
    """The element-integration loops (stiffness, mass, Poisson, strain, thermal load) iterate the element's node table
    with the same sampling-point expression; the integrating ones use the same weight; the 2-D thickness scaling of the
    constitutive matrix is applied by all of {stiffness, stress, thermal load} or by none."""
    m = ctx.model
    from .common import expand_names, untag
    loops = []
    for c in m.module_classes():
        f = c.method("_prepare")
        if f is None:
            continue
        for n in ast.walk(f.node):
            if not (isinstance(n, ast.For) and isinstance(n.target, ast.Name)):
                continue
            # the sampling points: one per entry of the element's node table, computed in the loop body or beforehand
            # (points = [<expr of n> for n in domain.node_numbering]; for pos in points)
            var, posx = None, None
            if norm(n.iter).endswith(".node_numbering"):
                var = n.target.id
                pos = [x for x in n.body if isinstance(x, ast.Assign) and isinstance(x.targets[0], ast.Name)
                       and any(isinstance(y, ast.Name) and y.id == var for y in ast.walk(x.value))]
                posx = pos[0].value if pos else None
            else:
                src = expand_names(f.node, n.iter)
                while isinstance(src, ast.Call) and norm(src.func) in ("list", "tuple", "iter") and len(src.args) == 1:
                    src = src.args[0]
                if isinstance(src, (ast.ListComp, ast.GeneratorExp)) and len(src.generators) == 1 and not src.generators[0].ifs \
                        and isinstance(src.generators[0].target, ast.Name) and norm(src.generators[0].iter).endswith(".node_numbering"):
                    var, posx = src.generators[0].target.id, src.elt
                else:
                    continue
            # integration weight by role: the leading name factor of the accumulated integrand in the loop body
            wname = None
            for x in n.body:
                for y in ast.walk(x):
                    if isinstance(y, (ast.AugAssign, ast.Assign)) and isinstance(y.value, ast.BinOp):
                        lead = y.value
                        while isinstance(lead, ast.BinOp) and isinstance(lead.op, (ast.Mult, ast.MatMult)):
                            lead = lead.left
                        if isinstance(lead, ast.Name) and lead.id not in (n.target.id, var) and wname is None:
                            wname = lead.id
            w = [x.value for x in ast.walk(f.node) if isinstance(x, ast.Assign) and isinstance(x.targets[0], ast.Name)
                 and x.targets[0].id == wname and x not in list(ast.walk(n))]
            loops.append((c, f, n, posx, w[0] if w else None, var))
    if len(loops) < 4:
        raise AnalysisError(f"only {len(loops)} element-integration loops found")

    def canon(e, var):
        import copy as _c
        from .common import canon_arith
        e2 = _c.deepcopy(e)
        for x in ast.walk(e2):
            if isinstance(x, ast.Name) and x.id == var:
                x.id = "NODE"
        return canon_arith(e2)
    ref = None
    for c, f, n, pos, w, var in loops:
        if pos is None:
            raise AnalysisError(f"{c.name}._prepare: sampling-point expression of the loop at line {line_of(n)} not recognised")
        t = untag(canon(expand_names(f.node, pos), var))
        if ref is None:
            ref = (c, t)
        if t == ref[1]:
            col.ok(c.name, f.rel, line_of(pos), f"{c.name}: sampling point {untag(U(pos))}", "same rule as the sibling loops")
        else:
            col.bad(c.name, f.rel, line_of(pos), f"{c.name}: sampling point {untag(U(pos))}",
                    f"differs from {ref[0].name}'s '{ref[1]}': the element integrals of this class use another quadrature")
    ws = {}
    for c, f, n, pos, w, var in loops:
        if w is None:
            continue
        t = norm(w)
        if "elemnodes" in t:
            continue            # averaging weight (Strain): not an integral
        # the quadrature weight proper: the factors of the (expanded) product that are built from the element size; a
        # material constant folded into the same local is not part of the quadrature rule
        from .common import expand_names
        facs = []

        def flat(e):
            if isinstance(e, ast.BinOp) and isinstance(e.op, ast.Mult):
                flat(e.left)
                flat(e.right)
            else:
                facs.append(e)
        flat(expand_names(f.node, w))
        geo = sorted(untag(norm(x)) for x in facs if any(k in norm(x) for k in ("siz", "element_size")))
        t = "*".join(geo) if geo else t
        ws.setdefault(t, []).append(c.name)
    if len(ws) == 1:
        col.ok("assembly", loops[0][1].rel, line_of(loops[0][2]), "integration weight shared", f"{list(ws)[0]} in {sorted(sum(ws.values(), []))}")
    else:
        col.bad("assembly", loops[0][1].rel, line_of(loops[0][2]), "integration weight shared",
                f"integration weights differ between classes: {ws}")
    # 2-D thickness scaling of get_D
    users = {}
    for c in m.module_classes():
        f = c.method("_prepare")
        if f is None or not any(isinstance(x, ast.Call) and norm(x.func).endswith("get_D") for x in ast.walk(f.node)):
            continue
        scaled = "no"
        for x in ast.walk(f.node):
            if isinstance(x, ast.AugAssign) and isinstance(x.op, ast.Mult) and "element_size[2]" in norm(x.value):
                g = None
                pp = getattr(x, "_parent", None)
                while pp is not None and pp is not f.node:
                    if isinstance(pp, ast.If):
                        from .common import expand_names
                        g = norm(expand_names(f.node, pp.test))
                    pp = getattr(pp, "_parent", None)
                scaled = f"under '{g}'" if g else "unconditionally"
        users[c.name] = scaled
    if len(set(users.values())) <= 1:
        col.ok("assembly", loops[0][1].rel, line_of(loops[0][2]), "2-D thickness scaling of the constitutive matrix", str(users))
    else:
        col.bad("assembly", loops[0][1].rel, line_of(loops[0][2]), "2-D thickness scaling of the constitutive matrix",
                f"applied inconsistently: {users}: stress / thermal load and stiffness disagree for unitz != 1")


@rule("R-CONSTIT", floor=2, tier="thorough")
def r_constit(ctx: RuleCtx, col: Collector):
    """An operator multiplied with the constitutive matrix get_D must be the strain-displacement operator get_B combined
    only linearly with scalar weights: get_B already yields engineering shear strains, so a row-selective rescaling
    between get_B and the product double-counts shear (sibling oracle: stiffness and thermal load use the raw get_B)."""
    m = ctx.model
    for c in m.module_classes():
        f = m.resolve_method(c, "_prepare")
        if f is None or f.cls is not c:
            continue
        uses_d = [x for x in ast.walk(f.node) if isinstance(x, ast.Call) and norm(x.func).endswith("get_D")]
        if not uses_d:
            continue
        # is the B operand produced in this method, or inherited through super()._prepare?
        chain = _af(ctx, c).closure(f)
        rescale = None
        for g in chain:
            if not any(isinstance(x, ast.Call) and norm(x.func).endswith("get_B") for x in ast.walk(g.node)):
                continue
            for x in ast.walk(g.node):
                if isinstance(x, ast.AugAssign) and isinstance(x.op, (ast.Mult, ast.Div)) and isinstance(x.target, ast.Subscript) \
                        and not (isinstance(x.target.slice, ast.Slice)):
                    # guarded by a flag parameter? propagate the constant passed by the subclass
                    guard = None
                    p = getattr(x, "_parent", None)
                    while p is not None and p is not g.node:
                        if isinstance(p, ast.If):
                            guard = p.test
                        p = getattr(p, "_parent", None)
                    active = True
                    if isinstance(guard, ast.Name):
                        val = _const_arg_from(ctx, c, f, g, guard.id)
                        if val is False:
                            active = False
                    if active:
                        rescale = (g, x)
        construct = f"{c.name}: operand of the constitutive product"
        if rescale is not None:
            g, x = rescale
            col.bad(c.name, g.rel, line_of(x), construct,
                    f"{c.name} multiplies get_D with a strain operator whose selected rows were rescaled by "
                    f"'{stmt_key(x)}' ({g.short}) after get_B: get_B's shear rows are already engineering shear, so the "
                    f"stress / energy uses doubled shear strain")
        else:
            col.ok(c.name, f.rel, line_of(uses_d[0]), construct, "raw get_B combined linearly")
    dedupe(col)


def _const_arg_from(ctx: RuleCtx, c: ClassInfo, caller: FuncInfo, callee: FuncInfo, pname: str):
    """Constant passed for parameter `pname` of `callee` by `caller` (through super()._prepare), else its default."""
    m = ctx.model
    if caller is callee:
        d = callee.defaults().get(pname)
        return d.value if isinstance(d, ast.Constant) else None
    for n in ast.walk(caller.node):
        if isinstance(n, ast.Call) and callee in m.resolve_call(caller, n, concrete=c):
            for k in n.keywords:
                if k.arg == pname and isinstance(k.value, ast.Constant):
                    return k.value.value
            ps = callee.pos_params()
            if pname in ps and ps.index(pname) < len(n.args) and isinstance(n.args[ps.index(pname)], ast.Constant):
                return n.args[ps.index(pname)].value
            d = callee.defaults().get(pname)
            return d.value if isinstance(d, ast.Constant) else None
    d = callee.defaults().get(pname)
    return d.value if isinstance(d, ast.Constant) else None


# ----------------------------------------------------------------------------------------------------- filters
@rule("R-KERNEL-NORM", floor=1)
def r_kernel_norm(ctx: RuleCtx, col: Collector):
    """Every radius kernel sums to one: on every path of the routine that builds the cone kernel the stored kernel is
    divided by its own sum after its last assignment."""
    m = ctx.model
    fc = m.public_class("FilterConv")
    f = m.resolve_method(fc, "set_filter_radius")
    if f is None:
        raise AnalysisError("FilterConv.set_filter_radius not found")
    selfn = m.self_name(f)
    cfg = ctx.flow.cfg(f)
    assigns = [nd for nd in cfg.simple_nodes() if nd.kind == STMT and isinstance(nd.ast, ast.Assign) and any(
        isinstance(t, ast.Attribute) and norm(t.value) == selfn for t in nd.ast.targets)]
    kern = None
    for nd in assigns:
        if any(isinstance(x, ast.Call) and norm(x.func).endswith("maximum") for x in ast.walk(nd.ast.value)):
            kern = nd.ast.targets[0].attr
    if kern is None:
        raise AnalysisError("cone kernel assignment not found")
    kassign = [nd for nd in assigns if nd.ast.targets[0].attr == kern]
    normn = [nd for nd in cfg.simple_nodes() if nd.kind == STMT and (
        (isinstance(nd.ast, ast.AugAssign) and isinstance(nd.ast.op, ast.Div) and norm(nd.ast.target) == f"{selfn}.{kern}"
         and f"sum({selfn}.{kern})" in norm(nd.ast.value).replace("np.", "")) or
        (isinstance(nd.ast, ast.Assign) and norm(nd.ast.targets[0]) == f"{selfn}.{kern}" and isinstance(nd.ast.value, ast.BinOp)
         and isinstance(nd.ast.value.op, ast.Div) and "sum(" in norm(nd.ast.value.right)))]
    ok = bool(normn) and all(cfg.must_pass(a, cfg.exit, normn) for a in kassign if a not in normn)
    if ok:
        col.ok(where_of(f), f.rel, line_of(normn[0].ast), f"kernel self.{kern} normalised by its sum", "on every path")
    else:
        col.bad(where_of(f), f.rel, line_of(kassign[0].ast), f"kernel self.{kern} normalised by its sum",
                f"self.{kern} can leave {f.short} without being divided by its own sum: constant fields are scaled and the "
                f"filter is not volume preserving")


@rule("R-ROWSUM", floor=1, tier="thorough")
def r_rowsum(ctx: RuleCtx, col: Collector):
    """Filter: the normalisation vector is a sum-reduction of the same matrix the response multiplies with, and the
    response divides by it."""
    m = ctx.model
    fl = m.public_class("Filter")
    prep = m.resolve_method(fl, "_prepare")
    resp = m.resolve_method(fl, "_response")
    ps, rs = m.self_name(prep), m.self_name(resp)
    found = None
    for n in ast.walk(prep.node):
        if isinstance(n, ast.Assign) and isinstance(n.targets[0], ast.Attribute) and isinstance(n.value, ast.Call) and \
                isinstance(n.value.func, ast.Attribute) and n.value.func.attr == "sum" and isinstance(n.value.func.value, ast.Attribute):
            found = (n.targets[0].attr, n.value.func.value.attr, n)
    if found is None:
        col.bad("Filter", prep.rel, line_of(prep.node), "Filter: normalisation derived from H",
                "the normalisation vector is no longer a sum-reduction of the filter matrix")
        return
    sattr, hattr, node = found
    col.ok("Filter", prep.rel, line_of(node), "Filter: normalisation derived from H", f"self.{sattr} = self.{hattr}.sum(...)")
    t = norm(resp.node)
    if f"{rs}.{hattr}" in t and f"/{rs}.{sattr}" in t:
        col.ok("Filter", resp.rel, line_of(resp.node), "Filter._response multiplies with H and divides by its sums", "")
    else:
        col.bad("Filter", resp.rel, line_of(resp.node), "Filter._response multiplies with H and divides by its sums",
                f"the response does not use self.{hattr} together with a division by self.{sattr}")


@rule("R-PAD-SIB", floor=1, tier="thorough")
def r_pad_sib(ctx: RuleCtx, col: Collector):
    """FilterConv padding: both edges of an axis support the same set of boundary modes."""
    m = ctx.model
    fc = m.public_class("FilterConv")
    f = m.resolve_method(fc, "_process_padding")
    if f is None:
        raise AnalysisError("FilterConv._process_padding not found")
    ps = f.pos_params()
    edge = [p for p in ps if "edge" in p]
    if len(edge) != 2:
        raise AnalysisError("edge-mode parameters not recognised")
    modes = {e: set() for e in edge}
    for n in ast.walk(f.node):
        if isinstance(n, ast.Compare) and isinstance(n.left, ast.Name) and n.left.id in modes and \
                isinstance(n.comparators[0], ast.Constant):
            modes[n.left.id].add(repr(n.comparators[0].value))
        if isinstance(n, ast.Call) and norm(n.func) == "isinstance" and isinstance(n.args[0], ast.Name) and n.args[0].id in modes:
            modes[n.args[0].id].add("<" + norm(n.args[1]) + ">")
    a, b = edge
    if modes[a] == modes[b]:
        col.ok(where_of(f), f.rel, line_of(f.node), "padding modes of both edges agree", f"{sorted(modes[a])}")
    else:
        col.bad(where_of(f), f.rel, line_of(f.node), "padding modes of both edges agree",
                f"{a} supports {sorted(modes[a])} but {b} supports {sorted(modes[b])}: a mode accepted at one boundary is "
                f"silently ignored (no padding) at the other")


# ------------------------------------------------------------------------------------------------------- domain
def _horner(e: ast.AST) -> Optional[Tuple[List[str], List[str]]]:
    """(digits least-significant first, radices least-significant first) of a mixed-radix Horner form, written as
    (a*R1 + b)*R0 + c or c + R0*(b + R1*a) (any operand order)."""
    digits, radices = [], []
    cur = e
    while True:
        if isinstance(cur, ast.BinOp) and isinstance(cur.op, ast.Add):
            sides = [cur.left, cur.right]
            prods = [x for x in sides if isinstance(x, ast.BinOp) and isinstance(x.op, ast.Mult)]
            if len(prods) == 1:
                hi = prods[0]
                lo = sides[1] if sides[0] is hi else sides[0]
                digits.append(norm(lo))
                # which factor is the radix?  the one that is not itself a sum of products / a bare index
                a, b = hi.left, hi.right
                inner, rad = (a, b)
                if _looks_like_radix(a) and not _looks_like_radix(b):
                    inner, rad = b, a
                radices.append(norm(rad))
                cur = inner
                continue
            return None
        digits.append(norm(cur))
        break
    return (digits, radices) if radices else None


def _looks_like_radix(x: ast.AST) -> bool:
    """self.nelx, (self.nelx + 1), max(self.nelz, 1): an expression over the grid sizes only."""
    names = [n for n in ast.walk(x) if isinstance(n, ast.Name)]
    return all(n.id in ("self", "max") for n in names) and any(isinstance(n, ast.Attribute) for n in ast.walk(x))


def _strip_parens(t: str) -> str:
    while t.startswith("(") and t.endswith(")"):
        t = t[1:-1]
    return t


@rule("R-RADIX", floor=3, tier="thorough")
def r_radix(ctx: RuleCtx, col: Collector):
    """Structured-grid numbering: the radices of the mixed-radix encoders (element and node number from Cartesian
    indices) equal, in the same significance order, those of the decoder (node indices from node number), and the
    element / node counts are the products of their radices."""
    m = ctx.model
    dd = m.public_class("DomainDefinition")

    def ret_expr(name):
        f = m.resolve_method(dd, name)
        if f is None:
            raise AnalysisError(f"DomainDefinition.{name} not found")
        r = [n for n in ast.walk(f.node) if isinstance(n, ast.Return) and n.value is not None]
        return f, r[-1].value
    fn, en = ret_expr("get_nodenumber")
    fe, ee = ret_expr("get_elemnumber")
    hn, he = _horner(en), _horner(ee)
    if hn is None or he is None:
        raise AnalysisError("encoders are not in Horner form")
    # parameters in order (i, j, k) must be the digits least-significant first
    for f, (digits, radices), what in ((fn, hn, "node"), (fe, he, "element")):
        ps = f.pos_params()
        if digits == ps[:len(digits)]:
            col.ok(where_of(f), f.rel, line_of(f.node), f"{what} encoder digit order", f"{digits} with radices {radices}")
        else:
            col.bad(where_of(f), f.rel, line_of(f.node), f"{what} encoder digit order",
                    f"digits {digits} are not the parameters {ps[:len(digits)]} in x-fastest order")
    # decoder
    fd = m.resolve_method(dd, "get_node_indices")
    du = DefUse(fd.node)
    idx = fd.pos_params()[0]
    decoded = []
    # the digit extractions, wherever they are formed (named locals, list entries, arguments), with named radices expanded
    from .common import expand_names
    inner = set()
    for d0 in ast.walk(fd.node):
        if not (isinstance(d0, ast.BinOp) and isinstance(d0.op, (ast.Mod, ast.FloorDiv))) or id(d0) in inner:
            continue
        d = expand_names(fd.node, d0)
        if isinstance(d.op, ast.Mod) and norm(d.left) == idx:
            decoded.append((0, norm(d.right), None))
        elif isinstance(d.op, ast.Mod) and isinstance(d.left, ast.BinOp) and isinstance(d.left.op, ast.FloorDiv) and norm(d.left.left) == idx:
            decoded.append((1, norm(d.right), norm(d.left.right)))
            if isinstance(d0.left, ast.BinOp):
                inner.add(id(d0.left))
            elif isinstance(d0.left, ast.Name):
                # the quotient was named: its own definition is part of this digit
                for x in ast.walk(fd.node):
                    if isinstance(x, ast.Assign) and isinstance(x.targets[0], ast.Name) and x.targets[0].id == d0.left.id:
                        inner.add(id(x.value))
        elif isinstance(d.op, ast.FloorDiv) and norm(d.left) == idx:
            decoded.append((2, None, norm(d.right)))
    # a quotient consumed by a later `% radix` was collected before its consumer was seen: drop those
    decoded = [t for t in decoded if not (t[0] == 2 and any(u[0] == 1 and u[2] == t[2] for u in decoded))] or decoded
    decoded = sorted(set(decoded), key=lambda t: (t[0], str(t[1]), str(t[2])))
    rad = [_strip_parens(r) for r in hn[1]]
    okd = len(decoded) >= 3 and _strip_parens(decoded[0][1]) == rad[0] and _strip_parens(decoded[1][2]) == rad[0] and \
        _strip_parens(decoded[1][1]) == rad[1] and \
        _strip_parens(decoded[2][2]).replace("(", "").replace(")", "") in (
            f"{rad[0]}*{rad[1]}".replace("(", "").replace(")", ""), f"{rad[1]}*{rad[0]}".replace("(", "").replace(")", ""))
    if okd:
        col.ok(where_of(fd), fd.rel, line_of(fd.node), "node decoder radices match the encoder", f"radices {rad}")
    else:
        col.bad(where_of(fd), fd.rel, line_of(fd.node), "node decoder radices match the encoder",
                f"get_node_indices decodes with {decoded} but get_nodenumber encodes with radices {rad} (least significant "
                f"first): node numbers and Cartesian indices are no longer inverse to each other")
    # stride tables: a literal [1, r0, r0*r1] anywhere in the class must be the cumulative products of the radices
    flat = lambda t: t.replace("(", "").replace(")", "")
    for name, defs in sorted(dd.methods.items()):
        for g in defs:
            for n in ast.walk(g.node):
                if isinstance(n, (ast.List, ast.Tuple)) and len(n.elts) == 3 and isinstance(n.elts[0], ast.Constant) and \
                        n.elts[0].value == 1 and isinstance(n.elts[2], ast.BinOp) and isinstance(n.elts[2].op, ast.Mult):
                    radn, rade = [flat(r) for r in hn[1]], [flat(r) for r in he[1]]
                    e1, e2 = flat(norm(n.elts[1])), flat(norm(n.elts[2]))
                    ok = any(e1 == r[0] and e2 in (f"{r[0]}*{r[1]}", f"{r[1]}*{r[0]}") for r in (radn, rade))
                    if ok:
                        col.ok(where_of(g), g.rel, line_of(n), f"stride table {U(n)}", "cumulative products of the encoder radices")
                    else:
                        col.bad(where_of(g), g.rel, line_of(n), f"stride table {U(n)}",
                                f"the strides are not [1, r0, r0*r1] for the encoder radices {hn[1]} (nodes) or {he[1]} "
                                f"(elements): numbers computed through this table disagree with get_nodenumber/get_elemnumber "
                                f"whenever the grid is not square")
    # counts
    init = m.resolve_method(dd, "__init__")
    s = m.self_name(init)
    for attr, radices, extra in (("nnodes", hn[1], None), ("nel", he[1], None)):
        d = [n.value for n in ast.walk(init.node) if isinstance(n, ast.Assign) and norm(n.targets[0]) == f"{s}.{attr}"]
        if not d:
            raise AnalysisError(f"DomainDefinition.__init__: assignment of self.{attr} not found")
        t = norm(d[0])
        if all(_strip_parens(r) in t for r in radices):
            col.ok(where_of(init), init.rel, line_of(d[0]), f"{attr} is the product of the radices", t)
        else:
            col.bad(where_of(init), init.rel, line_of(d[0]), f"{attr} is the product of the radices",
                    f"{attr} = {t} does not contain the encoder radices {radices}")


@rule("R-NODE-TABLE", floor=8, tier="thorough")
def r_node_table(ctx: RuleCtx, col: Collector):
    """Local node order of an element: literal entry k of the node table has the sign pattern of the bits of k (x
    fastest): entry[k][d] = +1 if bit d of k is set else -1; entries 2-3 are set for dim >= 2 and 4-7 for dim >= 3."""
    m = ctx.model
    dd = m.public_class("DomainDefinition")
    init = m.resolve_method(dd, "__init__")
    s = m.self_name(init)
    n_found = 0
    for n in ast.walk(init.node):
        if isinstance(n, ast.Assign) and isinstance(n.targets[0], ast.Subscript) and \
                norm(n.targets[0].value) == f"{s}.node_numbering" and isinstance(n.targets[0].slice, ast.Constant) and \
                isinstance(n.value, ast.List):
            k = n.targets[0].slice.value
            vals = []
            for x in n.value.elts:
                if isinstance(x, ast.UnaryOp) and isinstance(x.operand, ast.Constant):
                    vals.append(-x.operand.value if isinstance(x.op, ast.USub) else x.operand.value)
                elif isinstance(x, ast.Constant):
                    vals.append(x.value)
            n_found += 1
            want = [1 if (k >> d) & 1 else -1 for d in range(3)]
            guard = None
            p = getattr(n, "_parent", None)
            if isinstance(p, ast.If):
                guard = norm(p.test)
            need_guard = None if k < 2 else (f"{s}.dim>=2" if k < 4 else f"{s}.dim>=3")
            if vals == want and guard == need_guard:
                col.ok(where_of(init), init.rel, line_of(n), f"node_numbering[{k}] = {vals}", "bits of k, x fastest")
            else:
                col.bad(where_of(init), init.rel, line_of(n), f"node_numbering[{k}] = {vals}",
                        f"expected {want} under guard {need_guard} (found guard {guard}): connectivity, shape functions "
                        f"and element matrices would refer to a different corner")
    if n_found == 0:
        # computed table: fold the defining expression for elemnodes = 2, 4, 8
        d = [n.value for n in ast.walk(init.node) if isinstance(n, ast.Assign) and norm(n.targets[0]) == f"{s}.node_numbering"]
        folded = None
        if d:
            try:
                folded = {en: _const_eval(d[-1], {f"{s}.elemnodes": en, f"{s}.dim": dm}) for en, dm in ((2, 1), (4, 2), (8, 3))}
            except Exception:
                folded = None
        if folded is None:
            raise AnalysisError("node table: neither literal entries nor a foldable defining expression found")
        for en, tab in folded.items():
            for k in range(en):
                want = [1 if (k >> dd) & 1 else -1 for dd in range(3)]
                dim = {2: 1, 4: 2, 8: 3}[en]
                got = list(tab[k])
                if got[:dim] == want[:dim]:
                    col.ok(where_of(init), init.rel, line_of(d[-1]), f"node_numbering[{k}] for {en} nodes = {got}", "bits of k (folded)")
                else:
                    col.bad(where_of(init), init.rel, line_of(d[-1]), f"node_numbering[{k}] for {en} nodes = {got}",
                            f"expected {want[:dim]} in the first {dim} component(s)")
        return
    if n_found < 8:
        raise AnalysisError(f"node table: only {n_found} literal entries found")


def _const_eval(e: ast.AST, env: Dict[str, object]):
    """Constant folding of a literal integer expression (names bound in `env`; range / comprehensions / conditional
    expressions / integer arithmetic only).  Raises on anything else."""
    t = "".join(ast.unparse(e).split()) if isinstance(e, (ast.Attribute, ast.Name)) else None
    if t is not None and t in env:
        return env[t]
    if isinstance(e, ast.Constant) and isinstance(e.value, (int, float)):
        return e.value
    if isinstance(e, ast.UnaryOp) and isinstance(e.op, (ast.USub, ast.UAdd)):
        v = _const_eval(e.operand, env)
        return -v if isinstance(e.op, ast.USub) else v
    if isinstance(e, ast.BinOp):
        a, b = _const_eval(e.left, env), _const_eval(e.right, env)
        ops = {ast.Add: lambda: a + b, ast.Sub: lambda: a - b, ast.Mult: lambda: a * b, ast.FloorDiv: lambda: a // b,
               ast.Mod: lambda: a % b, ast.RShift: lambda: a >> b, ast.LShift: lambda: a << b, ast.BitAnd: lambda: a & b,
               ast.BitOr: lambda: a | b, ast.Pow: lambda: a ** b}
        return ops[type(e.op)]()
    if isinstance(e, ast.Compare) and len(e.ops) == 1:
        a, b = _const_eval(e.left, env), _const_eval(e.comparators[0], env)
        return {ast.Eq: a == b, ast.NotEq: a != b, ast.Lt: a < b, ast.LtE: a <= b, ast.Gt: a > b, ast.GtE: a >= b}[type(e.ops[0])]
    if isinstance(e, ast.IfExp):
        return _const_eval(e.body, env) if _const_eval(e.test, env) else _const_eval(e.orelse, env)
    if isinstance(e, (ast.List, ast.Tuple)):
        return [_const_eval(x, env) for x in e.elts]
    if isinstance(e, ast.Call) and isinstance(e.func, ast.Name) and e.func.id == "range":
        return list(range(*[_const_eval(a, env) for a in e.args]))
    if isinstance(e, ast.ListComp) and len(e.generators) == 1 and isinstance(e.generators[0].target, ast.Name) and not e.generators[0].ifs:
        g = e.generators[0]
        out = []
        for v in _const_eval(g.iter, env):
            out.append(_const_eval(e.elt, dict(env, **{g.target.id: v})))
        return out
    raise ValueError("not foldable")


# ------------------------------------------------------------------------------------------------------ overhang
@rule("R-DIR-VALID", floor=3)
def r_dir_valid(ctx: RuleCtx, col: Collector):
    """OverhangFilter set-up: every path (string or vector direction) reaches the normalisation of the direction and the
    axis-alignment assertion, the z = 0 assertion is reached whenever the domain is 2-D, and the number of support
    points is validated against the dimension."""
    m = ctx.model
    oh = m.public_class("OverhangFilter")
    f = m.resolve_method(oh, "_prepare")
    selfn = m.self_name(f)
    cfg = ctx.flow.cfg(f)
    normn = [nd for nd in cfg.simple_nodes() if nd.kind == STMT and isinstance(nd.ast, ast.Assign) and
             any(isinstance(x, ast.Call) and norm(x.func).endswith("linalg.norm") for x in ast.walk(nd.ast.value))]
    asserts = [nd for nd in cfg.simple_nodes() if nd.kind == TEST and isinstance(nd.owner, ast.Assert)]
    dattr = normn[0].ast.targets[0].attr if normn and isinstance(normn[0].ast.targets[0], ast.Attribute) else None
    if not normn or dattr is None:
        raise AnalysisError("OverhangFilter._prepare: normalisation of the print direction not found")
    if cfg.must_pass(cfg.entry, cfg.exit, normn):
        col.ok(where_of(f), f.rel, line_of(normn[0].ast), "direction normalised", "on every path")
    else:
        col.bad(where_of(f), f.rel, line_of(normn[0].ast), "direction normalised",
                f"a path skips the normalisation: {fmt_path(cfg.find_path(cfg.entry, cfg.exit, blocked=normn))}")
    align = [a for a in asserts if f"abs({selfn}.{dattr}).sum()" in norm(a.ast) or f"abs({selfn}.{dattr})" in norm(a.ast)]
    if align and cfg.must_pass(cfg.entry, cfg.exit, align):
        col.ok(where_of(f), f.rel, line_of(align[0].ast), "axis alignment asserted", "on every path")
    else:
        col.bad(where_of(f), f.rel, line_of(f.node), "axis alignment asserted",
                "a path reaches the end of _prepare without asserting that the direction is aligned with one axis")
    zs = [a for a in asserts if f"{selfn}.{dattr}[2]" in norm(a.ast)]
    okz = False
    for a in zs:
        p = getattr(a.owner, "_parent", None)
        if isinstance(p, ast.If) and "dim==2" in norm(p.test):
            t = cfg.node_of(p)
            okz = t is not None and cfg.must_pass(cfg.entry, cfg.exit, [t])
    if okz:
        col.ok(where_of(f), f.rel, line_of(zs[0].ast), "z-component asserted zero for 2-D domains", "")
    else:
        col.bad(where_of(f), f.rel, line_of(f.node), "z-component asserted zero for 2-D domains",
                "no assertion (under a dim == 2 test reached on every path) that the print direction has no z-component")
    # the sign of a string direction may stand before or after the axis letter ('-y', 'y-'): it must be found by a
    # position-independent test
    for n in ast.walk(f.node):
        if isinstance(n, (ast.IfExp, ast.If)) and any(isinstance(x, ast.Constant) and x.value == "-" for x in ast.walk(n.test)):
            t = n.test
            positional = [x for x in ast.walk(t) if (isinstance(x, ast.Call) and isinstance(x.func, ast.Attribute)
                                                      and x.func.attr in ("startswith", "endswith", "index", "rindex"))
                          or (isinstance(x, ast.Subscript) and isinstance(x.slice, (ast.Constant, ast.UnaryOp)))]
            if positional:
                col.bad(where_of(f), f.rel, line_of(t), f"sign of a string direction: {U(t)}",
                        f"the sign is read with a position-dependent test ('{U(positional[0])}'): the documented forms "
                        f"'-y' and 'y-' are not both recognised")
            else:
                col.ok(where_of(f), f.rel, line_of(t), f"sign of a string direction: {U(t)}", "position-independent test")
    ns = [a for a in asserts if "nsampling" in norm(a.ast) and "dim" in norm(a.ast)]
    if ns and cfg.must_pass(cfg.entry, cfg.exit, ns):
        col.ok(where_of(f), f.rel, line_of(ns[0].ast), "number of support points validated against the dimension", "")
    else:
        col.bad(where_of(f), f.rel, line_of(f.node), "number of support points validated against the dimension",
                "nsampling is not validated on every path")


# --------------------------------------------------------------------------------------------------- aggregation
@rule("R-BAND", floor=2, tier="thorough")
def r_band(ctx: RuleCtx, col: Collector):
    """AggActiveSet keeps the entries whose normalised value lies in the CLOSED band [lower_rel, upper_rel]: both
    comparisons are non-strict and are made on the same normalised array."""
    m = ctx.model
    c = m.public_class("AggActiveSet")
    f = c.method("__call__")
    selfn = m.self_name(f)
    cmps = []
    for n in ast.walk(f.node):
        if isinstance(n, ast.Compare) and len(n.ops) == 1 and isinstance(n.comparators[0], ast.Attribute) and \
                norm(n.comparators[0].value) == selfn and n.comparators[0].attr.endswith("_rel") and isinstance(n.left, ast.Name):
            # only comparisons of an array (not the scalar guards `self.lower_rel > 0`)
            cmps.append(n)
    if len(cmps) < 2:
        raise AnalysisError("AggActiveSet value-band comparisons not found")
    arrs = {n.left.id for n in cmps}
    for n in cmps:
        a = n.comparators[0].attr
        want = ast.GtE if a.startswith("lower") else ast.LtE
        if isinstance(n.ops[0], want):
            col.ok(where_of(f), f.rel, line_of(n), f"band comparison {U(n)}", "closed comparison")
        else:
            col.bad(where_of(f), f.rel, line_of(n), f"band comparison {U(n)}",
                    f"the band must be closed at self.{a}: entries whose normalised value equals the bound are dropped "
                    f"(e.g. the extreme entries for {a} = {'0' if a.startswith('lower') else '1'})")
    if len(arrs) == 1:
        col.ok(where_of(f), f.rel, line_of(cmps[0]), "band comparisons use one normalised array", sorted(arrs)[0])
    else:
        col.bad(where_of(f), f.rel, line_of(cmps[0]), "band comparisons use one normalised array",
                f"lower and upper bounds are compared against different arrays {sorted(arrs)}")
