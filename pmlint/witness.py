"""Tiny positive examples: a virtual module overlaid on the parsed package.  Every construct below violates
one rule and must be reported on every run (otherwise the run is an analysis error).  Obligations located in
this file never count towards a property's verdict."""

WITNESS_SRC = r'''
import numpy as np
import copy
from pymoto import Module, Signal, DyadCarrier
from pymoto.solvers import LinearSolver


class W_SeedAug(Module):
    def _response(self, x):
        self.x = x
        return x * 2

    def _sensitivity(self, dy):
        dy *= 2.0                      # R-EFF-SEED: in-place scaling of the seed
        return dy


class W_SeedView(Module):
    def _response(self, x):
        return x * 2

    def _sensitivity(self, dy):
        w = dy.reshape(-1)
        self.helper(w)                 # R-EFF-SEED: mutation through a helper and a view
        return w

    def helper(self, a):
        np.add.at(a, [0], 1.0)


class W_StateMut(Module):
    def _response(self, x):
        self.cache = x
        return x + 1

    def _sensitivity(self, dy):
        self.cache[0] = 3.0            # R-EFF-STATE: writes the input state through an attribute alias
        self.count = 1                 # R-EFF-SELF: attribute store in _sensitivity
        return dy * 1.0


class W_RespMut(Module):
    def _prepare(self):
        self.inner = W_SeedAug([self.sig_in[0]], [Signal()])

    def _response(self, x):
        x[0] = 1.0                     # R-EFF-RESP: writes the input state
        self.inner.sig_in[0].state = x * 2   # R-EFF-RESP / R-STATE-WRITERS: overwrites the input signal's state
        return x + 1

    def _sensitivity(self, dy):
        return dy


class W_Overwrite(Module):
    def _response(self, x):
        return x * 3

    def _sensitivity(self, dy):
        self.sig_in[0].sensitivity = 3 * dy   # R-ACCUMULATE: overwrite instead of add_sensitivity
        return None


class W_Stale(Module):
    def _prepare(self, solver=None):
        self.solver = W_Solver() if solver is None else solver
        self.kind = None
        self.cache = None

    def _response(self, A, b):
        if b.ndim == 1:
            self.cache = b * 2             # R-FRESH: written only on an input-dependent path
        if self.kind is None:
            self.kind = bool(np.allclose(A, A.T))   # R-LATCH: decided from the first matrix's values
        if self.kind:
            self.solver.update(A)
        return self.solver.solve(b)        # R-UPDATE-BEFORE-SOLVE: solve reachable without update

    def _sensitivity(self, dx):
        return None, self.cache * dx


def w_lints(direction, x, n):
    mask = np.logical_and(x > 0, x < 1, x != 0.5)     # R-UFUNC-ARITY: third operand is `out`
    count = int(x.size * n)
    tail = x[-count:]                                  # R-NEGSLICE: count may be 0
    direction = [0.0, 0.0, 0.0]
    sign = -1.0 if '-' in direction else 1.0           # R-KIND: constant-false string test on a numeric list
    return mask, tail, sign


class W_Arity(Module):
    def _prepare(self, domain):
        self.dofconn = domain.get_dofconnectivity(2)

    def _response(self, a, b):
        return a + b, a - b

    def _sensitivity(self, dp, dm):
        out = np.zeros(10)
        out[self.dofconn] += dp[0]      # R-SCATTER: non-accumulating store through a connectivity table
        g = dp[1:] + 1.0                # R-NULL-SEED: dp may be None
        return out                      # R-ARITY: one entry for two inputs


class W_Affine(Module):
    def _response(self, x):
        self.x = x
        return x * 2

    def _sensitivity(self, dy):
        g = dy * 2.0
        g[0] = self.x[0]               # R-LINEAR: constant stored into a seed-linear buffer
        return g + 1.0                 # R-LINEAR: affine


import functools


@functools.lru_cache(maxsize=8)
def w_table(n):
    return np.ones(n)


def w_use_table(n, t):
    tab = w_table(n)
    tab *= t                           # R-SHARED-STATE: mutates a memoised result
    return tab


class W_ClassCache(Module):
    _cache = {}

    def _response(self, x):
        key = x.size
        if key not in self._cache:
            self._cache[key] = x * 2   # R-SHARED-STATE: class-level container written by a method
        return self._cache[key]

    def _sensitivity(self, dy):
        return dy * 2


def w_round2(x, parts, sl, u):
    flat = x.ravel(order='K')          # R-LAYOUT: memory-order flatten
    o = 0
    for p in parts:
        n = p.size
        p[:] = flat[o:o + n]
        o = n                          # R-RUN-OFFSET: offset replaced instead of advanced
    lo = sl.start + 1                  # R-SLICE-ARITH: raw slice bound in arithmetic
    if u.dot(u) == 0:                  # R-SELFDOT: un-conjugated self product as a zero test
        return None
    return flat, lo


def w_round4(x, masks, n):
    conn = np.zeros((n, 4), dtype=np.uint8)
    dofs = conn * 3                            # R-NARROW-INT: narrow table in arithmetic
    keep = np.zeros_like(x)
    out = []
    for k, mk in enumerate(masks):
        keep[mk] = x[mk]
        keep[mk] += 1.0
        out.append(np.sqrt(keep))             # R-LOOP-BUFFER: whole read of a buffer that is never reset
    return dofs, out


def w_round3(x, dQ, n):
    xi = np.zeros_like(x)
    xi[:2] = 2 * x[:2] / 3                     # R-INT-TRUNC: quotient into an array typed like the argument
    if np.isclose(x.max(), x.min()):           # R-ABS-TOL: default absolute tolerance
        return None
    active = np.sum(dQ, axis=0) != 0           # R-SUM-ZERO: signed sum as a zero test
    nrm = np.linalg.norm(dQ, axis=1)           # R-AXIS-ROLE: i addresses columns below, the reduction runs over them
    out = []
    for i in range(n):
        q = dQ[:, i]
        if nrm[i] == 0:
            continue
        out.append(q)
    step = 1.0
    res = x.sum() * step
    while res > 1e-3:                          # R-STALE-LOOP: res depends on step, which the body changes
        step *= 0.5
    return active, out


class W_SigIdentity(Module):
    def _response(self, a, b):
        return a * b

    def _sensitivity(self, dy):
        a, b = [s.state for s in self.sig_in]
        if self.sig_in[1] in self.sig_in[:1]:   # R-SIG-IDENTITY: result keyed on the identity of a signal
            return dy * b, dy * b
        return dy * b, dy * a


class W_Solver(LinearSolver):
    def update(self, A):
        self.A = A

    def solve(self, rhs, x0=None, trans='N'):
        if x0 is not None:
            x0 += 1.0                  # R-EFF-SOLVE: mutates the initial guess
        return rhs                     # R-EFF-SOLVE: returns its argument
'''
