"""Obligations, rule registry, known-findings handling, evidence and replay files."""
from __future__ import annotations

import re

import hashlib
import json
import os
import time
from dataclasses import dataclass, field, asdict
from typing import Callable, Dict, List, Optional

VERIF_DIR = os.path.dirname(os.path.dirname(os.path.abspath(__file__)))
KNOWN_FILE = os.path.join(VERIF_DIR, "known_findings.json")
EVID_DIR = os.environ.get("PMLINT_EVIDENCE_DIR") or os.path.join(VERIF_DIR, "evidence")
REPLAY_DIR = os.path.join(EVID_DIR, "replay")

OK, VIOLATED, BENIGN = "discharged", "violated", "discharged-benign"
WITNESS_FILE = "pymoto/_pmlint_witness.py"


@dataclass
class Ob:
    """One proof obligation produced by a rule for one instance (class / function / call site / path)."""
    rule: str
    where: str            # qualified function or class the instance lives in
    file: str
    line: int
    construct: str        # normalised text of the construct (key component; never a line number)
    status: str = OK
    msg: str = ""
    extra: Dict[str, object] = field(default_factory=dict)

    @property
    def key(self) -> str:
        return f"{self.rule}|{self.where}|{self.construct}"

    @property
    def is_witness(self) -> bool:
        return self.file == WITNESS_FILE

    def short(self) -> Dict[str, object]:
        d = {"rule": self.rule, "where": self.where, "at": f"{self.file}:{self.line}", "construct": self.construct,
             "status": self.status}
        if self.msg:
            d["reason"] = self.msg
        return d


@dataclass
class RuleSpec:
    rid: str
    fn: Callable
    floor: int            # minimum number of (non-witness) obligations; fewer => analysis error (vacuity guard)
    tier: str             # 'quick' or 'thorough'
    doc: str
    witness_min: int      # number of witness constructs that must be reported on every run (0 = none)


RULES: Dict[str, RuleSpec] = {}


def rule(rid: str, floor: int = 1, tier: str = "quick", witness_min: int = 0):
    def deco(fn):
        RULES[rid] = RuleSpec(rid, fn, floor, tier, (fn.__doc__ or "").strip(), witness_min)
        return fn
    return deco


def _attr(file, line, where):
    from .spans import attribute
    return attribute(file, line, where)


_TAG = re.compile(r"(?<=[A-Za-z0-9])__[A-Za-z][A-Za-z0-9_]*?\d+\b")


def _untag(text: str) -> str:
    """constructs and messages are reported in the source's own names (helper-inliner suffixes removed)"""
    return _TAG.sub("", text) if isinstance(text, str) else text


class Collector:
    """Passed to a rule; collects obligations and assumptions."""
    def __init__(self, rid: str):
        self.rid = rid
        self.obs: List[Ob] = []
        self.assumptions: List[str] = []
        self.stats: Dict[str, int] = {}

    def ok(self, where: str, file: str, line: int, construct: str, msg: str = "", **extra) -> Ob:
        o = Ob(self.rid, _attr(file, line, where), file, line, _untag(construct), OK, _untag(msg), extra)
        self.obs.append(o)
        return o

    def benign(self, where, file, line, construct, msg="", **extra) -> Ob:
        o = Ob(self.rid, _attr(file, line, where), file, line, _untag(construct), BENIGN, _untag(msg), extra)
        self.obs.append(o)
        return o

    def bad(self, where, file, line, construct, msg, **extra) -> Ob:
        o = Ob(self.rid, _attr(file, line, where), file, line, _untag(construct), VIOLATED, _untag(msg), extra)
        self.obs.append(o)
        return o

    def assume(self, text: str):
        if text not in self.assumptions:
            self.assumptions.append(text)

    def count(self, name: str, k: int = 1):
        self.stats[name] = self.stats.get(name, 0) + k


def load_known() -> Dict[str, List[dict]]:
    if not os.path.exists(KNOWN_FILE):
        return {"known": [], "fixed": []}
    with open(KNOWN_FILE) as f:
        d = json.load(f)
    d.setdefault("known", [])
    d.setdefault("fixed", [])
    return d


def known_for(prop: str) -> Dict[str, dict]:
    return {e["key"]: e for e in load_known()["known"] if e.get("property") == prop}


def write_replay(prop: str, ob: Ob, tier: str) -> str:
    os.makedirs(REPLAY_DIR, exist_ok=True)
    h = hashlib.sha1(ob.key.encode()).hexdigest()[:10]
    safe = "".join(ch if ch.isalnum() or ch in "-_." else "_" for ch in ob.where)[:60]
    path = os.path.join(REPLAY_DIR, f"{prop}-{ob.rule}-{safe}-{h}.json")
    with open(path, "w") as f:
        json.dump({"property": prop, "tier": tier, "obligation": asdict(ob), "key": ob.key}, f, indent=1)
    return path


def write_evidence(prop: str, tier: str, seed: int, explanation: str, per_rule: Dict[str, Dict[str, int]],
                   obs: List[Ob], known_hits: List[dict], violations: List[Ob], assumptions: List[str],
                   analysed: Dict[str, object], wall: float, checker_cmd: str):
    os.makedirs(EVID_DIR, exist_ok=True)
    real = [o for o in obs if not o.is_witness]
    n_ob = len(real)
    n_dis = sum(1 for o in real if o.status in (OK, BENIGN))
    distinct = len({o.key for o in real})
    # samples: one obligation per rule plus every non-discharged one (bounded)
    samples, seen = [], set()
    for o in real:
        if o.rule not in seen:
            seen.add(o.rule)
            samples.append(o.short())
    for o in real:
        if o.status == VIOLATED and len(samples) < 60:
            samples.append(o.short())
    ev = {
        "property_id": prop,
        "tier": tier,
        "seed": seed,
        "level": "other",
        "coverage": {
            "explanation": explanation,
            "obligations": n_ob,
            "discharged": n_dis,
            "evaluations": n_ob,
            "distinct_nontrivial": distinct,
            "rule": "one obligation per rule instance (class / method / call site / store site / path) found in the "
                    "current /repo source; distinct = distinct (rule, function, normalised construct) keys; "
                    "an instance is non-trivial because it is a site where the rule's premise matched",
            "samples": samples,
            "exhaustive": True,
            "checker_cmd": checker_cmd,
            "trusted_base": ["CPython ast parser", "pmlint engine (model, cfg, flow) and frozen tables in "
                             "pmlint/tables.py", "NumPy/SciPy view-vs-copy semantics as tabled"],
            "rules": per_rule,
            "known_findings": known_hits,
            "witness_constructs_flagged": sum(1 for o in obs if o.is_witness and o.status == VIOLATED),
            **analysed,
        },
        "assumptions": assumptions,
        "wall_s": round(wall, 3),
        "violations": len(violations),
    }
    with open(os.path.join(EVID_DIR, f"{prop}.json"), "w") as f:
        json.dump(ev, f, indent=1, sort_keys=False)
    return ev
