"""Dependence (taint) analysis: does the value of an expression depend on the function's inputs, and if so only
through their structure (shape / dtype / size / sparsity) or through their values?  Flow-insensitive over
reaching definitions (weak updates included), interprocedural through repository callees."""
from __future__ import annotations

import ast
from typing import Dict, List, Optional, Set, Tuple

from .model import Model, FuncInfo, ClassInfo

NONE, STRUCT, VALUE = 0, 1, 2
LEVEL_NAME = {0: "NONE", 1: "STRUCT", 2: "VALUE"}

STRUCT_ATTRS = {"shape", "dtype", "size", "ndim", "nnz", "itemsize", "format"}
STRUCT_FUNCS = {"len", "type", "isinstance", "hasattr", "callable", "issubclass",
                "shape", "ndim", "size", "iscomplexobj", "isrealobj", "result_type", "issparse", "isspmatrix",
                "isspmatrix_csr", "matrix_is_sparse", "matrix_is_complex", "is_cvxopt_spmatrix",
                "zeros_like", "ones_like", "empty_like", "full_like", "finfo", "iinfo", "dtype", "can_cast",
                "isscalar", "isdyad", "isdense", "isscalarlike"}
# functions whose result carries only the structure of array arguments but the *value* of integer arguments
SHAPE_BUILDERS = {"zeros", "ones", "empty", "arange", "eye", "identity", "full"}


class DefUse:
    """name -> list of defining expressions (flow-insensitive), for one function."""

    def __init__(self, fn: ast.FunctionDef):
        self.fn = fn
        self.defs: Dict[str, List[ast.AST]] = {}
        self.params: List[str] = [a.arg for a in fn.args.posonlyargs + fn.args.args + fn.args.kwonlyargs]
        if fn.args.vararg:
            self.params.append(fn.args.vararg.arg)
        if fn.args.kwarg:
            self.params.append(fn.args.kwarg.arg)
        self._walk(fn.body)

    def _add(self, t: ast.AST, v: ast.AST):
        if isinstance(t, ast.Name):
            self.defs.setdefault(t.id, []).append(v)
        elif isinstance(t, (ast.Tuple, ast.List)):
            if isinstance(v, (ast.Tuple, ast.List)) and len(v.elts) == len(t.elts) and \
                    not any(isinstance(x, ast.Starred) for x in t.elts):
                for tt, vv in zip(t.elts, v.elts):
                    self._add(tt, vv)
            else:
                for tt in t.elts:
                    self._add(tt.value if isinstance(tt, ast.Starred) else tt, v)
        elif isinstance(t, ast.Subscript):
            # weak update of the container
            base = t.value
            while isinstance(base, ast.Subscript):
                base = base.value
            if isinstance(base, ast.Name):
                self.defs.setdefault(base.id, []).append(v)
                self.defs.setdefault(base.id, []).append(t.slice)
        elif isinstance(t, ast.Starred):
            self._add(t.value, v)

    def _walk(self, stmts):
        for st in stmts:
            for n in ast.walk(st):
                if isinstance(n, ast.Assign):
                    for t in n.targets:
                        self._add(t, n.value)
                elif isinstance(n, ast.AnnAssign) and n.value is not None:
                    self._add(n.target, n.value)
                elif isinstance(n, ast.AugAssign):
                    self._add(n.target, n.value)
                elif isinstance(n, ast.For):
                    self._add(n.target, n.iter)
                elif isinstance(n, ast.With):
                    for it in n.items:
                        if it.optional_vars is not None:
                            self._add(it.optional_vars, it.context_expr)
                elif isinstance(n, ast.NamedExpr):
                    self._add(n.target, n.value)
                elif isinstance(n, ast.comprehension):
                    self._add(n.target, n.iter)
                elif isinstance(n, ast.Call) and isinstance(n.func, ast.Attribute) and \
                        n.func.attr in ("append", "extend", "insert", "add", "update") and n.args:
                    base = n.func.value
                    if isinstance(base, ast.Name):
                        self.defs.setdefault(base.id, []).append(n.args[-1])
                elif isinstance(n, ast.ExceptHandler) and n.name:
                    self.defs.setdefault(n.name, [])


class Taint:
    """Taint of expressions in function `f` w.r.t. its own parameters (and signal states)."""

    def __init__(self, model: Model, f: FuncInfo, concrete: Optional[ClassInfo] = None,
                 attr_taint: Optional[Dict[str, int]] = None, param_taint: Optional[Dict[str, int]] = None,
                 depth: int = 0, only_params: Optional[Set[str]] = None):
        self.m = model
        self.f = f
        self.cls = concrete or f.cls
        self.selfn = model.self_name(f)
        self.du = DefUse(f.node)
        self.attr_taint = attr_taint if attr_taint is not None else {}
        self.param_taint = param_taint
        self.depth = depth
        self.only_params = only_params
        self._memo: Dict[str, int] = {}
        self._active: Set[str] = set()
        self.reached_params: Set[str] = set()

    def name_level(self, name: str) -> int:
        if name == self.selfn:
            return NONE
        if name in self._memo:
            return self._memo[name]
        if name in self._active:
            return NONE
        lvl = NONE
        if name in self.du.params:
            if self.only_params is None or name in self.only_params:
                lvl = self.param_taint.get(name, NONE) if self.param_taint is not None else VALUE
                if lvl:
                    self.reached_params.add(name)
        self._active.add(name)
        for d in self.du.defs.get(name, []):
            lvl = max(lvl, self.level(d))
            if lvl == VALUE:
                break
        self._active.discard(name)
        self._memo[name] = lvl
        return lvl

    def level(self, e: Optional[ast.AST]) -> int:
        if e is None:
            return NONE
        if isinstance(e, ast.Constant):
            return NONE
        if isinstance(e, ast.Name):
            return self.name_level(e.id)
        if isinstance(e, ast.Attribute):
            if isinstance(e.value, ast.Name) and e.value.id == self.selfn:
                return self.attr_taint.get(e.attr, NONE)
            if e.attr in STRUCT_ATTRS:
                return min(self.level(e.value), STRUCT)
            if e.attr == "state":
                return VALUE if self.only_params is None else self.level(e.value)
            return self.level(e.value)
        if isinstance(e, ast.Call):
            fname = None
            if isinstance(e.func, ast.Name):
                fname = e.func.id
            elif isinstance(e.func, ast.Attribute):
                fname = e.func.attr
            args = list(e.args) + [k.value for k in e.keywords]
            inner = NONE
            for a in args:
                inner = max(inner, self.level(a.value if isinstance(a, ast.Starred) else a))
            if fname in STRUCT_FUNCS:
                return min(inner, STRUCT)
            if fname in SHAPE_BUILDERS:
                return inner  # np.arange(n): depends on the value of n (which is usually itself STRUCT)
            recv = NONE
            if isinstance(e.func, ast.Attribute):
                recv = self.level(e.func.value)
            # repository callee: propagate through its body
            if self.depth < 3:
                callees = self.m.resolve_call(self.f, e, concrete=self.cls)
                if callees and all(g.cls is None or g.name != "__init__" for g in callees):
                    out = NONE
                    for g in callees:
                        out = max(out, self._callee_level(g, e))
                    return max(out, recv if not self._is_self_call(e) else NONE)
            return max(inner, recv)
        if isinstance(e, (ast.ListComp, ast.SetComp, ast.GeneratorExp)):
            lvl = self.level(e.elt)
            for g in e.generators:
                lvl = max(lvl, self.level(g.iter))
                for c in g.ifs:
                    lvl = max(lvl, self.level(c))
            return lvl
        if isinstance(e, ast.DictComp):
            lvl = max(self.level(e.key), self.level(e.value))
            for g in e.generators:
                lvl = max(lvl, self.level(g.iter))
            return lvl
        if isinstance(e, ast.Lambda):
            return self.level(e.body)
        lvl = NONE
        for ch in ast.iter_child_nodes(e):
            if isinstance(ch, ast.expr):
                lvl = max(lvl, self.level(ch))
                if lvl == VALUE:
                    break
        return lvl

    def _is_self_call(self, c: ast.Call) -> bool:
        return isinstance(c.func, ast.Attribute) and isinstance(c.func.value, ast.Name) and c.func.value.id == self.selfn

    def _callee_level(self, g: FuncInfo, c: ast.Call) -> int:
        params = g.pos_params()
        pt: Dict[str, int] = {}
        i = 0
        for a in c.args:
            if isinstance(a, ast.Starred):
                lv = self.level(a.value)
                for p in params[i:]:
                    pt[p] = max(pt.get(p, NONE), lv)
                if g.vararg():
                    pt[g.vararg()] = max(pt.get(g.vararg(), NONE), lv)
                continue
            lv = self.level(a)
            if i < len(params):
                pt[params[i]] = lv
            elif g.vararg():
                pt[g.vararg()] = max(pt.get(g.vararg(), NONE), lv)
            i += 1
        for k in c.keywords:
            if k.arg is not None:
                pt[k.arg] = self.level(k.value)
        t = Taint(self.m, g, self.cls if (g.cls is not None and self.cls is not None
                                         and self.m.is_subclass(self.cls, g.cls)) else None,
                  attr_taint=self.attr_taint, param_taint=pt, depth=self.depth + 1)
        out = NONE
        for n in ast.walk(g.node):
            if isinstance(n, ast.Return) and n.value is not None:
                out = max(out, t.level(n.value))
        return out


def names_in(e: ast.AST) -> Set[str]:
    return {n.id for n in ast.walk(e) if isinstance(n, ast.Name)}


def self_attrs_in(e: ast.AST, selfn: str) -> Set[str]:
    return {n.attr for n in ast.walk(e) if isinstance(n, ast.Attribute) and isinstance(n.value, ast.Name)
            and n.value.id == selfn}
