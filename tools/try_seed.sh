#!/bin/bash
# usage: try_seed.sh <seed id> <rule> [<rule> ...]   -- runs single rules against a scratch copy with the seeded patch applied
set -e
sid=$1; shift
tmp=$(mktemp -d /var/tmp/pmlint_try_XXXX)
trap 'rm -rf "$tmp"' EXIT
git -C /repo archive HEAD pymoto | tar -x -C "$tmp"
( cd "$tmp" && git init -q . && git apply --whitespace=nowarn /verif/seeded/$sid/patch.diff )
for r in "$@"; do
  echo "== $sid $r"
  ( cd /verif && VERIF_REPO=$tmp PMLINT_EVIDENCE_DIR=$tmp/ev /venv/bin/python -m pmlint rule $r 2>&1 | grep -E "^ +violated|ANALYSIS|instances|Traceback|Error" | cut -c1-400 | head -6 )
done
