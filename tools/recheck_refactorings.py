#!/usr/bin/env python3
"""Re-runs every registered check against each stored behaviour-preserving refactoring (refactorings/<id>/patch.diff
applied to a scratch worktree of /repo HEAD) and records `alarms_now` in its meta.json.  Any alarm is a false alarm."""
import concurrent.futures as cf
import glob, json, os, shutil, subprocess, sys, tempfile
VERIF = os.path.dirname(os.path.dirname(os.path.abspath(__file__)))
PY = "/venv/bin/python"


def one(d):
    rid = os.path.basename(d.rstrip("/"))
    tmp = tempfile.mkdtemp(prefix="pmlint_rf_", dir="/var/tmp")
    wt = os.path.join(tmp, "wt")
    try:
        subprocess.run(["git", "-C", "/repo", "worktree", "add", "-q", "--detach", wt, "HEAD"], check=True)
        r = subprocess.run(["git", "-C", wt, "apply", "--whitespace=nowarn", os.path.join(d, "patch.diff")], capture_output=True, text=True)
        if r.returncode:
            r = subprocess.run(["git", "-C", wt, "apply", "--3way", "--whitespace=nowarn", os.path.join(d, "patch.diff")], capture_output=True, text=True)
            if r.returncode:
                return rid, None
        alarms = {}
        env = dict(os.environ, VERIF_REPO=wt, PMLINT_EVIDENCE_DIR=os.path.join(tmp, "ev"))
        sel = sys.argv[2:] if len(sys.argv) > 2 else None
        for c in json.load(open(os.path.join(VERIF, "MANIFEST.json")))["checks"]:
            p = c["property_id"]
            for tier in ("thorough",):
                rr = subprocess.run([PY, "-m", "pmlint", "check", p, "--tier", tier], cwd=VERIF, env=env, capture_output=True, text=True)
                if rr.returncode != 0:
                    alarms.setdefault(p, {})[tier] = {"exit": rr.returncode, "lines": [ln[:300] for ln in rr.stdout.split("\n") if ln.startswith("pymoto/") or ln.startswith("ANALYSIS")][:5]}
        return rid, alarms
    finally:
        subprocess.run(["git", "-C", "/repo", "worktree", "remove", "--force", wt], capture_output=True)
        shutil.rmtree(tmp, ignore_errors=True)


def main():
    pat = sys.argv[1] if len(sys.argv) > 1 else "*"
    dirs = sorted(glob.glob(os.path.join(VERIF, "refactorings", pat + "/")))
    n_silent = 0
    with cf.ThreadPoolExecutor(max_workers=10) as ex:
        for rid, alarms in ex.map(one, dirs):
            mp = os.path.join(VERIF, "refactorings", rid, "meta.json")
            meta = json.load(open(mp))
            meta["alarms_now"] = alarms
            json.dump(meta, open(mp, "w"), indent=1)
            if alarms is None:
                print(rid, "PATCH-DOES-NOT-APPLY")
            elif not alarms:
                n_silent += 1
                print(rid, "silent")
            else:
                seen = set()
                for p, v in alarms.items():
                    for t, dd in v.items():
                        for ln in dd["lines"][:2]:
                            key = ln.split(":")[0] + ln[ln.find(" R-"):ln.find(" R-") + 20] if " R-" in ln else ln[:60]
                            if key not in seen:
                                seen.add(key)
                                print(rid, f"{p}:exit{dd['exit']}", ln[:230])
    print(f"{n_silent}/{len(dirs)} silent")


if __name__ == "__main__":
    main()
