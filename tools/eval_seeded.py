#!/usr/bin/env python3
"""Confirms candidate seeded changes produced by independent sub-agents and records which checks catch them.

usage: eval_seeded.py <candidate dir> <seed id> <property>     (candidate dir holds patch.diff, demo.py, notes.md)

Steps (all in a scratch worktree of /repo HEAD under /var/tmp, removed afterwards):
  1. patch applies to the current HEAD of /repo (3-way fallback);
  2. demo passes on the clean tree, fails with the patch;
  3. the baseline test suite still passes with the patch (all 159 stable tests);
  4. every registered check (thorough tier) is run against the patched worktree (VERIF_REPO) -> detection matrix.
Writes /verif/seeded/<seed id>/{patch.diff,demo.py,notes.md,meta.json}.
"""
import json
import os
import shutil
import subprocess
import sys
import xml.etree.ElementTree as ET

VERIF = os.path.dirname(os.path.dirname(os.path.abspath(__file__)))
PY = "/venv/bin/python"
ENV1 = dict(os.environ, OMP_NUM_THREADS="1", OPENBLAS_NUM_THREADS="1", MKL_NUM_THREADS="1")


def sh(cmd, cwd=None, env=None, timeout=1800):
    r = subprocess.run(cmd, cwd=cwd, env=env, capture_output=True, text=True, timeout=timeout)
    return r.returncode, r.stdout + r.stderr


def baseline_ok(junit):
    base = set(json.load(open("/root/.vp/BASELINE.json"))["stable_pass"])
    passed = set()
    for tc in ET.parse(junit).getroot().iter("testcase"):
        if not any(ch.tag in ("failure", "error", "skipped") for ch in tc):
            passed.add(f"{tc.get('classname')}::{tc.get('name')}")
    return sorted(base - passed)


def main():
    cand, sid, prop = sys.argv[1], sys.argv[2], sys.argv[3]
    skip_tests = "--skip-tests" in sys.argv
    wt = f"/var/tmp/seedval/{sid}"
    os.makedirs("/var/tmp/seedval", exist_ok=True)
    sh(["git", "-C", "/repo", "worktree", "remove", "--force", wt])
    shutil.rmtree(wt, ignore_errors=True)
    rc, out = sh(["git", "-C", "/repo", "worktree", "add", "-q", "--detach", wt, "HEAD"])
    if rc:
        print(sid, "WORKTREE-FAIL", out)
        return 2
    meta = {"id": sid, "property": prop, "source": cand, "ran": []}
    try:
        head = sh(["git", "-C", wt, "rev-parse", "--short", "HEAD"])[1].strip()
        meta["repo_head"] = head
        demo = os.path.join(cand, "demo.py")
        os.makedirs(os.path.join(wt, "_out", "X"), exist_ok=True)
        shutil.copy(demo, os.path.join(wt, "_out", "X", "demo.py"))
        rc0, out0 = sh([PY, "_out/X/demo.py"], cwd=wt, env=ENV1, timeout=600)
        meta["ran"].append({"cmd": "demo.py on clean HEAD", "exit": rc0, "tail": out0[-300:]})
        rc, out = sh(["git", "-C", wt, "apply", "--whitespace=nowarn", os.path.join(cand, "patch.diff")])
        if rc:
            rc, out = sh(["git", "-C", wt, "apply", "--3way", "--whitespace=nowarn", os.path.join(cand, "patch.diff")])
        meta["ran"].append({"cmd": "git apply patch.diff", "exit": rc, "tail": out[-300:]})
        if rc:
            meta["verdict"] = "patch does not apply to HEAD"
            print(sid, "APPLY-FAIL")
            return finish(meta, cand, wt, keep=False)
        rc1, out1 = sh([PY, "_out/X/demo.py"], cwd=wt, env=ENV1, timeout=600)
        meta["ran"].append({"cmd": "demo.py with patch", "exit": rc1, "tail": out1[-400:]})
        rcc, outc = sh([PY, "-m", "compileall", "-q", "pymoto"], cwd=wt)
        meta["ran"].append({"cmd": "compileall pymoto", "exit": rcc})
        missing = None
        if not skip_tests:
            junit = os.path.join(wt, "_out", "X", "junit.xml")
            rct, outt = sh([PY, "-m", "pytest", "-q", "-p", "no:cacheprovider", "--timeout=900", "--continue-on-collection-errors",
                            f"--junitxml={junit}"], cwd=wt, env=ENV1, timeout=3000)
            missing = baseline_ok(junit) if os.path.exists(junit) else ["<no junit>"]
            meta["ran"].append({"cmd": "pytest (baseline command, single-threaded BLAS) with patch", "baseline_tests_no_longer_passing": missing,
                                "tail": outt.strip().split("\n")[-1][-200:]})
        confirmed = rc0 == 0 and rc1 != 0 and rcc == 0 and (skip_tests or not missing)
        meta["confirmed"] = confirmed
        # the patch relative to HEAD
        patch = subprocess.run(["git", "-C", wt, "diff", "--", "pymoto"], capture_output=True).stdout   # bytes: CRLF files
        meta["patch_head"] = patch
        # detection matrix
        det = {}
        checks = json.load(open(os.path.join(VERIF, "MANIFEST.json")))["checks"]
        env = dict(os.environ, VERIF_REPO=wt, PMLINT_EVIDENCE_DIR=os.path.join(wt, "_out", "evidence"))
        # one pass over every rule (`pmlint sweep`): per property what `check <prop> --tier thorough` would report
        r, o = sh([PY, "-m", "pmlint", "sweep"], cwd=VERIF, env=env)
        cur = None
        for ln in o.split("\n"):
            if ln.startswith("PROP "):
                _, cur, ex = ln.split()
                if ex != "exit=0":
                    det[cur] = {"thorough": {"exit": int(ex.split("=")[1]), "rules": [], "lines": []}}
            elif ln.startswith("  ") and cur in det:
                t = ln.strip()
                if t.startswith("pymoto/") and len(t.split()) > 1 and t.split()[1] not in det[cur]["thorough"]["rules"]:
                    det[cur]["thorough"]["rules"].append(t.split()[1])
                if len(det[cur]["thorough"]["lines"]) < 4:
                    det[cur]["thorough"]["lines"].append(t[:300])
        if "PROP C20" not in o:
            det["ENGINE"] = {"thorough": {"exit": r, "rules": [], "lines": o.strip().split("\n")[-3:]}}
        meta["detected_by"] = det
        meta["detected_for_property"] = prop in det
        print(sid, "CONFIRMED" if confirmed else f"NOT-CONFIRMED(clean={rc0},patched={rc1},missing={missing})",
              "DETECTED:" + ",".join(f"{p}[{'/'.join(sorted(set(sum([v[t]['rules'] for t in v], []))))}]" for p, v in det.items()) if det else "MISSED")
        return finish(meta, cand, wt, keep=confirmed)
    finally:
        sh(["git", "-C", "/repo", "worktree", "remove", "--force", wt])
        shutil.rmtree(wt, ignore_errors=True)


def finish(meta, cand, wt, keep):
    out = os.path.join(VERIF, "seeded", meta["id"])
    if keep:
        os.makedirs(out, exist_ok=True)
        open(os.path.join(out, "patch.diff"), "wb").write(meta.pop("patch_head"))
        shutil.copy(os.path.join(cand, "demo.py"), os.path.join(out, "demo.py"))
        if os.path.exists(os.path.join(cand, "notes.md")):
            shutil.copy(os.path.join(cand, "notes.md"), os.path.join(out, "notes.md"))
        json.dump(meta, open(os.path.join(out, "meta.json"), "w"), indent=1)
    else:
        os.makedirs("/var/tmp/seedval/rejected", exist_ok=True)
        meta.pop("patch_head", None)
        json.dump(meta, open(f"/var/tmp/seedval/rejected/{meta['id']}.json", "w"), indent=1)
    return 0


if __name__ == "__main__":
    sys.exit(main())
