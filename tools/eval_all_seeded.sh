#!/bin/bash
# evaluate all candidate seeded changes in /tmp/mut/wt_C*/_out/{A,B} (8 at a time)
cd /verif
ls -d /tmp/mut/wt_C*/_out/[AB] | while read d; do
  p=$(echo $d | sed 's#.*/wt_\(C[0-9]*\)/_out/\(.\)#\1#'); v=$(basename $d)
  sid="${p}-${v}"
  if [ -f /verif/seeded/$sid/meta.json ] && [ -z "$FORCE" ]; then continue; fi
  echo "$d $sid $p"
done | xargs -P 8 -L 1 /venv/bin/python tools/eval_seeded.py
