#!/usr/bin/env python3
"""Regenerates /verif/MANIFEST.json from pmlint/props.py (claimed properties) and tools/not_applicable.json."""
import json, os, sys
HERE = os.path.dirname(os.path.dirname(os.path.abspath(__file__)))
sys.path.insert(0, HERE)
from pmlint.props import PROPS  # noqa: E402

ALL = [f"C{i:02d}" for i in range(1, 21)]
NA_FILE = os.path.join(HERE, "tools", "not_applicable.json")
na = json.load(open(NA_FILE)) if os.path.exists(NA_FILE) else {}
PY = "/venv/bin/python"
checks = []
for p in ALL:
    if p not in PROPS:
        continue
    s = PROPS[p]
    checks.append({
        "property_id": p,
        "quick_cmd": f"{PY} -m pmlint check {p} --tier quick",
        "thorough_cmd": f"{PY} -m pmlint check {p} --tier thorough",
        "evidence_file": f"/verif/evidence/{p}.json",
        "replay_cmd_template": f"{PY} -m pmlint replay {{path}}",
        "engine": "pmlint",
        "level_claimed": {
            "category": "other",
            "text": s["claim"],
            "design_ref": f"DESIGN.md §4 {p}",
        },
        "level_note": s.get("note", "Trusted base: CPython's ast parser, the pmlint engine (class/MRO model, CFG, "
                            "may-alias origins, callee summaries) and the frozen NumPy/SciPy view-vs-copy tables in "
                            "pmlint/tables.py. External calls are assumed to return fresh memory and not to mutate "
                            "their arguments unless tabled; every such assumption used is listed in the evidence."),
        "technique": s["technique"],
    })
man = {
    "version": 1,
    "setup_cmd": "true",
    "hooks": {
        "guard": "PYMOTO_VERIF",
        "enable": "none needed: the checks read /repo's source and never import or run it",
        "baseline_off_cmd": "cd /repo && /venv/bin/python -m pytest -ra -q -p no:cacheprovider --timeout=900 "
                            "--continue-on-collection-errors",
        "source_commits": [],
        "add_only": True,
    },
    "engines": [{
        "name": "pmlint",
        "path": "/verif/pmlint",
        "serves_properties": [c["property_id"] for c in checks],
        "kind_free_text": "repository-specific static analyser (stdlib ast): class/MRO/import model, statement CFG "
                          "with dominators and correlated-guard typestate runner, may-alias-memory origins with "
                          "mutation sinks and callee summaries, attribute def/use typestate, dependence slices, "
                          "shape labels; rules emit one obligation per instance",
    }],
    "checks": checks,
    "notes": "Static analysis only: every verdict is computed from the source text of /repo/pymoto as it is when the "
             "check runs; nothing from /repo is imported or executed. Exit 0 = all obligations discharged (KNOWN-FINDING "
             "lines for entries of known_findings.json), 1 = VIOLATION, 2 = ANALYSIS-ERROR (anchor vanished / instance "
             "count under the rule's floor / witness construct not flagged).",
    "not_applicable": [{"property_id": p, "reason": na.get(p, "static check for this property not built yet; its "
                        "remaining clauses quantify over numerical results (see DESIGN.md §4)")}
                       for p in ALL if p not in PROPS],
}
json.dump(man, open(os.path.join(HERE, "MANIFEST.json"), "w"), indent=1)
print("claimed:", [c["property_id"] for c in checks], "n/a:", [x["property_id"] for x in man["not_applicable"]])
