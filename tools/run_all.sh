#!/bin/bash
# Runs every registered check (quick and thorough) against /repo, validates MANIFEST and evidence files.
cd /verif
/venv/bin/python tools/gen_manifest.py >/dev/null
rc=0
for t in thorough quick; do
  for p in $(/venv/bin/python -c "import json;print(' '.join(c['property_id'] for c in json.load(open('MANIFEST.json'))['checks']))"); do
    out=$(/venv/bin/python -m pmlint check $p --tier $t); e=$?
    k=$(echo "$out" | grep -c "^KNOWN-FINDING")
    echo "$p $t exit=$e known=$k $(echo "$out" | grep '^pmlint' | sed 's/.*rules=/rules=/')"
    if [ $e -ne 0 ]; then rc=1; echo "$out" | grep -E "VIOLATION|ANALYSIS" | head -5; fi
  done
done
python3-vt - <<'PY'
import json, jsonschema, glob
jsonschema.validate(json.load(open('/verif/MANIFEST.json')), json.load(open('/root/.vp/MANIFEST.schema.json')))
sch = json.load(open('/root/.vp/EVIDENCE.schema.json'))
for f in sorted(glob.glob('/verif/evidence/C*.json')):
    jsonschema.validate(json.load(open(f)), sch)
print('manifest + evidence valid:', len(glob.glob('/verif/evidence/C*.json')), 'evidence files')
PY
exit $rc
